"""R: ring/trace contract checker.

Forward symbolic execution of the REAL function body (AST dumped by `vfx ast` from the scratch copy on every
run) over the free commutative ring: every scalar / group-element / polynomial value is an exact polynomial
over input symbols (group elements and `Polynomial`s appear linearly).  Callees are replaced by their
CONTRACT (a Python function over symbolic values), never by their body; the same contract object is what
the callee's own unit is checked against.  Transcript operations are logged as a sequence.

Anything outside the fragment raises OutsideFragment -> UNDECIDED (exit 2), never a verdict.
"""
import json
import os
import re
import subprocess

from .poly import Poly, S, C, R_BLS, witness_nonzero
from . import core

VFX = os.environ.get("VERIF_VFX", "/verif/.cache/vfx-target/release/vfx")


# zero-argument `&self` observers of dependency / crate types: modelled as uninterpreted functions of the receiver
PURE_GETTERS = {"to_be_bytes", "to_le_bytes", "to_bits", "to_bytes", "size", "is_zero", "is_empty", "degree", "is_identity", "is_on_curve", "is_torsion_free", "is_small_order", "is_prime_order", "is_some", "is_none", "index", "leading_zeros", "trailing_zeros", "count_ones",
                "is_power_of_two", "next_power_of_two", "checked_next_power_of_two",
                "max_degree", "constraints", "unwrap"}


# ASSUMED values of dependency constants (dusk-bls12_381's `impl PrimeField for BlsScalar`: NUM_BITS = 255, CAPACITY = NUM_BITS - 1;
# integer widths of the 64-bit target)
DEP_CONSTS = {"BlsScalar::CAPACITY": 254, "BlsScalar::NUM_BITS": 255, "usize::BITS": 64, "u64::BITS": 64, "u32::BITS": 32,
              "BlsScalar::SIZE": 32, "G1Affine::SIZE": 48, "G2Affine::SIZE": 96, "G1Affine::RAW_SIZE": 97, "u64::SIZE": 8, "u32::SIZE": 4}
DEP_CONSTS_U64 = {"u64::MAX": 0xFFFFFFFFFFFFFFFF}        # become U64-tagged values (the class is defined below)


# integer helper methods: uninterpreted binary functions when an operand is symbolic
PURE_BINARY = {"saturating_sub", "saturating_add", "wrapping_sub", "wrapping_add", "checked_add", "checked_sub", "checked_mul", "checked_shl", "checked_shr",
               "checked_div", "checked_pow", "saturating_mul",
               "unwrap_or", "pow"}


class OutsideFragment(Exception):
    pass


M64 = 0xFFFFFFFFFFFFFFFF


class U64(int):
    """a concrete integer KNOWN to be a u64 (a limb of a field element, u64::MAX, or computed from such): only these get the width-dependent
    operations (`!`, wrapping shifts, truncating `<<`); plain ints of unknown width do not"""

    def __new__(cls, v):
        return int.__new__(cls, int(v) & M64)

    def __repr__(self):
        return f"{int(self)}u64"


class LenInt(int):
    """a concrete integer that is (or is computed from) the LENGTH of a collection whose size was fixed by the unit's instance, not
    by the code: the value is an artefact of the chosen instance.  The taint survives integer arithmetic; a comparison of a LenInt
    with an untainted constant is a SIZE-DEPENDENT BRANCH of the code and is recorded (see Interp.note_len_cmp / runner.run_r)."""

    def __repr__(self):
        return int.__repr__(int(self))

    __str__ = __repr__

    def __format__(self, spec):
        return format(int(self), spec)


def _len_binop(name):
    base = getattr(int, name)

    def f(self, other):
        r = base(int(self), int(other)) if isinstance(other, int) and not isinstance(other, bool) else base(int(self), other)
        return LenInt(r) if type(r) is int else r
    return f


for _n in ("__add__", "__radd__", "__sub__", "__rsub__", "__mul__", "__rmul__", "__floordiv__", "__rfloordiv__", "__mod__",
           "__lshift__", "__rlshift__", "__rshift__"):
    setattr(LenInt, _n, _len_binop(_n))

class ThresholdInt(int):
    """a lowered size threshold (unit const `__threshold_override__`): may only be COMPARED with a length; any arithmetic on it, or a
    comparison with something that is not an instance-determined length, leaves the fragment"""

    def _no(self, *a):
        raise OutsideFragment("a lowered size threshold is used for something other than a comparison with a length")

    __add__ = __radd__ = __sub__ = __rsub__ = __mul__ = __rmul__ = __floordiv__ = __rfloordiv__ = __mod__ = __lshift__ = __rshift__ = _no


_LEN_CMPS = []      # size-dependent comparisons met by the current unit run: (op with the tainted side on the left, K, value, outcome)


class AstLost(Exception):
    pass


# ------------------------------------------------------------------------------------------------ values

class Sym:
    """A symbolic path rooted at an input (e.g. `self.evaluations.a_eval`).  Coerces to a ring variable."""
    __slots__ = ("path",)

    def __init__(self, path):
        self.path = path

    def __repr__(self):
        return f"Sym({self.path})"


class VArr:
    def __init__(self, items, kind="array"):
        self.items = list(items)
        self.kind = kind

    def copy(self):
        return VArr(self.items, self.kind)

    def __repr__(self):
        return f"{self.kind}{self.items}"


class _ViewItems:
    """live window [lo, hi) onto the items of a base array (a Rust slice borrowed from a Vec / array)"""

    def __init__(self, base, lo, hi):
        self.base, self.lo, self.hi = base, lo, hi

    def __len__(self):
        return self.hi - self.lo

    def _ix(self, i):
        n = len(self)
        if i < 0:
            i += n
        if not (0 <= i < n):
            raise IndexError(i)
        return self.lo + i

    def __getitem__(self, i):
        if isinstance(i, slice):
            return [self.base.items[self.lo + k] for k in range(*i.indices(len(self)))]
        return self.base.items[self._ix(i)]

    def __setitem__(self, i, v):
        if isinstance(i, slice):
            ks = list(range(*i.indices(len(self))))
            v = list(v)
            if len(ks) != len(v):
                raise OutsideFragment("resizing assignment through a slice view")
            for k, x in zip(ks, v):
                self.base.items[self.lo + k] = x
            return
        self.base.items[self._ix(i)] = v

    def __iter__(self):
        return iter([self.base.items[k] for k in range(self.lo, self.hi)])

    def __add__(self, o):
        return list(self) + list(o)

    def __radd__(self, o):
        return list(o) + list(self)

    def __eq__(self, o):
        return list(self) == list(o)

    def reverse(self):
        vals = list(self)[::-1]
        self[:] = vals

    def append(self, x):
        raise OutsideFragment("push onto a slice view")

    def extend(self, x):
        raise OutsideFragment("extend of a slice view")

    def pop(self):
        raise OutsideFragment("pop from a slice view")


class VView(VArr):
    """`&mut a[lo..hi]` / `&a[lo..hi]` with concrete bounds: reads and writes go to the base array"""

    def __init__(self, base, lo, hi):
        while isinstance(base, VView):          # a view of a view: compose offsets
            lo, hi, base = base.vlo + lo, base.vlo + hi, base.vbase
        self.vbase, self.vlo, self.vhi = base, lo, hi
        self.kind = "slice"

    @property
    def items(self):
        return _ViewItems(self.vbase, self.vlo, self.vhi)

    @items.setter
    def items(self, v):
        raise OutsideFragment("replacing the items of a slice view")


class VTuple:
    def __init__(self, items):
        self.items = list(items)

    def __repr__(self):
        return f"tuple{self.items}"


class VLabel:
    def __init__(self, s):
        self.s = s

    def __repr__(self):
        return f"b{self.s!r}"


class VOpaque:
    """Uninterpreted application: name(args) -- compared by canonical text."""

    def __init__(self, name, args=()):
        self.name = name
        self.args = list(args)

    def canon(self):
        if not self.args:
            return self.name
        return f"{self.name}({', '.join(canon(a) for a in self.args)})"

    def __repr__(self):
        return self.canon()


class VCoeffVec:
    """Coefficient vector of a polynomial in the formal variable X, of length  n*len_n + len_off  where n is the
    (symbolic) domain size: value = poly, an exact polynomial over symbols, `X` and `X^n`."""

    def __init__(self, poly, len_n=1, len_off=0, known_len=True):
        self.poly, self.len_n, self.len_off, self.known_len = poly, len_n, len_off, known_len

    def pos(self, j):
        return S("X") ** j

    def push(self, v):
        if not self.known_len:
            raise OutsideFragment("push on a coefficient vector of unknown length")
        self.poly = self.poly + as_poly(v) * (S("X^n") ** self.len_n) * (S("X") ** self.len_off)
        self.len_off += 1


class VPointwise:
    """simultaneous traversal of a (mutable) coefficient vector and another polynomial"""

    def __init__(self, vec, other):
        self.vec, self.other = vec, other


class VCell:
    """the generic coefficient of a mutable coefficient vector inside a pointwise loop"""

    def __init__(self, vec):
        self.vec = vec


class VVarRef:
    """`&mut x` (x a local of the caller) bound to a parameter of an INLINED helper: reads see x's current value, `*p = v` writes x"""

    def __init__(self, env, name):
        self.env, self.name = env, name


class VRefCell:
    """`&mut arr[i]` handed out by `iter_mut()` over a concrete array"""

    def __init__(self, arr, idx):
        self.arr, self.idx = arr, idx


def _int_lit(t):
    import re as _re
    t = t.replace("_", "").replace(" ", "")
    t = _re.sub(r"(u8|u16|u32|u64|u128|usize|i8|i16|i32|i64|i128|isize)$", "", t)
    try:
        return int(t, 0)
    except ValueError:
        return None


_CRATE_FILES = {}


def _crate_files(root):
    """the crate's source files (tests excluded), relative to the scratch root"""
    if root not in _CRATE_FILES:
        out = []
        for d, _ds, fs in os.walk(os.path.join(root, "src")):
            if "/tests" in d or d.endswith("/tests") or "verif_specs" in d:
                continue
            for f in fs:
                if f.endswith(".rs"):
                    out.append(os.path.relpath(os.path.join(d, f), root))
        _CRATE_FILES[root] = sorted(out)
    return _CRATE_FILES[root]


def _is_err_ctor(node):
    """syntactically `Err(..)` / `Err(..).into()` / `Err(e.into())`: only such a returned expression is evaluated ahead of the branch
    decision (anything else - e.g. a call of a helper - belongs to the branch and is evaluated on the path that takes it)"""
    while isinstance(node, dict) and node.get("k") in ("paren", "mcall") and (node.get("k") == "paren" or node.get("m") == "into"):
        node = node["e"] if node["k"] == "paren" else node["recv"]
    return isinstance(node, dict) and node.get("k") == "call" and node["f"].get("k") == "path" and node["f"]["segs"][-1] == "Err"


def _poly_nonneg(p):
    """sufficient test for p >= 0 when every symbol of p is a non-negative integer: no negative coefficient"""
    return all(c >= 0 for c in p.t.values())


def _norm_cond(c):
    """one spelling per condition: not(eq) -> ne, not(ne) -> eq, not(not x) -> x, not(lt) -> ge ..."""
    FLIP = {"eq": "ne", "ne": "eq", "lt": "ge", "ge": "lt", "gt": "le", "le": "gt"}
    while isinstance(c, VOpaque) and c.name == "not" and len(c.args) == 1 and isinstance(c.args[0], VOpaque):
        inner = c.args[0]
        if inner.name in FLIP and len(inner.args) == 2:
            c = VOpaque(FLIP[inner.name], list(inner.args))
        elif inner.name == "not" and len(inner.args) == 1:
            c = inner.args[0]
        else:
            break
    return c


def _subst_sym(v, old, new):
    """rename the generic-element symbol inside a value"""
    if isinstance(v, Sym):
        return Sym(v.path.replace(old, new))
    if isinstance(v, Poly):
        return v.rename(lambda n: n.replace(old, new))
    if isinstance(v, VOpaque):
        return VOpaque(v.name, [_subst_sym(x, old, new) for x in v.args])
    if isinstance(v, VTuple):
        return VTuple([_subst_sym(x, old, new) for x in v.items])
    return v


def _exit_if_none(opt, ret):
    """ONE canonical form for "leave with Err(e) if the option is None", however it is written (`match .. None => return Err(e)`,
    `let Some(x) = .. else { return Err(e) }`, `.ok_or(e)?`)"""
    if isinstance(ret, VErr):
        return ("try", f"{canon(opt)} is None => Err({ret.what})")
    return ("return_if_none", opt, ret)


def _deep_copy(v):
    if isinstance(v, VArr):
        return VArr([_deep_copy(x) for x in v.items], v.kind)
    if isinstance(v, VStruct):
        return VStruct(v.name, {k: _deep_copy(x) for k, x in v.fields.items()})
    if isinstance(v, VTuple):
        return VTuple([_deep_copy(x) for x in v.items])
    return v


def _deref(v):
    while isinstance(v, VRefCell):
        v = v.arr.items[v.idx]
    return v


class VSymEnum:
    """`.enumerate()` over a symbolic collection"""

    def __init__(self, sym):
        self.sym = sym


class VIter:
    def __init__(self, items):
        self.items = list(items)


class VSymIter:
    """an iterator over a collection of unknown length.  `sym` names the (possibly mapped) sequence; `base` / `elem` are its NORMAL
    FORM: the underlying collection and the value of the generic element as a function of base[*] -- so that
    xs.iter().map(f).map(g).for_each(h)  and  for x in xs { h(g(f(x))) }  leave the same trace."""

    def __init__(self, sym, base=None, elem=None):
        self.base = base if base is not None else sym
        self.elem = elem if elem is not None else Sym(sym.path + "[*]")
        self.sym = sym

    @staticmethod
    def mapped(src, body):
        ident = isinstance(body, (Sym, VOpaque, Poly)) and canon(body) == src.base.path + "[*]"
        if ident:
            return VSymIter(src.base)
        return VSymIter(Sym(VOpaque("map_each", [src.base, body]).canon()), base=src.base, elem=body)


class VClosure:
    def __init__(self, params, body, env):
        self.params, self.body, self.env = params, body, env


class VRange:
    def __init__(self, lo, hi):
        self.lo, self.hi = lo, hi


class VOk:
    def __init__(self, v):
        self.v = v


class VErr:
    def __init__(self, what):
        self.what = what


class VStruct:
    def __init__(self, name, fields):
        self.name, self.fields = name, fields


class VUnit:
    def __repr__(self):
        return "()"


UNIT = VUnit()
SKIP = object()   # a statement compiled out by #[cfg(..)]


def canon(v):
    if isinstance(v, Poly):
        n = v.norm()
        if not n:
            return "int:0"
        if len(n) == 1 and () in n and n[()] < (1 << 64):
            return f"int:{n[()]}"
        if len(n) == 1:
            (m, c), = n.items()
            if c == 1 and len(m) == 1 and m[0][1] == 1:
                return m[0][0]          # a single variable: print its name (same text as Sym / VOpaque)
        return "P" + v.canon()
    if isinstance(v, Sym):
        return v.path
    if isinstance(v, int):
        return f"int:{v}"
    if isinstance(v, VLabel):
        return f"label:{v.s}"
    if isinstance(v, (VOpaque, VStream)):
        return v.canon()
    if isinstance(v, (VArr, VIter)):
        return "[" + ", ".join(canon(x) for x in v.items) + "]"
    if isinstance(v, VTuple):
        return "(" + ", ".join(canon(x) for x in v.items) + ")"
    if isinstance(v, VOk):
        return f"Ok({canon(v.v)})"
    if isinstance(v, VErr):
        return f"Err({v.what})"
    if isinstance(v, VUnit):
        return "()"
    if isinstance(v, bool):
        return f"bool:{v}"
    if isinstance(v, str):
        return v
    if isinstance(v, VStruct):
        return v.name + "{" + ", ".join(f"{k}: {canon(x)}" for k, x in sorted(v.fields.items())) + "}"
    if v is None:
        return "none"
    if isinstance(v, VCoeffVec):
        return "coeffs" + canon(v.poly)
    if isinstance(v, VRange):
        return f"range({canon(v.lo)}, {canon(v.hi)})"
    raise OutsideFragment(f"cannot canonicalise {type(v).__name__}")


def show(v):
    if isinstance(v, Poly):
        return v.show()
    if isinstance(v, Sym):
        return v.path
    if isinstance(v, (VArr, VIter)):
        return "[" + ", ".join(show(x) for x in v.items) + "]"
    if isinstance(v, VTuple):
        return "(" + ", ".join(show(x) for x in v.items) + ")"
    return repr(v)


_OPAQUE_BY_CANON = {}


def as_poly(v):
    if isinstance(v, Poly):
        return v
    if isinstance(v, Sym):
        return S(v.path)
    if isinstance(v, VOpaque):
        c_ = v.canon()
        if v.name == "some_of":
            _OPAQUE_BY_CANON[c_] = v      # lets Interp.int_value see through `some_of(checked_add(..))` inside polynomials
        return S(c_)
    if isinstance(v, bool):
        raise OutsideFragment("bool used as ring element")
    if isinstance(v, int):
        return C(v)
    if isinstance(v, VCoeffVec):
        return v.poly
    raise OutsideFragment(f"value {type(v).__name__} used as ring element")


class InfeasiblePath(Exception):
    """raised by a path-dependent contract: the decisions of this path contradict a stated mathematical fact (the path is skipped)"""


class Undecidable(Exception):
    """the unit cannot be decided (not an OutsideFragment: a trace-only unit must not havoc its way past this)"""


class Return(Exception):
    def __init__(self, v):
        self.v = v


class ClosureCaptured(Exception):
    """closure-unit mode: the `let NAME = |..| ..` statement of the unit's closure has been reached"""

    def __init__(self, cl):
        self.cl = cl


class VStream:
    """a `&mut &[u8]` reader cursor handed to a closure under contract: reads / splits / `*buf = rest` are trace events"""

    def __init__(self, name):
        self.name = name

    def canon(self):
        return f"stream({self.name})"


class NeedDecision(Exception):
    """a symbolic branch was reached for which the current path has no decision yet"""


class Continue(Exception):
    pass


class Break(Exception):
    pass


# ------------------------------------------------------------------------------------------------ interpreter

class Ctx:
    """Effects of one symbolic run: transcript log, exits, rng draws."""

    def __init__(self):
        self.log = []      # transcript events: (op, label, canon(value) or None)
        self.exits = []    # ('try', what) / ('err_if', cond canon, err) / ('ret', canon)
        self.fresh = 0
        self.havoc = []

    def event(self, *e):
        self.log.append(tuple(e))
        if e and e[0] == "for_each_in_order" and len(e) >= 4 and e[3]:
            # the early exits of the generic iteration are exits of the FUNCTION too (for some element, in order): a unit that compares
            # only the exit list must see them.  Same rule on the code side (e_for) and the contract side (contracts call event()).
            self.exits.append(("for_some_element", e[1], tuple(e[3])))

    def fresh_sym(self, base):
        self.fresh += 1
        return Sym(f"{base}#{self.fresh}")


class Interp:
    def __init__(self, ctx, contracts, consts, src_name=""):
        self.ctx = ctx
        self.contracts = contracts  # name -> callable(interp, recv, args) -> value
        self.consts = consts        # name -> value (ints, Poly)
        self.src_name = src_name
        self.calls = []             # record of callee-contract uses
        self.trace_only = False     # havoc statements outside the fragment that do not mention a tracked object
        self.tracked = ()
        self.havoc_count = {}
        self.mut_names = set()
        self.havocked = []
        self.decisions = []      # path-splitting: decision taken at the k-th symbolic branch of this run
        self.dec_idx = 0
        self.path_conds = []     # [(condition value, taken?)]

    # -------- helpers
    def fail(self, node, why):
        sp = node.get("span") if isinstance(node, dict) else None
        raise OutsideFragment(f"{why} at {self.src_name}:{sp}")

    # -------- length preconditions of slice / index operations on vectors of unknown length (opt-in: consts["__track_len"])
    def _len_bounds(self, base, lower=True):
        """bounds on len(base) known on THIS path (polynomials in the non-negative integer symbols of the unit, e.g. the domain size n):
        exact lengths established by `resize`, decided comparisons of the path, and explicit `if len < k { return Err }` exits"""
        key = canon(VOpaque("len", [base]))
        out = []
        ex = getattr(self.ctx, "len_exact", {}).get(canon(base))
        if ex is not None:
            out.append(ex)
        conds = [(c, t) for c, t in self.path_conds] + [(e[1], False) for e in self.ctx.exits if e[0] == "err_if" and not isinstance(e[1], str)]
        for c, taken in conds:
            c = _norm_cond(c if taken else VOpaque("not", [c]))
            if not (isinstance(c, VOpaque) and len(c.args) == 2):
                continue
            l, r = c.args
            try:
                if canon(l) == key:
                    b = as_poly(r)
                    rel = c.name
                elif canon(r) == key:
                    b = as_poly(l)
                    rel = {"lt": "gt", "gt": "lt", "le": "ge", "ge": "le", "eq": "eq"}.get(c.name)
                else:
                    continue
            except OutsideFragment:
                continue
            if lower and rel in ("ge", "eq"):
                out.append(b)
            if lower and rel == "gt":
                out.append(b + 1)
            if not lower and rel in ("le", "eq"):
                out.append(b)
            if not lower and rel == "lt":
                out.append(b - 1)
        hook = self.contracts.get("__len_lower_bound" if lower else "__len_upper_bound")
        if hook is not None:
            hb = hook(self, base)
            if hb is not None:
                out.append(as_poly(hb))
        return out

    def int_value(self, v):
        """the integer a value denotes, as a polynomial in non-negative integer symbols, where that is known: the payload of a checked
        addition / multiplication that was found to be Some is the plain sum / product"""
        if isinstance(v, VOpaque) and v.name == "some_of" and len(v.args) == 1 and isinstance(v.args[0], VOpaque):
            o = v.args[0]
            if o.name == "checked_add" and len(o.args) == 2:
                return self.int_value(o.args[0]) + self.int_value(o.args[1])
            if o.name == "checked_mul" and len(o.args) == 2:
                return self.int_value(o.args[0]) * self.int_value(o.args[1])
            if o.name == "and_then" and len(o.args) == 2:
                return self.int_value(VOpaque("some_of", [o.args[1]]))
        if isinstance(v, Poly):
            # symbols of the polynomial that are themselves such payloads
            out = C(0)
            for mono, c in v.t.items():
                term = C(c)
                for name, exp in mono:
                    sv = _OPAQUE_BY_CANON.get(name)
                    base = self.int_value(sv) if sv is not None and isinstance(sv, VOpaque) and sv.name == "some_of" else S(name)
                    term = term * (base ** exp)
                out = out + term
            return out
        return as_poly(v)

    def len_lower_bounds(self, x):
        """lower bounds on len(x), also through tail windows: len(b[lo..]) = len(b) - lo"""
        out = [self.int_value(b) for b in self._len_bounds(x, True)]
        if isinstance(x, VOpaque) and x.name == "slice" and len(x.args) == 3 and x.args[2] == "end":
            b, lo = x.args[0], self.int_value(as_poly(x.args[1]))
            # every tail window of the same buffer whose length some decided condition / exit speaks about
            wins, seen = [b], {canon(b)}
            for c_, _t in list(self.path_conds) + [(e_[1], False) for e_ in self.ctx.exits if e_[0] == "err_if" and not isinstance(e_[1], str)]:
                for a_ in (c_.args if isinstance(c_, VOpaque) else []):
                    if isinstance(a_, VOpaque) and a_.name == "len" and a_.args and isinstance(a_.args[0], VOpaque) and a_.args[0].name == "slice" \
                            and len(a_.args[0].args) == 3 and a_.args[0].args[2] == "end" and canon(a_.args[0].args[0]) == canon(b) \
                            and canon(a_.args[0]) not in seen:
                        seen.add(canon(a_.args[0]))
                        wins.append(a_.args[0])
            for base_win in wins:
                off = lo - (as_poly(base_win.args[1]) if isinstance(base_win, VOpaque) and base_win.name == "slice" else C(0))
                if not _poly_nonneg(off):
                    continue
                for bb in self._len_bounds(base_win, True):
                    out.append(self.int_value(bb) - off)
        return out

    def exit_err_if(self, cond, what):
        """record the exit `if cond { return Err(what) }` - unless the condition is `len(x) < k` and the path already knows len(x) >= k
        (an unreachable exit is not part of the function's behaviour)"""
        c = _norm_cond(cond)
        if isinstance(c, VOpaque) and c.name == "lt" and len(c.args) == 2 and isinstance(c.args[0], VOpaque) and c.args[0].name == "len":
            try:
                k = self.int_value(as_poly(c.args[1]))
                if any(_poly_nonneg(lb - k) for lb in self.len_lower_bounds(c.args[0].args[0])):
                    self.calls.append("PRUNED-UNREACHABLE-EXIT:" + canon(c)[:80])
                    return
            except OutsideFragment:
                pass
        self.ctx.exits.append(("err_if", c, what))

    def need_len(self, base, req, what):
        """an operation that panics unless len(base) >= req: the requirement must follow from what is known on this path"""
        if not self.consts.get("__track_len"):
            return
        req = as_poly(req)
        if isinstance(base, VOpaque) and base.name.startswith("havoc:"):
            raise Undecidable(f"{what}: the vector ({base.name}) was produced by a statement outside the fragment, its length facts are unknown")
        for b in self._len_bounds(base, True):
            if _poly_nonneg(b - req):
                return
        msg = f"{what}: needs len({canon(base)[:60]}) >= {req.show()} (would panic otherwise) - not established on this path"
        self.ctx.len_unmet = getattr(self.ctx, "len_unmet", []) + [msg]

    def has_cfg_test(self, node):
        for a in node.get("attrs", []) or []:
            a2 = a.replace(" ", "")
            if a2.startswith("#[cfg(test)]"):
                return True
        return False

    def cfg_active(self, node):
        """Evaluate #[cfg(...)] attributes for the default feature set (std, alloc); test off."""
        for a in node.get("attrs", []) or []:
            a2 = a.replace(" ", "")
            if not a2.startswith("#[cfg("):
                continue
            inner = a2[len("#[cfg("):-2]
            if not self.eval_cfg(inner):
                return False
        return True

    def eval_cfg(self, s):
        feats = {"std", "alloc", "default", "rayon", "msgpacker", "miniz_oxide", "sha2"}
        if s == "test":
            return False
        if s.startswith('feature="'):
            return s[len('feature="'):-1] in feats
        if s.startswith("not(") and s.endswith(")"):
            return not self.eval_cfg(s[4:-1])
        if s.startswith("all(") and s.endswith(")"):
            return all(self.eval_cfg(x) for x in _split_top(s[4:-1]))
        if s.startswith("any(") and s.endswith(")"):
            return any(self.eval_cfg(x) for x in _split_top(s[4:-1]))
        raise OutsideFragment(f"cfg predicate {s}")

    # -------- patterns
    def bind(self, pat, val, env):
        k = pat["k"]
        if k == "ident":
            if isinstance(val, VArr) and val.kind == "array":
                val = val.copy()
            if pat.get("mut"):
                self.mut_names.add(pat["name"])
            env[pat["name"]] = val
        elif k == "wild":
            pass
        elif k == "typed":
            self.bind(pat["pat"], val, env)
        elif k == "ref":
            self.bind(pat["pat"], val, env)
        elif k == "tuple":
            if isinstance(val, VTuple):
                items = val.items
            elif isinstance(val, Sym):
                items = [Sym(f"{val.path}.{i}") for i in range(len(pat["elems"]))]
            else:
                raise OutsideFragment(f"tuple pattern against {type(val).__name__}")
            if len(items) != len(pat["elems"]):
                raise OutsideFragment("tuple arity")
            for p, v in zip(pat["elems"], items):
                self.bind(p, v, env)
        elif k == "slice":
            if isinstance(val, (VArr, VTuple)) and len(val.items) == len(pat["elems"]):
                for p, v in zip(pat["elems"], val.items):
                    self.bind(p, v, env)
            else:
                raise OutsideFragment("slice pattern against non-array")
        elif k == "struct":
            # `Type { a, b: p, .. }`: field projections of the value
            for f in pat["fields"]:
                m = f["member"].strip()
                if isinstance(val, VStruct):
                    if m not in val.fields:
                        raise OutsideFragment(f"struct pattern: no field {m}")
                    v = val.fields[m]
                elif isinstance(val, (Sym, VOpaque)):
                    v = Sym(f"{canon(val)}.{m}")
                else:
                    raise OutsideFragment(f"struct pattern against {type(val).__name__}")
                self.bind(f["pat"], v, env)
        else:
            raise OutsideFragment(f"pattern kind {k}")

    # -------- blocks / statements
    def block(self, b, env):
        env = dict_child(env)
        last = UNIT
        stmts = b["stmts"]
        for i, st in enumerate(stmts):
            v = self.stmt(st, env, is_last=(i == len(stmts) - 1))
            if v is not SKIP:
                last = v
        return last

    memo_skip = frozenset()

    def run_fn_body(self, ast, env):
        """the body of a crate function (the unit's own or an inlined helper): statements that belong to a memo cache are left out (the run
        computes the MISS path, see vlib/memo.py); the cache's soundness findings are collected for the unit's obligations"""
        rel_ = ast.get("__rel__")
        if rel_ and getattr(self, "file_root", None) and rel_ != self.file_root[1]:
            # a helper that lives in ANOTHER file sees that file's `const` items
            saved_c = self.consts
            try:
                extra = file_consts(self.file_root[0], rel_)
            except Exception:
                extra = {}
            self.consts = dict(extra, **saved_c)
            saved_root = self.file_root
            self.file_root = (saved_root[0], rel_, None)       # free helpers / `use` declarations are resolved relative to the helper's own file
            try:
                return self._run_fn_body(ast, env)
            finally:
                self.consts = saved_c
                self.file_root = saved_root
        return self._run_fn_body(ast, env)

    def _run_fn_body(self, ast, env):
        saved_fn_ = getattr(self, "cur_fn", None)
        self.cur_fn = (ast.get("__rel__") or (self.file_root[1] if getattr(self, "file_root", None) else "?")) + "::" + str(ast["sig"].get("name"))
        try:
            return self._run_fn_body2(ast, env)
        finally:
            self.cur_fn = saved_fn_

    def _run_fn_body2(self, ast, env):
        mm = ast.get("__memo__") if getattr(self, "memo_enabled", True) else None
        if not mm:
            return self.block(ast["body"], env)
        saved = self.memo_skip
        self.memo_skip = mm["skip"]
        for f in mm["findings"]:
            self.ctx.memo_findings = getattr(self.ctx, "memo_findings", []) + [dict(f, fn=ast["sig"]["name"])]
            _MEMO_FOUND.append(dict(f, fn=ast["sig"]["name"]))
        self.calls.append("MEMO-CACHE-REMOVED:" + ast["sig"]["name"])
        try:
            return self.block(ast["body"], env)
        finally:
            self.memo_skip = saved

    def stmt(self, st, env, is_last):
        if self.memo_skip and tuple(st.get("span") or ()) in self.memo_skip:
            return SKIP
        if not self.trace_only:
            return self.stmt_inner(st, env, is_last)
        snap_log, snap_exits = len(self.ctx.log), len(self.ctx.exits)
        try:
            return self.stmt_inner(st, env, is_last)
        except OutsideFragment as e:
            names = set(_idents(st))
            if names & set(self.tracked) or len(self.ctx.log) != snap_log or len(self.ctx.exits) != snap_exits:
                raise OutsideFragment(f"statement mentions a tracked object ({sorted(names & set(self.tracked))}) and is outside the fragment: {e}")
            # havoc: every name bound by the statement, and every `mut` local it mentions, gets a fresh opaque value
            if st["k"] == "let":
                for n in _pat_names(st["pat"]):
                    dict.__setitem__(env, n, self.havoc_value(n))
                for n in _pat_mut_names(st["pat"]):
                    self.mut_names.add(n)
            for n in sorted(names & self.mut_names & _maybe_mutated(st)):
                if n in env and not (st["k"] == "let" and n in _pat_names(st["pat"])):
                    try:
                        set_var(env, n, self.havoc_value(n))
                    except KeyError:
                        pass
            self.havocked.append({"span": st.get("span"), "why": str(e)[:160]})
            # a havocked statement may still LEAVE the function: `?`, `return`, panicking macros.  Those exits are part of the
            # function's behaviour; they are recorded (coarsely: kinds + names bound) so that the contract has to list them
            kinds = sorted(k for k in ("try", "return") if _has_kind(st, (k,)))
            if _has_macro(st, ("assert", "assert_eq", "assert_ne", "panic", "unreachable", "todo", "unimplemented")):
                kinds.append("panic")
            if kinds:
                bound = sorted(_pat_names(st["pat"])) if st["k"] == "let" else []
                self.ctx.exits.append(("unmodelled_exit", "+".join(kinds), ",".join(bound)))
            return UNIT

    def havoc_value(self, name):
        # named after the variable only: a havocked variable stands for "whatever the untracked code computed into it"
        self.havoc_count[name] = self.havoc_count.get(name, 0) + 1
        return VOpaque(f"havoc:{name}")

    def stmt_inner(self, st, env, is_last):
        k = st["k"]
        if k == "let":
            if not self.cfg_active(st):
                return UNIT
            if st.get("else") is not None:
                return self.let_else(st, env)
            v = self.expr(st["init"], env) if st["init"] is not None else None
            self.bind(st["pat"], v, env)
            if isinstance(v, VClosure):
                v.name = st["pat"].get("name")
                if getattr(self, "capture_closure", None) and v.name == self.capture_closure:
                    raise ClosureCaptured(v)
            return UNIT
        if k == "expr":
            e = st["expr"]
            if not self.cfg_active(e):
                return SKIP
            v = self.expr(e, env)
            if st["semi"]:
                return UNIT
            return v
        if k == "macro":
            if not self.cfg_active(st):
                return UNIT
            p = st["path"]
            if p in ("debug_assert", "debug_assert_eq", "debug_assert_ne"):
                return UNIT
            if p in ("assert_eq", "assert_ne") and st.get("args") and len(st["args"]) >= 2:
                l_, r_ = _deref(self.expr(st["args"][0], env)), _deref(self.expr(st["args"][1], env))
                if isinstance(l_, int) and isinstance(r_, int):
                    if (l_ == r_) != (p == "assert_eq"):
                        self.ctx.exits.append(("panic", p + "!(" + st["tokens"][:80] + ") fails"))
                    return UNIT
                try:
                    same = canon(l_) == canon(r_)
                except Exception:
                    same = False
                if same and p == "assert_eq":
                    return UNIT          # syntactically the same value on both sides: the assertion holds
                self.ctx.exits.append(("panic_unless", VOpaque("eq" if p == "assert_eq" else "ne", [l_, r_])))
                return UNIT
            if p == "assert" and st.get("args"):
                c = self.expr(st["args"][0], env)
                if c is True:
                    return UNIT
                if c is False:
                    self.ctx.exits.append(("panic", "assert!(" + st["tokens"][:80] + ") is false"))
                    return UNIT
                self.ctx.exits.append(("panic_unless", c))
                return UNIT
            self.fail(st, f"macro statement {p}!")
        if k == "item":
            it = st["item"]
            if it["kind"] == "const":
                ov_ = self.consts.get("__threshold_override__") or {}
                if it["name"] in ov_:
                    # INSTANCE PARAMETER: a size threshold of the code lowered so that small instances execute the large-size path.
                    # Only sound for a constant that is nothing but a threshold: every use must be a comparison with a length.
                    self.threshold_overrides_used = getattr(self, "threshold_overrides_used", set()) | {it["name"]}
                    env[it["name"]] = ThresholdInt(ov_[it["name"]])
                    return UNIT
                env[it["name"]] = self.expr(it["expr"], env)
                return UNIT
            if it["kind"] == "use":
                return UNIT
            self.fail(st, "nested item")
        self.fail(st, f"statement kind {k}")

    # -------- expressions
    def expr(self, e, env):
        k = e["k"]
        m = getattr(self, "e_" + k, None)
        if m is None:
            self.fail(e, f"expression kind `{k}`")
        return m(e, env)

    def e_paren(self, e, env):
        return self.expr(e["e"], env)

    def e_block(self, e, env):
        return self.block(e, env)

    def e_unsafe(self, e, env):
        return self.block(e["block"], env)

    def e_int(self, e, env):
        return int(e["digits"])

    def e_bool(self, e, env):
        return bool(e["v"])

    def e_str(self, e, env):
        return VLabel(e["v"])

    def e_bytestr(self, e, env):
        return VLabel(e["v"])

    def _lazy_file_const(self, n):
        """a `const` item of the current file whose initialiser is not a plain integer (an array of limbs, a tuple, ..): evaluated from
        its AST on first use (free of inputs by definition); u64-typed entries are tagged as 64-bit values"""
        if not getattr(self, "file_root", None):
            return None
        cache = self.__dict__.setdefault("_lazy_consts", {})
        key = (self.file_root[1], n)
        if key in cache:
            return cache[key]
        val = None
        for it_ in file_index(self.file_root[0], self.file_root[1]):
            if it_.get("kind") == "const" and it_.get("path", "").split("::")[-1] == n and it_.get("expr"):
                cache[key] = None           # no recursion through itself
                val = self.expr(it_["expr"], ChildEnv(None))
                if "u64" in str(it_.get("ty", "")):
                    tag = lambda x: U64(x) if isinstance(x, int) and not isinstance(x, bool) else x
                    if isinstance(val, VArr):
                        val = VArr([tag(x) for x in val.items], val.kind)
                    else:
                        val = tag(val)
                break
        cache[key] = val
        return val

    def e_ref(self, e, env):
        return self.expr(e["e"], env)

    def e_path(self, e, env):
        segs = e["segs"]
        if len(segs) == 2 and segs[0] == "Self" and segs[1] in self.consts:
            return self.consts[segs[1]]
        if len(segs) == 1:
            n = segs[0]
            if n in env:
                v_ = env[n]
                while isinstance(v_, VVarRef):      # auto-deref of a by-reference parameter
                    v_ = v_.env[v_.name]
                return v_
            if n in self.consts:
                return self.consts[n]
            lazy_ = self._lazy_file_const(n)
            if lazy_ is not None:
                return lazy_
            self.fail(e, f"unknown name `{n}`")
        p = e["path"]
        if p in self.consts:
            return self.consts[p]
        last2 = "::".join(segs[-2:])
        if last2 in self.consts:
            return self.consts[last2]
        if p in self.contracts or last2 in self.contracts:
            return VOpaque("fn:" + last2)      # a function named as a value (e.g. passed to `.map`)
        if last2 in DEP_CONSTS:
            return DEP_CONSTS[last2]           # constants of the dependencies whose values are fixed by their source (listed)
        if last2 in DEP_CONSTS_U64:
            return U64(DEP_CONSTS_U64[last2])
        if len(segs) == 2 and segs[1].isupper() and segs[0] not in ("Self",):
            return Sym(last2)                  # an associated constant of another type (e.g. u64::SIZE): a symbol
        ENUMS = ("Error", "PlonkVersion", "Selector", "WiredWitness", "WireData")
        if segs[0] in ENUMS or (len(segs) >= 2 and segs[-2] in ENUMS):
            return VOpaque(last2)
        self.fail(e, f"unknown path `{p}`")

    def e_unary(self, e, env):
        v = self.expr(e["e"], env)
        if e["op"] == "*":
            if isinstance(v, VRefCell):
                return v.arr.items[v.idx]
            return v
        if e["op"] == "-":
            if isinstance(v, int):
                return -v
            if isinstance(v, VStruct) and getattr(self, "file_root", None):
                # `-x` on a crate struct: the real body of its `Neg` impl, on a copy (neg takes self by value)
                rv = self.inline_method(_deep_copy(v), "neg", [], type_name="__opassign__")
                if rv is not NotImplemented:
                    return rv
            return -as_poly(v)
        if e["op"] == "!":
            if isinstance(v, bool):
                return not v
            if isinstance(v, U64):
                return U64(~int(v))
            if isinstance(v, VOpaque) and v.name == "not":
                return v.args[0]
            if isinstance(v, (VOpaque, Sym)):
                return VOpaque("not", [v])
        self.fail(e, f"unary {e['op']}")

    def e_binary(self, e, env):
        op = e["op"]
        if op in ("+=", "-=") and e["l"]["k"] == "index":
            base = self.expr(e["l"]["e"], env)
            if isinstance(base, VCoeffVec):
                idx = self.expr(e["l"]["i"], env)
                if not isinstance(idx, int):
                    self.fail(e, "symbolic index into coefficient vector")
                if not base.known_len and self.consts.get("__track_len"):
                    org = getattr(base, "origin", None)
                    if org is not None:
                        self.need_len(org[0], as_poly(org[1]) + idx + 1, f"index [{idx}] of the tail slice starting at {as_poly(org[1]).show()}")
                    else:
                        self.ctx.len_unmet = getattr(self.ctx, "len_unmet", []) + [f"index [{idx}] into a vector of unknown length"]
                r = as_poly(self.expr(e["r"], env))
                base.poly = base.poly + (r if op == "+=" else -r) * base.pos(idx)
                return UNIT
        if op in ("+=", "-=") and e["l"]["k"] == "unary" and e["l"]["op"] == "*":
            tgt = self.expr(e["l"]["e"], env)
            if isinstance(tgt, VCell):
                r = as_poly(self.expr(e["r"], env))
                tgt.vec.poly = tgt.vec.poly + (r if op == "+=" else -r)
                return UNIT
        if op in ("+=", "-=", "*="):
            cur = self.expr(e["l"], env)
            r = self.expr(e["r"], env)
            if isinstance(cur, VStruct) and getattr(self, "file_root", None):
                # `x op= y` on a crate struct: the real body of its `OpAssign` impl (found in the unit's helper files), on x itself
                rv = self.inline_method(cur, {"+": "add_assign", "-": "sub_assign", "*": "mul_assign"}[op[0]], [r], type_name="__opassign__")
                if rv is not NotImplemented:
                    return UNIT
            nv = self.arith(op[0], cur, r, e)
            self.assign(e["l"], nv, env)
            return UNIT
        if op in ("<<=", ">>=", "|=", "&=", "^="):
            cur = _deref(self.expr(e["l"], env))
            r = _deref(self.expr(e["r"], env))
            if not (isinstance(cur, int) and isinstance(r, int)):
                # bit operation on a symbolic integer: an uninterpreted function of its operands
                self.assign(e["l"], VOpaque({"<<=": "shl", ">>=": "shr", "|=": "bitor", "&=": "bitand", "^=": "bitxor"}[op], [cur, r]), env)
                return UNIT
            nv = {"<<=": lambda: (cur << r) & 0xFFFFFFFFFFFFFFFF, ">>=": lambda: cur >> r, "|=": lambda: cur | r, "&=": lambda: cur & r, "^=": lambda: cur ^ r}[op]()
            self.assign(e["l"], nv, env)
            return UNIT
        l = self.expr(e["l"], env)
        if op in ("||", "&&"):
            # short-circuit semantics: the right operand is evaluated only if the left one does not decide
            if isinstance(l, bool):
                if (op == "||" and l) or (op == "&&" and not l):
                    return l
                return self.expr(e["r"], env)
            self.path_conds.append((l, op == "&&"))
            try:
                r = self.expr(e["r"], env)
            finally:
                self.path_conds.pop()
            return VOpaque("or" if op == "||" else "and", [l, r])
        r = self.expr(e["r"], env)
        if op in ("+", "-", "*"):
            return self.arith(op, l, r, e)
        if op in ("==", "!="):
            l, r = _deref(l), _deref(r)
            isopt_ = lambda x: isinstance(x, VOpaque) and x.name in ("Some", "None") and len(x.args) == (1 if x.name == "Some" else 0)
            if isopt_(l) and isopt_(r):
                # Option equality: same constructor and equal payloads
                if l.name != r.name:
                    return op != "=="
                if l.name == "None":
                    return op == "=="
                l, r = _deref(l.args[0]), _deref(r.args[0])
            if isinstance(l, int) and isinstance(r, int):
                self.note_len_cmp(op, l, r, (l == r) if op == "==" else (l != r))
                return (l == r) if op == "==" else (l != r)
            if isinstance(l, (Poly, int)) and isinstance(r, (Poly, int)) and not as_poly(l).vars() and not as_poly(r).vars():
                same = (as_poly(l) - as_poly(r)).is_zero()
                return same if op == "==" else not same
            try:
                if isinstance(l, (VOpaque, Sym)) and isinstance(r, (VOpaque, Sym)) and canon(l) == canon(r) and "havoc:" not in canon(l):
                    return op == "=="           # the same symbolic term on both sides
            except Exception:
                pass
            return VOpaque("ne" if op == "!=" else "eq", [l, r])
        if op in ("<", "<=", ">", ">=") and isinstance(l, int) and isinstance(r, int):
            out_ = {"<": l < r, "<=": l <= r, ">": l > r, ">=": l >= r}[op]
            self.note_len_cmp(op, l, r, out_)
            return out_
        if op in ("<", "<=", ">", ">="):
            return VOpaque({"<": "lt", "<=": "le", ">": "gt", ">=": "ge"}[op], [l, r])
        if op in ("<<", ">>", "^") and isinstance(l, int) and isinstance(r, int) and not isinstance(l, bool):
            tag = U64 if isinstance(l, U64) else int
            if op == "^":
                return tag(l ^ r) if isinstance(l, U64) or isinstance(r, U64) else l ^ r
            if not (0 <= r < 64):
                raise OutsideFragment("shift amount out of range (would panic / wrap)")
            return tag((int(l) << int(r)) & 0xFFFFFFFFFFFFFFFF) if op == "<<" else tag(int(l) >> int(r))
        if op in ("/", "%") and isinstance(l, int) and isinstance(r, int) and r != 0:
            return l // r if op == "/" else l % r
        if op in ("/", "%"):
            return VOpaque("div" if op == "/" else "rem", [l, r])
        if op in ("||", "&&", "&", "|"):
            if isinstance(l, bool) and isinstance(r, bool):
                return (l or r) if op in ("||", "|") else (l and r)
            if isinstance(l, int) and isinstance(r, int):
                res_ = (int(l) | int(r)) if op == "|" else (int(l) & int(r))
                return U64(res_) if isinstance(l, U64) or isinstance(r, U64) else res_
            return VOpaque("or" if op in ("||", "|") else "and", [l, r])
        self.fail(e, f"binary operator {op}")

    def note_len_cmp(self, op, l, r, outcome):
        """a comparison between an instance-determined length (LenInt) and an untainted constant: a size-dependent branch"""
        lt, rt = isinstance(l, LenInt), isinstance(r, LenInt)
        if (isinstance(l, ThresholdInt) and not rt) or (isinstance(r, ThresholdInt) and not lt):
            raise OutsideFragment("a lowered size threshold is compared with something that is not an instance-determined length")
        if lt == rt or isinstance(l, bool) or isinstance(r, bool):
            return
        if rt:      # normalise: tainted side on the left
            op = {"<": ">", "<=": ">=", ">": "<", ">=": "<=", "==": "==", "!=": "!="}[op]
            l, r = r, l
        _LEN_CMPS.append((getattr(self, "cur_fn", None) or "?", op, int(r), int(l), bool(outcome)))

    def arith(self, op, l, r, node):
        l, r = _deref(l), _deref(r)
        if isinstance(l, int) and isinstance(r, int) and not isinstance(l, bool):
            return {"+": l + r, "-": l - r, "*": l * r}[op]
        a, b = as_poly(l), as_poly(r)
        if op == "+":
            return a + b
        if op == "-":
            return a - b
        return a * b

    def assign(self, target, val, env):
        k = target["k"]
        if k == "path" and len(target["segs"]) == 1:
            n = target["segs"][0]
            if n not in env:
                self.fail(target, f"assignment to unknown `{n}`")
            set_var(env, n, val)
            return
        if k == "index":
            base = self.expr(target["e"], env)
            idx = self.expr(target["i"], env)
            if isinstance(base, VArr) and isinstance(idx, int):
                if not (0 <= idx < len(base.items)):
                    raise OutsideFragment(f"index {idx} out of bounds (len {len(base.items)}) in assignment")
                self.check_lazy_hazard(base, idx)
                base.items[idx] = val
                return
            if isinstance(base, VOpaque) and target["e"]["k"] == "path" and len(target["e"]["segs"]) == 1:
                # a vector of unknown length: the variable now holds "base with entry idx replaced by val"
                set_var(env, target["e"]["segs"][0], VOpaque("updated", [base, idx, val]))
                return
            self.fail(target, "indexed assignment on non-array")
        if k == "field":
            base = _deref(self.expr(target["e"], env))
            if isinstance(base, VStruct):
                base.fields[target["member"].strip()] = val      # `s.f = v` on a struct value held by reference
                return
            self.fail(target, "field assignment on a non-struct value")
        if k in ("paren",):
            return self.assign(target["e"], val, env)
        if k == "unary" and target["op"] == "*":
            if target["e"]["k"] == "path" and len(target["e"]["segs"]) == 1 and isinstance(env[target["e"]["segs"][0]] if target["e"]["segs"][0] in env else None, VVarRef):
                r_ = env[target["e"]["segs"][0]]
                set_var(r_.env, r_.name, val)       # `*p = v` through a by-reference parameter writes the caller's local
                return
            inner = self.expr(target["e"], env) if target["e"]["k"] == "path" else None
            if isinstance(inner, VRefCell):
                self.check_lazy_hazard(inner.arr, inner.idx)
                inner.arr.items[inner.idx] = val
                return
            if isinstance(inner, VStream):
                self.ctx.event("advance", inner.canon(), canon(val))
                return
            if isinstance(inner, VOpaque) and inner.name.startswith("self.") and inner.name.count(".") >= 2:
                fld_ = ".".join(inner.name.split(".")[:2])
                self.ctx.event("field_effect", fld_, "write_through:" + inner.name[len(fld_) + 1:], canon(val))
                return
            return self.assign(target["e"], val, env)
        self.fail(target, f"assignment target {k}")

    def e_assign(self, e, env):
        v = self.expr(e["r"], env)
        self.assign(e["l"], v, env)
        return UNIT

    def e_field(self, e, env):
        b = self.expr(e["e"], env)
        m = e["member"]
        if isinstance(b, VTuple) and m.isdigit():
            return b.items[int(m)]
        if isinstance(b, VStruct):
            if m in b.fields:
                return b.fields[m]
            self.fail(e, f"no field {m}")
        if isinstance(b, Sym):
            return Sym(f"{b.path}.{m}")
        if isinstance(b, VOpaque):
            return Sym(f"{b.canon()}.{m}")
        self.fail(e, f"field access on {type(b).__name__}")

    def e_index(self, e, env):
        b = self.expr(e["e"], env)
        i = self.expr(e["i"], env)
        if isinstance(b, VStruct) and len(b.fields) == 1 and (b.name + "[]") not in self.contracts:
            (b,) = b.fields.values()      # Deref to the single collection field (Polynomial -> [BlsScalar])
        if isinstance(b, VArr):
            if isinstance(i, int):
                if not (0 <= i < len(b.items)):
                    raise OutsideFragment(f"index {i} out of bounds (len {len(b.items)})")
                return b.items[i]
            if isinstance(i, VRange):
                lo = 0 if i.lo is None else i.lo
                hi = len(b.items) if i.hi is None else i.hi
                if not (isinstance(lo, int) and isinstance(hi, int)):
                    # a window with symbolic bounds onto a concrete array: only meaningful as the target of a bulk write
                    return VOpaque("window", [b, lo, hi])
                if not (0 <= lo <= hi <= len(b.items)):
                    raise OutsideFragment("slice out of bounds (would panic)")
                return VView(b, lo, hi)
        if isinstance(b, Sym) and (b.path.split(".")[-1] + "[]") in self.contracts:
            return self.contracts[b.path.split(".")[-1] + "[]"](self, b, [i])
        if isinstance(b, Sym):
            if isinstance(i, int):
                return Sym(f"{b.path}[{i}]")
            if isinstance(i, Sym):
                return Sym(f"{b.path}[{i.path}]")
        if isinstance(b, VOpaque) and b.name == "slice" and isinstance(i, VRange):
            # slice of a slice: offsets compose
            b0, lo0, hi0 = b.args
            lo = as_poly(lo0) + (as_poly(i.lo) if i.lo is not None else C(0))
            hi = (as_poly(lo0) + as_poly(i.hi)) if i.hi is not None else hi0
            return VOpaque("slice", [b0, lo, hi])
        if isinstance(b, (Sym, VOpaque)) and isinstance(i, VRange):
            lo_ = as_poly(i.lo) if i.lo is not None else C(0)
            self.need_len(b, as_poly(i.hi) if i.hi is not None else lo_, f"slice [{lo_.show()}..{as_poly(i.hi).show() if i.hi is not None else ''}]")
            return VOpaque("slice", [b, lo_, "end" if i.hi is None else as_poly(i.hi)])
        if isinstance(b, VOpaque) and isinstance(i, (int, Sym, VOpaque)):
            return VOpaque("idx", [b, i])
        if isinstance(b, VCoeffVec) and isinstance(i, int):
            self.fail(e, "reading a coefficient of a symbolic vector")
        self.fail(e, "indexing")

    def e_range(self, e, env):
        lo = self.expr(e["lo"], env) if e["lo"] is not None else None
        hi = self.expr(e["hi"], env) if e["hi"] is not None else None
        if e["closed"] and hi is not None and isinstance(hi, int):
            hi = hi + 1
        if e["closed"] and hi is not None and not isinstance(hi, int):
            self.fail(e, "inclusive range with symbolic bound")
        return VRange(lo, hi)

    def e_tuple(self, e, env):
        if not e["elems"]:
            return UNIT
        return VTuple([self.expr(x, env) for x in e["elems"]])

    def e_array(self, e, env):
        return VArr([self.expr(x, env) for x in e["elems"]], "array")

    def e_repeat(self, e, env):
        v = self.expr(e["e"], env)
        n = self.expr(e["len"], env)
        if not isinstance(n, int):
            self.fail(e, "array length not constant")
        return VArr([v] * n, "array")

    def e_for(self, e, env):
        it = self.expr(e["iter"], env)
        if isinstance(it, VRange):
            if not isinstance(it.lo, int) or not isinstance(it.hi, int):
                self.fail(e, "range with symbolic bounds")
            items = list(range(it.lo, it.hi))
        if isinstance(it, (Sym, VOpaque)) and not (isinstance(it, VOpaque) and it.name in ("Some", "None")):
            it = VSymIter(Sym(canon(it)))          # `for x in collection` (IntoIterator of a symbolic collection)
        if isinstance(it, VRange):
            pass
        elif isinstance(it, VArr) and e["iter"]["k"] == "ref" and e["iter"].get("mut"):
            items = [VRefCell(it, i) for i in range(len(it.items))]      # `for x in &mut v`: x is a mutable reference to the cell
        elif isinstance(it, (VIter, VArr)):
            items = it.items
        elif isinstance(it, (VSymIter, VSymEnum)):
            # a loop over a collection of unknown length: the body is executed ONCE on the generic element; its events and
            # early exits are recorded as one event "for every element, in order"; pushes onto outer vectors add one
            # generic entry `for_each_pushed(collection, value)`.
            # LOOP-CARRIED scalars (outer variables the body assigns): the iteration starts from a fresh symbol
            # `carried:<name>` (any value an earlier iteration may have left), the value at the end of the body is recorded as
            # a `carried_update` entry of the iteration summary (the per-iteration TRANSITION is what the contract states), and
            # after the loop the variable is unknown.
            env2 = dict_child(env)
            base = getattr(it, "base", it.sym)
            el = getattr(it, "elem", None)
            if el is None:
                el = Sym(it.sym.path + "[*]")
            self.bind(e["pat"], VTuple([Sym(it.sym.path + "[#]"), el]) if isinstance(it, VSymEnum) else el, env2)
            carried = sorted(n for n in _assigned_names(e["body"]) if n in env and n not in _pat_names(e["pat"]) and n not in _let_names(e["body"])
                             and not isinstance(env[n], (VArr, VCoeffVec, VStruct))
                             and not (isinstance(env[n], VOpaque) and env[n].name in ("zeros", "updated")))      # index-filled vectors are not loop-carried scalars
            for n in carried:
                set_var(env, n, Sym(f"carried:{n}"))
            saved_log, saved_exits, saved_loop = self.ctx.log, self.ctx.exits, getattr(self, "generic_loop", None)
            self.ctx.log, self.ctx.exits, self.generic_loop = [], [], base
            try:
                try:
                    self.block(e["body"], env2)
                except Continue:
                    pass
                for n in carried:
                    self.ctx.log.append(("carried_update", n, env[n]))
                sub_log, sub_exits = tuple(self.ctx.log), tuple(self.ctx.exits)
            finally:
                self.ctx.log, self.ctx.exits, self.generic_loop = saved_log, saved_exits, saved_loop
            for n in carried:
                set_var(env, n, VOpaque(f"after_loop:{n}"))
            if not sub_log and len(sub_exits) == 1 and sub_exits[0][0] == "try" and isinstance(sub_exits[0][1], str) \
                    and (base.path + "[*]") in sub_exits[0][1]:
                # `for x in xs { .. f(x)? .. }` whose only effect is the `?` on a fallible function of the element: the same early exit as
                # `xs.iter().map(f).collect::<Result<Vec<_>, _>>()?` (first failing element, in order) - ONE normal form for both spellings
                self.ctx.exits.append(("try", f"collected(map_each({base.path}, {sub_exits[0][1]}))"))
                return UNIT
            if sub_log or sub_exits:        # a loop without trace effects leaves no event (same as the `for_each` form)
                self.ctx.event("for_each_in_order", base.path, sub_log, sub_exits)
            return UNIT
        elif isinstance(it, VPointwise):
            # the body is executed once on the generic index: every coefficient is updated the same way, i.e. the
            # update is an operation on the polynomials (`*c += *t * k`  ==  C(X) += T(X) * k)
            env2 = dict_child(env)
            self.bind(e["pat"], VTuple([VCell(it.vec), it.other]), env2)
            if _has_kind(e["body"], ("if", "match", "return", "continue", "break")):
                self.fail(e, "control flow inside a pointwise loop")
            self.block(e["body"], env2)
            return UNIT
        else:
            self.fail(e, "for over non-constant iterator")
        if len(items) > 4096:
            self.fail(e, "loop too long to unroll")
        try:
            for x in items:
                for cell in self._cells(x):
                    getattr(self, "pending_tests", {}).pop((id(cell.arr), cell.idx), None)
                env2 = dict_child(env)
                self.bind(e["pat"], x, env2)
                try:
                    self.block(e["body"], env2)
                except Continue:
                    continue
                except Break:
                    break
        finally:
            if getattr(self, "pending_tests", None):
                self.pending_tests.clear()
        return UNIT

    def cond_value(self, c, node):
        """a branch condition as a concrete bool: symbolic atoms fork the path (decide)"""
        if isinstance(c, bool):
            return c
        if isinstance(c, (VOpaque, Sym)):
            return self.decide(c)
        self.fail(node, "condition is not boolean")

    def e_loop(self, e, env):
        """`loop { .. }`: unrolled while the path decides to continue; at most 3 iterations per path (a loop that only ends on a
        value-dependent condition has unboundedly many paths: beyond the bound the path is outside the fragment)"""
        for _ in range(3):
            try:
                self.block(e["body"], env)
            except Continue:
                continue
            except Break:
                return UNIT
        raise OutsideFragment("`loop` not finished after 3 iterations on this path")

    def e_while(self, e, env):
        """`while cond { body }` with a condition that becomes concrete per path; at most 4096 iterations"""
        n = 0
        while True:
            c = self.cond_value(self.expr(e["cond"], env), e)
            if not c:
                return UNIT
            n += 1
            if n > 4096:
                self.fail(e, "while loop does not terminate within 4096 iterations")
            try:
                self.block(e["body"], env)
            except Continue:
                continue
            except Break:
                return UNIT

    def e_if(self, e, env):
        if e["cond"]["k"] == "letcond":
            return self.e_if_let(e, env)
        c = self.expr(e["cond"], env)
        if isinstance(c, bool):
            if c:
                return self.block(e["then"], env)
            if e["else"] is not None:
                return self.expr(e["else"], env)
            return UNIT
        if e["else"] is not None and e.get("__tail__"):
            # the function's tail `if c { A } else { B }` where one branch is just `Err(e)`: the same as an early `return Err(e)`
            def only_err(b):
                st_ = b["stmts"] if b.get("k") == "block" else None
                if st_ and len(st_) == 1 and st_[0]["k"] == "expr" and not st_[0].get("semi"):
                    x = st_[0]["expr"]
                    if x["k"] == "return" and x.get("e") is not None:
                        x = x["e"]
                    if x["k"] == "call" and x["f"].get("k") == "path" and x["f"]["segs"][-1] == "Err":
                        return x
                return None
            el = e["else"] if e["else"].get("k") == "block" else None
            err_then, err_else = only_err(e["then"]), (only_err(el) if el else None)
            if (err_then is None) != (err_else is None):
                rv = self.expr(err_then or err_else, env)
                if isinstance(rv, VErr):
                    self.exit_err_if(c if err_then is not None else VOpaque("not", [c]), rv.what)
                    return self.expr(e["else"], env) if err_then is not None else self.block(e["then"], env)
        # symbolic condition: only the shape `if cond { return Err(..) }` (no else) is in the fragment
        if e["else"] is None:
            st = e["then"]["stmts"]
            if len(st) == 1 and st[0]["k"] == "expr" and st[0]["expr"]["k"] == "return" and st[0]["expr"].get("e") is not None \
                    and _is_err_ctor(st[0]["expr"]["e"]):
                rv = self.expr(st[0]["expr"]["e"], env)
                if isinstance(rv, VErr):
                    self.exit_err_if(c, rv.what)
                    return UNIT
            # guarded effects: `if c { effects }` where the block only produces trace events (no assignment to
            # outer state, no early return): recorded as ONE event  if(c, [events])
            if not _has_mutation(e["then"]) and not _has_kind(e["then"], ("return", "continue", "break")):
                saved = self.ctx.log
                self.ctx.log = []
                try:
                    self.block(e["then"], env)
                except Return:
                    self.ctx.log = saved
                    self.fail(e, "early return inside a symbolic branch")
                sub = tuple(self.ctx.log)
                self.ctx.log = saved
                if sub:
                    self.ctx.event("if", canon(c), sub)
                return UNIT
        # general case: path splitting.  The run is repeated once per combination of decisions (driver in run_unit).
        if not isinstance(c, (VOpaque, Sym)):
            self.fail(e, "branch on a non-boolean symbolic value")
        take = self.decide(c)
        if take:
            return self.block(e["then"], env)
        if e["else"] is not None:
            return self.expr(e["else"], env)
        return UNIT

    def check_lazy_hazard(self, arr, idx):
        """Rust's iterator adapters are lazy; `filter` here tests all elements up front.  The two coincide unless a cell is
        written after its (eager) test and before its (lazy) turn: such a write is outside the fragment."""
        if (id(arr), idx) in getattr(self, "pending_tests", {}):
            raise OutsideFragment("a cell is written before the lazily evaluated filter reaches it (eager/lazy order differs)")

    def _cells(self, x):
        if isinstance(x, VRefCell):
            return [x]
        if isinstance(x, VTuple):
            return [c for y in x.items for c in self._cells(y)]
        return []

    def decide(self, c):
        """path splitting on a symbolic condition: the decision of the current path (the driver re-runs the unit once per
        combination).  A condition already decided on this path (same canonical text) keeps its decision."""
        if isinstance(c, VOpaque) and c.name == "ne" and len(c.args) == 2:
            return not self.decide(VOpaque("eq", list(c.args)))      # one atom per fact: no infeasible eq/ne combinations
        if isinstance(c, VOpaque) and c.name == "not" and len(c.args) == 1 and isinstance(c.args[0], (VOpaque, Sym)):
            return not self.decide(c.args[0])
        if isinstance(c, VOpaque) and c.name == "eq" and len(c.args) == 2:
            try:
                if canon(c.args[0]) > canon(c.args[1]):
                    c = VOpaque("eq", [c.args[1], c.args[0]])        # equality is symmetric: ONE atom for `a == b` and `b == a`
            except Exception:
                pass
        key = canon(c)
        for c0, t0 in self.path_conds:
            if canon(c0) == key:
                return t0
        if isinstance(c, VOpaque) and c.name == "eq" and len(c.args) == 2:
            # equality is an equivalence relation: what the earlier decisions of this path already imply is not decided again
            # (no infeasible combination such as a == b, a == c, b != c is ever explored)
            implied = self._eq_implied(canon(c.args[0]), canon(c.args[1]))
            if implied is not None:
                self.path_conds.append((c, implied))
                return implied
        k = self.dec_idx
        self.dec_idx += 1
        if k >= len(self.decisions):
            raise NeedDecision()
        take = self.decisions[k]
        self.path_conds.append((c, take))
        return take

    def _eq_implied(self, x, y):
        parent = {}

        def find(a):
            parent.setdefault(a, a)
            while parent[a] != a:
                parent[a] = parent[parent[a]]
                a = parent[a]
            return a
        neq = []
        for c0, t0 in self.path_conds:
            if isinstance(c0, VOpaque) and c0.name == "eq" and len(c0.args) == 2:
                try:
                    a, b = canon(c0.args[0]), canon(c0.args[1])
                except Exception:
                    continue
                if t0:
                    ra, rb = find(a), find(b)
                    if ra != rb:
                        parent[ra] = rb
                else:
                    neq.append((a, b))
        rx, ry = find(x), find(y)
        if rx == ry:
            return True
        for a, b in neq:
            ra, rb = find(a), find(b)
            if (ra == rx and rb == ry) or (ra == ry and rb == rx):
                return False
        return None

    def e_match(self, e, env):
        v = self.expr(e["e"], env)
        arms = e["arms"]
        concrete_opt = isinstance(v, VOpaque) and v.name in ("Some", "None") and len(v.args) == (1 if v.name == "Some" else 0)
        if isinstance(v, (VOpaque, Sym)) and len(arms) == 2 and not (isinstance(v, VOpaque) and not v.args) and not concrete_opt:
            # `match OPT { Some(p) => E, None => return X }` on a symbolic option: one early-exit event, then E with p bound
            some = [a for a in arms if a["pat"]["k"] == "tuple_struct" and a["pat"]["path"].split("::")[-1] == "Some"]
            none = [a for a in arms if a["pat"]["k"] in ("path", "ident") and (a["pat"].get("path") or a["pat"].get("name", "")).split("::")[-1] == "None"]
            if len(some) == 1 and len(none) == 1 and some[0]["guard"] is None and none[0]["guard"] is None:
                try:
                    self.expr(none[0]["body"], dict_child(env))
                    self.fail(e, "None arm of a symbolic match does not diverge")
                except Return as r:
                    self.ctx.exits.append(_exit_if_none(v, r.v))
                env2 = dict_child(env)
                self.bind(some[0]["pat"]["elems"][0], VOpaque("some_of", [v]), env2)
                return self.expr(some[0]["body"], env2)
        def _pat_text(p_):
            k_ = p_.get("k")
            if k_ == "lit":
                return p_.get("text", "?").replace(" ", "")
            if k_ in ("slice", "tuple"):
                parts_ = [_pat_text(x) for x in p_["elems"]]
                return None if any(x is None for x in parts_) else "[" + ",".join(parts_) + "]"
            if k_ == "range":
                return f"{p_.get('lo')}..{'=' if p_.get('closed') else ''}{p_.get('hi')}"
            if k_ == "or":
                parts_ = [_pat_text(x) for x in p_["cases"]]
                return None if any(x is None for x in parts_) else "|".join(parts_)
            return None
        symbolic = isinstance(v, (Sym, Poly)) or (isinstance(v, VOpaque) and v.args and not concrete_opt and "::" not in v.name)
        if symbolic and all(a["guard"] is None for a in arms) and all(a["pat"]["k"] in ("wild", "ident") or _pat_text(a["pat"]) for a in arms):
            # a symbolic scrutinee against literal patterns: the arms are tried in order, each test forks the path
            for arm in arms:
                pk = arm["pat"]["k"]
                if pk == "wild" or (pk == "ident" and arm["pat"].get("name")):
                    env2 = env
                    if pk == "ident":
                        env2 = dict_child(env)
                        self.bind(arm["pat"], v, env2)
                    return self.expr(arm["body"], env2)
                if self.decide(VOpaque("matches", [v, VOpaque("pattern:" + _pat_text(arm["pat"]))])):
                    return self.expr(arm["body"], env)
            self.fail(e, "no match arm applies")
        if not isinstance(v, (VOpaque, bool, int)):
            self.fail(e, "match on a symbolic value")
        v = _deref(v)
        for arm in e["arms"]:
            if arm["guard"] is not None:
                self.fail(e, "match guard")
            if self.pat_matches(arm["pat"], v, e):
                env2 = env
                pat = arm["pat"]
                if pat["k"] == "tuple_struct" and isinstance(v, VOpaque):
                    env2 = dict_child(env)
                    for p_, a_ in zip(pat["elems"], v.args):
                        self.bind(p_, a_, env2)
                elif pat["k"] == "ident" and pat.get("name"):
                    env2 = dict_child(env)
                    self.bind(pat, v, env2)
                return self.expr(arm["body"], env2)
        self.fail(e, "no match arm applies")

    def pat_matches(self, pat, v, node):
        k = pat["k"]
        if k == "or":
            return any(self.pat_matches(c, v, node) for c in pat["cases"])
        if k == "wild":
            return True
        if k == "path" and isinstance(v, VOpaque) and not v.args:
            return "::".join(pat["path"].split("::")[-2:]) == v.name
        if k == "tuple_struct" and isinstance(v, VOpaque) and "::" in v.name and len(pat["elems"]) == len(v.args):
            return "::".join(pat["path"].split("::")[-2:]) == v.name
        if k == "tuple_struct" and isinstance(v, VOpaque) and v.name in ("Some", "None") and len(v.args) == (1 if v.name == "Some" else 0):
            return pat["path"].split("::")[-1] == v.name and len(pat["elems"]) == len(v.args)      # a concrete Option
        if k == "lit" and isinstance(v, bool):
            return pat["text"] == str(v).lower()
        if k == "lit" and isinstance(v, int):
            t = _int_lit(pat["text"])
            if t is None:
                self.fail(node, f"literal pattern {pat['text']}")
            return t == v
        if k == "range" and isinstance(v, int) and not isinstance(v, bool):
            lo = _int_lit(pat["lo"]) if pat.get("lo") is not None else None
            hi = _int_lit(pat["hi"]) if pat.get("hi") is not None else None
            if (pat.get("lo") is not None and lo is None) or (pat.get("hi") is not None and hi is None):
                self.fail(node, "range pattern with non-literal bounds")
            if lo is not None and v < lo:
                return False
            if hi is not None and (v > hi if pat.get("closed") else v >= hi):
                return False
            return True
        if k == "ident" and pat.get("name"):
            return True          # a binding pattern matches everything (bound by the caller)
        self.fail(node, f"pattern {k} in match")

    def let_else(self, st, env):
        """`let Some(p) = E else { diverge };` on a symbolic option: one early-exit event (None branch), then p = some_of(E)"""
        pat = st["pat"]
        v = self.expr(st["init"], env)
        if pat["k"] != "tuple_struct" or pat["path"].split("::")[-1] not in ("Some", "Ok") or len(pat["elems"]) != 1:
            self.fail(st, "let-else shape")
        if not isinstance(v, (VOpaque, Sym)):
            self.fail(st, "let-else on a non-symbolic value")
        if _has_mutation(st["else"]):
            self.fail(st, "mutation inside let-else")
        saved = self.ctx.log
        self.ctx.log = []
        try:
            try:
                self.expr(st["else"], dict_child(env))
                self.ctx.log = saved
                self.fail(st, "let-else block does not diverge")
            except Return as r:
                sub = tuple(self.ctx.log)
                self.ctx.exits.append(_exit_if_none(v, r.v) if not sub else ("return_if_none", v, r.v, sub))
        finally:
            self.ctx.log = saved
        self.bind(pat["elems"][0], VOpaque("some_of", [v]), env)
        return UNIT

    def e_if_let(self, e, env):
        """`if let Some(p) = E { return V; }` on a symbolic option: one early-exit event, then fall through."""
        lc = e["cond"]
        v = self.expr(lc["e"], env)
        pat = lc["pat"]
        if e["else"] is not None or pat["k"] != "tuple_struct" or pat["path"].split("::")[-1] != "Some" or len(pat["elems"]) != 1:
            self.fail(e, "if-let shape")
        if not isinstance(v, (VOpaque, Sym)):
            self.fail(e, "if-let on a non-symbolic value")
        if isinstance(v, VOpaque) and v.name in ("Some", "None") and len(v.args) == (1 if v.name == "Some" else 0):
            # a CONCRETE option (instances): ordinary if-let
            if v.name == "None":
                return UNIT
            env2 = dict_child(env)
            self.bind(pat["elems"][0], v.args[0], env2)
            return self.block(e["then"], env2)
        st_ = e["then"]["stmts"]
        simple = bool(st_) and st_[-1]["k"] == "expr" and st_[-1]["expr"]["k"] == "return" and not _has_kind(st_[:-1], ("if", "match", "return", "for", "while", "loop")) \
            and not _has_mutation(e["then"])          # a body that mutates state is executed on its own path (fork on is_some)
        if not simple:
            # general shape: fork the path on `is_some(v)`
            if not self.decide(VOpaque("is_some", [v])):
                return UNIT
            env2 = dict_child(env)
            self.bind(pat["elems"][0], VOpaque("some_of", [v]), env2)
            return self.block(e["then"], env2)
        env2 = dict_child(env)
        self.bind(pat["elems"][0], VOpaque("some_of", [v]), env2)
        if _has_mutation(e["then"]):
            self.fail(e, "mutation inside symbolic if-let")
        try:
            self.block(e["then"], env2)
        except Return as r:
            self.ctx.exits.append(("return_if_some", v, r.v))
            return UNIT
        self.fail(e, "if-let body does not return")

    def e_return(self, e, env):
        v = self.expr(e["e"], env) if e["e"] is not None else UNIT
        raise Return(v)

    def e_continue(self, e, env):
        raise Continue()

    def e_break(self, e, env):
        raise Break()

    def e_try(self, e, env):
        v = self.expr(e["e"], env)
        if isinstance(v, VOk):
            return v.v
        if isinstance(v, VErr):
            raise Return(v)          # a concrete Err: `?` leaves the function with it
        if isinstance(v, VOpaque) or isinstance(v, Sym):
            # result of an opaque fallible callee: log the early exit, continue with the Ok payload
            self.ctx.exits.append(("try", canon(v)))
            return VOpaque("ok_of", [v])
        if isinstance(v, tuple) and v and v[0] == "fallible":
            self.ctx.exits.append(("try", v[1]))
            return v[2]
        if isinstance(v, tuple) and v and v[0] == "fallible_if":
            # a fallible value whose failure condition is known: the same exit record as `if cond { return Err(e) }`
            self.exit_err_if(v[1], v[2])
            return v[3]
        self.fail(e, "`?` on unsupported value")

    def e_const_block(self, e, env):
        """`const { assert!(..) }`: evaluated at compile time by rustc; here it is executed like a block (the asserted condition
        must be concretely true for the instance, otherwise the crate would not compile for it)"""
        return self.block(e["block"], env)

    def e___value__(self, e, env):
        return e["v"]

    def e_closure(self, e, env):
        return VClosure(e["params"], e["body"], env)

    def e_cast(self, e, env):
        v = self.expr(e["e"], env)
        if isinstance(v, int):
            return v
        if isinstance(v, (Sym, VOpaque, Poly)) and e["ty"].replace(" ", "") in ("u64", "usize", "u128"):
            return v   # usize <-> u64 (-> u128) is lossless on the 64-bit target (stated assumption)
        self.fail(e, "cast of symbolic value")

    def e_vec_repeat(self, e, env):
        v = self.expr(e["e"], env)
        n = self.expr(e["len"], env)
        if isinstance(n, int) and n <= 4096:
            return VArr([_deep_copy(v) for _ in range(n)], "vec")      # n CLONES (mutable element values must not alias)
        if isinstance(v, Poly) and v.is_zero() and self.consts.get("__index_fill"):
            # index-filled vectors (`v[i] = x` for every i): the zero vector of symbolic length as an opaque base of `updated(..)` values
            return VOpaque("zeros", [n])
        if isinstance(v, Poly) and v.is_zero():
            # `vec![BlsScalar::zero(); n]` with symbolic n: the zero coefficient vector (of that length)
            return VCoeffVec(C(0), 0, 0, known_len=False)
        if isinstance(v, int) and v == 0:
            # `vec![0u8; n]`: a zeroed byte buffer of symbolic length
            return VOpaque("zeroed_vec", [as_poly(n)])
        if isinstance(n, (Sym, VOpaque, Poly)):
            return VOpaque("repeat_vec", [v, n])          # n clones of v, n symbolic
        raise OutsideFragment("vec![x; n] with symbolic length")

    def e_vec_list(self, e, env):
        return VArr([self.expr(x, env) for x in e["elems"]], "vec")

    def e_macro(self, e, env):
        if e["path"] in ("debug_assert", "debug_assert_eq"):
            return UNIT
        if e["path"] == "vec":
            raise OutsideFragment("vec! macro (havocked in trace-only mode)")
        if e["path"] == "assert" and e.get("args"):
            c = self.expr(e["args"][0], env)
            if c is True:
                return UNIT
            if c is False:
                self.ctx.exits.append(("panic", "assert!(" + e["tokens"][:80] + ") is false"))
                return UNIT
            self.ctx.exits.append(("panic_unless", c))
            return UNIT
        self.fail(e, f"macro {e['path']}!")

    def e_struct(self, e, env):
        name = e["path"].split("::")[-1]
        if name == "Self" and getattr(self, "file_root", None) and self.file_root[2]:
            own = self.file_root[2]
            own = own[1:].split("as")[0].strip() if own.startswith("<") else own
            name = own.split("::")[-1]              # `Self { .. }` == `Type { .. }`
        if e.get("rest") is not None:
            self.fail(e, "struct update syntax")
        return VStruct(name, {f["member"]: self.expr(f["e"], env) for f in e["fields"]})

    def call_closure(self, cl, args, overrides=None):
        env2 = dict_child(cl.env)
        for n, val in (overrides or {}).items():
            dict.__setitem__(env2, n, val)
        if len(cl.params) != len(args):
            raise OutsideFragment("closure arity")
        for p, a in zip(cl.params, args):
            self.bind(p, a, env2)
        try:
            return self.expr(cl.body, env2)
        except Return as r:
            return r.v      # `return` inside a closure leaves the closure, not the enclosing function

    # -------- calls
    def e_call(self, e, env):
        f = e["f"]
        if f["k"] != "path":
            self.fail(e, "call of non-path")
        path = f["path"]
        segs = f["segs"]
        args = [self.expr(a, env) for a in e["args"]]
        name = "::".join(segs[-2:]) if len(segs) >= 2 else segs[0]
        if len(segs) == 1 and segs[0] in env and isinstance(env[segs[0]], VClosure):
            if ("closure:" + segs[0]) in self.contracts:
                # a local closure under its own contract (proved by a closure unit): callers see the contract only
                self.calls.append("closure:" + segs[0])
                return self.contracts["closure:" + segs[0]](self, env[segs[0]], args)
            return self.call_closure(env[segs[0]], args)
        for key in (path, name):
            if key in self.contracts:
                self.calls.append(key)
                return self.contracts[key](self, None, args)
        # builtins
        if name in ("BlsScalar::zero",):
            return C(0)
        if name in ("BlsScalar::one",):
            return C(1)
        if name in ("BlsScalar::from",):
            if isinstance(args[0], int):
                return C(args[0])
            self.fail(e, "BlsScalar::from of non-constant")
        if name in ("Vec::with_capacity", "Vec::new"):
            if name == "Vec::with_capacity" and getattr(self, "track_allocs", False) and args and not isinstance(args[0], int):
                # decoder units: memory reserved for a size taken from the input is part of the observable order of checks
                self.ctx.exits.append(("alloc", canon(args[0])))
            return VArr([], "vec")
        if name in ("cmp::min", "cmp::max", "core::cmp::min", "core::cmp::max", "std::cmp::min", "std::cmp::max") and len(args) == 2 \
                and all(isinstance(x, int) and not isinstance(x, bool) for x in args):
            return min(args) if name.endswith("min") else max(args)
        if name == "bool::from":
            return args[0]
        if name in ("usize::from", "u64::from", "u32::from", "u8::from", "u128::from", "i64::from") and len(args) == 1 and isinstance(args[0], (bool, int)):
            return int(args[0])
        if segs[-1] == "from_reader" and len(segs) >= 2:
            # dusk-bytes: `T::from_reader(&mut buf)?` consumes T::SIZE bytes from the front of the reader (ASSUMED contract):
            # the k-th read of a function is the opaque value read(k, T)
            k = sum(1 for ev in self.ctx.log if ev and ev[0] == "read")
            self.ctx.event("read", k, segs[-2])
            return ("fallible", f"read {k} ({segs[-2]}) fails => Err", VOpaque("read", [k, segs[-2]]))
        if len(segs) >= 2 and segs[-2] in ("WireData",) and name not in self.contracts:
            return VOpaque(name, list(args))          # a tuple variant of a crate enum, constructed with concrete / symbolic payload
        if name == "Some" and len(args) == 1 and "Some" not in self.contracts:
            return VOpaque("Some", [args[0]])
        if name == "Ok":
            return VOk(args[0])
        if name == "Err":
            return VErr(canon_err(args[0]))
        if name == "G1Affine::identity":
            return C(0)
        if name == "Gt::identity":
            return VOpaque("Gt::identity")
        if name == "Commitment::from":
            return args[0]
        for key in (path, name, segs[-1]):
            if key in self.contracts:
                self.calls.append(key)
                return self.contracts[key](self, None, args)
        if len(segs) >= 2 and segs[0] == "Error":
            # enum variant constructor with payload
            return VOpaque(path, args)
        # a crate-local helper in the same file without a contract (typically introduced by the change under test):
        # fall back to its BODY (interprocedural symbolic execution, recorded), never for callees that have a contract
        if (len(segs) == 1 or (len(segs) == 2 and segs[0] == "Self")) and getattr(self, "file_root", None) and self.inline_depth < getattr(self, "max_inline_depth", 3):
            # `&mut local` arguments keep reference semantics inside the inlined body
            args_i = []
            for ae, av in zip(e["args"], args):
                if ae.get("k") == "ref" and ae.get("mut") and ae["e"].get("k") == "path" and len(ae["e"].get("segs", [])) == 1 \
                        and ae["e"]["segs"][0] in env and not isinstance(av, (VArr, VStruct, VCoeffVec, VStream)):
                    args_i.append(VVarRef(env, ae["e"]["segs"][0]))
                else:
                    args_i.append(av)
            v = self.try_inline(segs[-1], args_i)
            if v is not NotImplemented:
                return v
        if len(segs) == 2 and getattr(self, "file_root", None) and self.inline_depth < getattr(self, "max_inline_depth", 3):
            # `Type::f(..)` of a crate type without a contract: its real body, if it can be found in the unit's own file / helper files
            root = self.file_root[0]
            for rel in [self.file_root[1]] + list(getattr(self, "helper_files", None) or []):
                for pth in fn_paths(root, rel):
                    owner_ok = pth.startswith(f"<{segs[0]} as ") or pth.startswith(f"{segs[0]}::") or f"::{segs[0]}::" in pth or f"::<{segs[0]} as " in pth
                    if pth.endswith("::" + segs[1]) and owner_ok and not pth.startswith("test"):
                        try:
                            ast_ = dump_ast(root, rel, pth)
                        except AstLost:
                            continue
                        prm = ast_["sig"]["params"]
                        if any(p_.get("recv") for p_ in prm) or len(prm) != len(args):
                            continue
                        env_ = ChildEnv(None)
                        for p_, a_ in zip(prm, args):
                            self.bind(p_["pat"], a_, env_)
                        self.inline_depth += 1
                        self.calls.append(f"INLINED-BODY:{rel}::{pth}")
                        saved_root = self.file_root
                        self.file_root = (root, rel, pth.rsplit("::", 1)[0])
                        try:
                            try:
                                return self.run_fn_body(ast_, env_)
                            except Return as r_:
                                return r_.v
                        finally:
                            self.inline_depth -= 1
                            self.file_root = saved_root
        import re as _re
        qs_ = (f.get("qself") or "").replace(" ", "")
        mdep = _re.match(r"^<?\s*(JubJubAffine|JubJubExtended|JubJubScalar|BlsScalar|G1Affine|G2Affine|G1Projective)\b", (qs_ or path).strip())
        if qs_:
            path = f"<{qs_} as {path.rsplit('::', 1)[0]}>::{segs[-1]}"         # `<T as Trait>::f`: the qualified self type is part of the name
        if mdep and not any(isinstance(a_, VClosure) for a_ in args):
            # an associated function of a DEPENDENCY type without a listed meaning: an uninterpreted pure function of its arguments
            # (compared structurally only; ASSUMED: no side effect, no panic)
            self.calls.append("UNINTERPRETED-DEPENDENCY-FN:" + path)
            name_ = _re.sub(r"\s+", "", path)
            return VOpaque(name_, list(args))
        self.fail(e, f"call of `{path}` (no contract)")

    inline_depth = 0

    def find_helper(self, short, want_recv):
        """a crate fn / method named `short` in one of the unit's helper files (contract-less helpers, typically introduced by the
        change under test, may live in another file of the crate): the unique fn whose path ends in `::short`"""
        root = self.file_root[0]
        files = list(getattr(self, "helper_files", ()) or ())
        if want_recv and self.file_root[1] not in files:
            files.append(self.file_root[1])         # trait impls of the unit's own file (`impl Neg for T`, `impl AddAssign for T`)
        if not want_recv:
            # a free helper fn is typically placed in the unit's own file or in a parent module (`use super::helper`)
            rel0 = self.file_root[1]
            parts = rel0[:-3].split("/")            # src/compiler/prover
            while len(parts) > 1:
                parts = parts[:-1]
                for cand in ("/".join(parts) + ".rs", "/".join(parts) + "/mod.rs"):
                    if cand not in files and os.path.exists(os.path.join(root, cand)):
                        files.append(cand)
            if "src/lib.rs" not in files and os.path.exists(os.path.join(root, "src/lib.rs")):
                files.append("src/lib.rs")
        if not want_recv:
            # the unit's own file first (a free fn of an inline module, `alloc::helper`), then what the `use` declarations name
            files = [self.file_root[1]] + [f_ for f_ in self._use_resolved_files(short) + files if f_ != self.file_root[1]]
        for rel in files:
            for path in fn_paths(root, rel):
                if (path == short or path.endswith("::" + short)) and not path.startswith("test"):
                    try:
                        ast = dump_ast(root, rel, path)
                    except AstLost:
                        continue
                    has_recv = any(p.get("recv") for p in ast["sig"]["params"])
                    if has_recv == want_recv:
                        return ast, f"{rel}::{path}"
        return None, None

    def _use_resolved_files(self, short):
        """files named by the `use` declarations of the unit's own file that import `short` (`use crate::a::b::short;`,
        `use super::b::{x, short};`): the module path is mapped to src/a/b.rs or src/a/b/mod.rs"""
        root, rel0 = self.file_root[0], self.file_root[1]
        try:
            txt = open(os.path.join(root, rel0), errors="replace").read()
        except OSError:
            return []
        here = rel0[:-3].split("/")[1:]             # src/a/b/c.rs -> [a, b, c]
        if here and here[-1] in ("mod", "lib"):
            here = here[:-1]
        out = []
        for m_ in re.finditer(r"\buse\s+((?:\w+::)+)(\{[^}]*\}|\w+)\s*;", txt):
            names = [x.strip().split(" as ")[0].strip() for x in m_.group(2).strip("{}").split(",")]
            if short not in names:
                continue
            segs = [x for x in m_.group(1).split("::") if x]
            bases = []
            if segs[0] == "crate":
                bases.append(segs[1:])
            elif segs[0] == "self":
                bases.append(here + segs[1:])
            elif segs[0] == "super":
                k_ = 0
                while k_ < len(segs) and segs[k_] == "super":
                    k_ += 1
                # inside an inline `mod x { .. }` one `super` stays in the file's module: both readings are tried
                for up in (k_, k_ - 1):
                    if 0 <= up <= len(here):
                        bases.append(here[:len(here) - up] + segs[k_:])
            for b_ in bases:
                for cand in ("src/" + "/".join(b_) + ".rs", "src/" + "/".join(b_ + ["mod"]) + ".rs"):
                    if b_ and cand not in out and os.path.exists(os.path.join(root, cand)):
                        out.append(cand)
        return out

    def try_inline(self, name, args):
        root, rel, owner = self.file_root
        cands = [name] + ([f"{owner}::{name}"] if owner else [])
        if owner:
            # `Self::helper` inside `impl Trait for T` lives in the inherent impl of T
            ty = owner[1:].split("as")[0].strip() if owner.startswith("<") else owner
            cands += [f"{ty}::{name}", f"{ty.split('::')[-1]}::{name}"]
        ast = None
        for c in cands:
            try:
                ast = dump_ast(root, rel, c)
                break
            except AstLost:
                continue
        if ast is None:
            ast, _where = self.find_helper(name.split("::")[-1], False)
        if ast is None:
            return NotImplemented
        params = ast["sig"]["params"]
        if any(p.get("recv") for p in params) or len(params) != len(args):
            return NotImplemented
        env = ChildEnv(None)
        for p, a in zip(params, args):
            self.bind(p["pat"], a, env)
        self.inline_depth += 1
        self.calls.append(f"INLINED-BODY:{name}")
        try:
            try:
                return self.run_fn_body(ast, env)
            except Return as r:
                return r.v
        finally:
            self.inline_depth -= 1

    def inline_method(self, recv, m, args, type_name=None):
        """a method of a crate type that has no contract: its real body (same file, `Type::method`) is executed with `self`
        bound to the receiver value (inline fallback, recorded in the calls list)"""
        if not getattr(self, "file_root", None) or self.inline_depth >= 6:
            return NotImplemented
        root, rel, _ty = self.file_root
        ast = None
        tn = type_name or recv.name
        for cand in (f"{tn}::{m}", f"alloc::{tn}::{m}"):
            try:
                ast = dump_ast(root, rel, cand)
                break
            except AstLost:
                continue
        if ast is None:
            ast, _where = self.find_helper(m, True)
        if ast is None and ((isinstance(recv, Sym) and recv.path == "self") or isinstance(recv, VStruct)) and tn not in ("__helper__", "__opassign__"):
            # a method of the unit's own type defined in ANOTHER file of the crate (`impl Composer` is spread over src/composer/*.rs)
            for rel2 in _crate_files(root):
                if rel2 == rel:
                    continue
                for cand in (f"{tn}::{m}", f"alloc::{tn}::{m}"):
                    if cand in fn_paths(root, rel2):
                        try:
                            ast = dump_ast(root, rel2, cand)
                        except AstLost:
                            ast = None
                        break
                if ast is not None:
                    break
        if ast is None:
            return NotImplemented
        params = ast["sig"]["params"]
        if not params or not params[0].get("recv") or len(params) - 1 != len(args):
            return NotImplemented
        env2 = ChildEnv(None)
        dict.__setitem__(env2, "self", recv)
        for p, a in zip(params[1:], args):
            self.bind(p["pat"], a, env2)
        self.inline_depth += 1
        self.calls.append(f"INLINED-BODY:{tn}::{m}")
        try:
            try:
                return self.run_fn_body(ast, env2)
            except Return as r:
                return r.v
        finally:
            self.inline_depth -= 1

    RAYON_ALIASES = {"par_iter": "iter", "par_iter_mut": "iter_mut", "into_par_iter": "into_iter", "par_chunks": "chunks",
                     "par_chunks_mut": "chunks_mut", "par_chunks_exact": "chunks_exact", "par_chunks_exact_mut": "chunks_exact_mut"}

    def e_mcall(self, e, env):
        m = e["m"]
        if m in self.RAYON_ALIASES and ("." + m) not in self.contracts:
            # ASSUMED (rayon): a parallel iterator yields the same items as its sequential counterpart, each exactly once; the
            # closures of the kernels touch only their own item, so every schedule equals the sequential order
            self.calls.append("ASSUMED-RAYON:" + m)
            e = dict(e, m=self.RAYON_ALIASES[m])
            m = e["m"]
        recv = self.expr(e["recv"], env)
        args = [self.expr(a, env) for a in e["args"]]
        for key in self.method_keys(e, recv, m):
            if key in self.contracts:
                n0 = len(self.ctx.exits)
                n1 = len(self.ctx.log)
                try:
                    r = self.contracts[key](self, recv, args)
                except (ValueError, IndexError, TypeError, KeyError, AttributeError) as ex_:
                    # the contract was written for another signature / argument shape of the callee (the callee changed): it does
                    # not apply, and inlining the callee instead would compare its low-level effects with the caller contract's
                    # summarised event -- apples and oranges.  The caller is UNDECIDED.
                    raise OutsideFragment(f"the contract of callee `{key}` does not fit this call (callee signature changed?): {type(ex_).__name__}: {ex_}")
                if r is not NotImplemented:
                    self.calls.append(key)
                    if isinstance(r, VOk) and len(self.ctx.exits) > n0:
                        r.exits_span = (n0, len(self.ctx.exits))       # the callee's Err cases were logged as exits of THIS function
                    return r
        # ---- scalar methods
        if m == "invert" and not args and isinstance(_deref(recv), (Poly, Sym)):
            # field inverse as an uninterpreted symbol of its (normalised) argument: inv(p); `inv(p) * p == 1` is NOT known to
            # the normal form -- contracts state results in the product form (see kernels.batch_inversion)
            p0 = as_poly(_deref(recv))
            return VOpaque("ct_some", [inv_sym(p0)])
        if m == "unwrap" and not args and isinstance(recv, VOpaque) and recv.name == "ct_some":
            self.ctx.unwraps = getattr(self.ctx, "unwraps", []) + [canon(recv.args[0])]
            return recv.args[0]
        if m == "square" and not args:
            p = as_poly(recv)
            return p * p
        if m == "double" and not args:
            p = as_poly(recv)
            return p + p
        if m in ("clone", "copied", "cloned", "into_iter", "iter", "iter_mut", "as_slice", "to_vec", "into") and not args:
            if m in ("iter", "into_iter", "iter_mut"):
                if isinstance(recv, VCoeffVec):
                    return recv
                if m == "iter_mut" and isinstance(recv, VArr):
                    return VIter([VRefCell(recv, i) for i in range(len(recv.items))])
                if isinstance(recv, (VArr, VIter)):
                    return VIter(recv.items)
                if isinstance(recv, VRange):
                    if not (isinstance(recv.lo, int) and isinstance(recv.hi, int)):
                        raise OutsideFragment("iteration over a range with symbolic bounds")
                    return VIter(list(range(recv.lo, recv.hi)))
                if isinstance(recv, Sym):
                    return VSymIter(recv)
                if isinstance(recv, VOpaque):
                    return VSymIter(Sym(recv.canon()))
                if isinstance(recv, VStruct) and len(recv.fields) == 1:
                    (inner,) = recv.fields.values()      # Deref / IntoIterator of a newtype over a collection (Polynomial)
                    if isinstance(inner, VArr):
                        return VIter([VRefCell(inner, i) for i in range(len(inner.items))]) if m == "iter_mut" else VIter(list(inner.items))
                self.fail(e, f".{m}() on symbolic collection")
            if m == "to_vec" and isinstance(recv, VArr):
                return VArr(list(recv.items), "vec")
            if m == "clone" and isinstance(recv, (VArr, VStruct, VTuple)):
                return _deep_copy(recv)
            if m in ("copied", "cloned") and isinstance(recv, VIter):
                return recv
            return recv
        if m == "enumerate" and isinstance(recv, VSymIter):
            return VSymEnum(recv.sym)
        if m == "zip" and isinstance(recv, (VSymEnum, VSymIter)) and isinstance(args[0], (VIter, VArr)):
            # a symbolic collection zipped with a concrete one: as many elements as the concrete one (zip stops at the shorter;
            # the symbolic side is ASSUMED at least that long -- stated in the unit)
            items = args[0].items
            out = []
            for i, x in enumerate(items):
                el = VOpaque("idx", [Sym(recv.sym.path), i])
                out.append(VTuple([VTuple([i, el]) if isinstance(recv, VSymEnum) else el, x]))
            return VIter(out)
        if m == "fold" and isinstance(recv, VIter) and len(args) == 2 and isinstance(args[1], VClosure):
            acc = args[0]
            for x in recv.items:
                acc = self.call_closure(args[1], [acc, x])
            return acc
        if m == "zip" and isinstance(recv, VCoeffVec):
            # `coeffs.iter_mut().zip(poly.iter())`: the pointwise traversal of two coefficient vectors
            other = args[0]
            if isinstance(other, VSymIter):
                other = other.sym
            return VPointwise(recv, other)
        if m in ("iter", "iter_mut") and isinstance(recv, VCoeffVec):
            return recv
        if m == "zip":
            a = args[0]
            if isinstance(a, VView) and recv.items and isinstance(recv.items[0], VRefCell):
                a = VIter([VRefCell(a, i) for i in range(len(a.items))])      # `iter_mut().zip(right)` with right: &mut [T]
            if isinstance(a, VArr):
                a = VIter(a.items)
            if isinstance(recv, VIter) and isinstance(a, VIter):
                n = min(len(recv.items), len(a.items))
                return VIter([VTuple([recv.items[i], a.items[i]]) for i in range(n)])
            if isinstance(recv, VIter) and isinstance(a, Sym):
                # a concrete sequence zipped with ONE chunk of `chunks_exact(k)` (exactly k elements): pairs with the chunk's first elements
                import re as _re
                mk_ = _re.search(r"chunks_exact\(.*, int:(\d+)\)\[\*\]$", a.path)
                if mk_ and int(mk_.group(1)) >= len(recv.items):
                    return VIter([VTuple([recv.items[i], Sym(f"{a.path}[{i}]")]) for i in range(len(recv.items))])
            if isinstance(recv, VSymIter) and isinstance(a, (VSymIter, Sym, VOpaque)):
                # two symbolic sequences walked in lock step: the generic element is the pair of their generic elements
                if not isinstance(a, VSymIter):
                    a = VSymIter(Sym(canon(a)))
                zb = Sym(VOpaque("zip", [recv.base, a.base]).canon())
                el = VTuple([_subst_sym(recv.elem, recv.base.path + "[*]", zb.path + "[*].0"), _subst_sym(a.elem, a.base.path + "[*]", zb.path + "[*].1")])
                return VSymIter(zb, base=zb, elem=el)
            self.fail(e, "zip on symbolic iterator")
        if m == "map" and isinstance(recv, VSymIter) and isinstance(args[0], VOpaque) and args[0].name.startswith("fn:"):
            fname = args[0].name[3:]
            if fname in self.contracts:
                # a function passed by name is that function applied to the element (same meaning as the closure `|x| f(x)`)
                return VSymIter.mapped(recv, self.contracts[fname](self, None, [recv.elem]))
            if fname.split("::")[-1] in PURE_GETTERS and "::" in fname:
                fname = fname.split("::")[-1]        # `u64::to_be_bytes` as a function value == the method `.to_be_bytes()`
            return VSymIter.mapped(recv, VOpaque(fname, [recv.elem]))
        if m == "take_while" and isinstance(recv, (VIter, VArr)) and len(args) == 1 and isinstance(args[0], VClosure):
            # on a collection of KNOWN length: the longest prefix whose elements satisfy the predicate (symbolic tests fork the path)
            out_ = []
            for x_ in recv.items:
                c_ = self.call_closure(args[0], [x_])
                if not isinstance(c_, bool):
                    if not isinstance(c_, (VOpaque, Sym)):
                        self.fail(e, "take_while with a non-boolean predicate")
                    c_ = self.decide(c_)
                if not c_:
                    break
                out_.append(x_)
            return VIter(out_)
        if m == "count" and isinstance(recv, (VIter, VArr)) and not args:
            return len(recv.items)
        if m == "flat_map" and isinstance(recv, VSymIter) and isinstance(args[0], VClosure) and not getattr(recv, "pending", None):
            # flat_map over a collection of unknown length: the concatenation, in order, of f(x) for every element x (f without trace effects)
            saved = self.ctx.log
            self.ctx.log = []
            try:
                body = self.call_closure(args[0], [recv.elem])
            finally:
                sub = tuple(self.ctx.log)
                self.ctx.log = saved
            if sub:
                self.fail(e, "flat_map closure with trace effects")
            fb = Sym(VOpaque("flat_map_each", [recv.base, body]).canon())
            return VSymIter(fb, base=fb)
        if m == "map" and isinstance(recv, VSymIter) and isinstance(args[0], VClosure):
            # map over a collection of unknown length: the closure is run once on the generic element; the result is the
            # uninterpreted collection  map_each(xs, f(xs[*]))  (order preserving, one output per input)
            saved = self.ctx.log
            self.ctx.log = []
            saved_loop = getattr(self, "generic_loop", None)
            self.generic_loop = recv.base
            try:
                body = self.call_closure(args[0], [recv.elem])
            finally:
                self.generic_loop = saved_loop
            sub = tuple(self.ctx.log)
            self.ctx.log = saved
            out = VSymIter.mapped(recv, body)
            if sub:
                # a mapping closure WITH trace effects: iterators are lazy, the effects happen when (and if) the iterator is consumed.
                # They are kept pending and emitted, as one in-order event, by an immediately following `.collect()`; any other use of
                # the iterator is outside the fragment.
                if getattr(recv, "pending", None):
                    self.fail(e, "two effectful maps chained over a symbolic collection")
                out.pending = (recv.base.path, sub)
            elif getattr(recv, "pending", None):
                out.pending = recv.pending
            return out
        if m in ("any", "all") and isinstance(recv, VSymIter) and isinstance(args[0], VClosure):
            saved = self.ctx.log
            self.ctx.log = []
            body = self.call_closure(args[0], [recv.elem])
            if self.ctx.log:
                self.ctx.log = saved
                self.fail(e, "effects inside any/all over a symbolic collection")
            self.ctx.log = saved
            return VOpaque(m, [recv.base, body])
        if m in ("any", "all") and isinstance(recv, (VIter, VArr)) and isinstance(args[0], VClosure):
            # short-circuit semantics element by element; a symbolic predicate value forks the path
            for x in recv.items:
                r = self.call_closure(args[0], [x])
                if isinstance(r, VOpaque) and r.name == "ne":
                    r = not self.decide(VOpaque("eq", list(r.args)))
                elif isinstance(r, VOpaque) and r.name == "not" and isinstance(r.args[0], (VOpaque, Sym)):
                    r = not self.decide(r.args[0])
                elif isinstance(r, (VOpaque, Sym)):
                    r = self.decide(r)
                if not isinstance(r, bool):
                    self.fail(e, "any/all predicate is not boolean")
                if m == "any" and r:
                    return True
                if m == "all" and not r:
                    return False
            return m == "all"
        if m == "unzip" and isinstance(recv, VSymIter) and isinstance(recv.elem, VTuple) and len(recv.elem.items) == 2 and not getattr(recv, "pending", None):
            return VTuple([VOpaque("collected", [Sym(VOpaque("map_each", [recv.base, x]).canon())]) for x in recv.elem.items])
        if m == "collect" and isinstance(recv, VSymIter):
            if getattr(recv, "pending", None):
                self.ctx.event("for_each_in_order", recv.pending[0], recv.pending[1])
            return VOpaque("collected", [recv.sym])
        if isinstance(recv, VSymIter) and getattr(recv, "pending", None):
            self.fail(e, f"an iterator whose mapping closure has trace effects is consumed by `.{m}()` (only `.collect()` is in the fragment)")
        if m == "map" and isinstance(recv, VIter) and isinstance(args[0], VClosure):
            return VIter([self.call_closure(args[0], [x]) for x in recv.items])
        if m == "enumerate" and isinstance(recv, VIter):
            return VIter([VTuple([i, x]) for i, x in enumerate(recv.items)])
        if m in ("rev", "into_iter", "iter") and isinstance(recv, VRange) and not args \
                and all(isinstance(x, int) and not isinstance(x, bool) for x in (recv.lo, recv.hi)) and recv.hi - recv.lo <= 4096:
            seq_ = list(range(int(recv.lo), int(recv.hi)))
            return VIter(seq_[::-1] if m == "rev" else seq_)
        if m == "as_flattened" and isinstance(recv, VArr) and not args and all(isinstance(x, VArr) for x in recv.items):
            return VArr([y for x in recv.items for y in x.items], "slice")
        if m == "windows" and isinstance(recv, VArr) and len(args) == 1 and isinstance(args[0], int) and args[0] > 0:
            k_ = int(args[0])
            return VIter([VView(recv, i_, i_ + k_) for i_ in range(0, len(recv.items) - k_ + 1)])
        if m == "next" and isinstance(recv, VIter) and not args:
            # a concrete iterator held in a `let mut` binding: consumed from the front
            return VOpaque("Some", [recv.items.pop(0)]) if recv.items else VOpaque("None")
        if m == "map" and isinstance(recv, VArr) and recv.kind == "array" and len(args) == 1 and isinstance(args[0], VClosure):
            return VArr([self.call_closure(args[0], [x]) for x in list(recv.items)], "array")      # <[T; N]>::map
        if m == "rev" and isinstance(recv, VIter):
            return VIter(list(reversed(recv.items)))
        if m == "sum" and isinstance(recv, VIter):
            tot = C(0)
            for x in recv.items:
                tot = tot + as_poly(x)
            return tot
        if m == "collect" and isinstance(recv, VIter):
            return VArr(recv.items, "vec")
        if m == "len" and isinstance(recv, (VArr, VIter)):
            return LenInt(len(recv.items))
        if m == "is_empty" and isinstance(recv, (VArr, VIter)):
            return len(recv.items) == 0
        if m in ("is_some", "is_none") and not args and isinstance(recv, VOpaque) and recv.name in ("Some", "None") \
                and len(recv.args) == (1 if recv.name == "Some" else 0):
            return (recv.name == "Some") == (m == "is_some")        # a constructed Option: concrete
        if m in ("is_ok", "is_err") and not args and isinstance(recv, (VOk, VErr)):
            return isinstance(recv, VOk) == (m == "is_ok")
        if m in PURE_GETTERS and not args and isinstance(recv, (Sym, VOpaque, Poly)):
            return VOpaque(m, [recv])
        if m in ("wrapping_shl", "wrapping_shr") and isinstance(recv, U64) and len(args) == 1 and isinstance(args[0], int):
            k_ = int(args[0]) % 64          # u64::wrapping_shl / wrapping_shr mask the shift amount to the type's width
            return U64(int(recv) << k_) if m == "wrapping_shl" else U64(int(recv) >> k_)
        if m == "reduce" and not args and isinstance(_deref(recv), (Poly, int)) and not as_poly(_deref(recv)).vars():
            # `BlsScalar::reduce()` of a CONSTANT: the canonical value, as its four little-endian u64 limbs (field `.0`)
            v_ = as_poly(_deref(recv)).norm().get((), 0) % R_BLS
            return VStruct("BlsScalar", {"0": VArr([U64((v_ >> (64 * i_)) & M64) for i_ in range(4)], "array")})
        if m in ("is_ok", "is_err", "is_some", "is_none") and not args and isinstance(recv, VOpaque) and ("." + m) not in self.contracts \
                and not (recv.name in ("Some", "None") and len(recv.args) <= 1):
            return VOpaque(m, [recv])          # a pure observer of an uninterpreted Result / Option
        if m == "is_some_and" and len(args) == 1 and isinstance(args[0], VClosure) and isinstance(recv, (VOpaque, Sym)):
            if isinstance(recv, VOpaque) and recv.name in ("Some", "None") and len(recv.args) == (1 if recv.name == "Some" else 0):
                return self.call_closure(args[0], [recv.args[0]]) if recv.name == "Some" else False
            body_ = self.call_closure(args[0], [VOpaque("some_of", [recv])])
            return VOpaque("and", [VOpaque("is_some", [recv]), body_])
        if isinstance(recv, VOpaque) and recv.name.startswith("self.") and recv.name.count(".") >= 2 and getattr(self, "trace_fields", True) \
                and m not in READONLY_METHODS and not m.startswith("is_") and ("." + m) not in self.contracts:
            # a method on the RESULT of an uninterpreted operation on a field of `self` (`self.map.entry(k).or_insert(v)`): still an
            # uninterpreted effect on that field
            fld_ = ".".join(recv.name.split(".")[:2])
            self.ctx.event("field_effect", fld_, recv.name[len(fld_) + 1:] + "." + m, *[canon(x) for x in args])
            return VOpaque(recv.name + "." + m, [recv] + list(args))
        if m in PURE_BINARY and len(args) == 1 and isinstance(recv, (Sym, VOpaque, Poly, int)) \
                and not (isinstance(recv, VOpaque) and recv.name in ("Some", "None") and len(recv.args) <= 1):
            return VOpaque(m, [recv, args[0]])
        if isinstance(recv, VSymIter) and not args and m in ("copied", "cloned"):
            return recv
        if isinstance(recv, VSymIter) and not args and m in ("max", "min", "count"):
            return VOpaque(m, [recv.sym])
        if isinstance(recv, VSymIter) and not args and m == "len" and not getattr(recv, "pending", None):
            return VOpaque("len", [recv.sym])         # ExactSizeIterator::len of a symbolic sequence
        if isinstance(recv, VSymIter) and not args and m in ("sum", "product") and ("." + m) not in self.contracts:
            # a reduction over a collection of unknown length has no closed form here: an UNKNOWN value (a code-side unknown facing an
            # exact contract value is UNDECIDED, never a difference) - the function's exits and effects are still compared exactly
            return VOpaque("havoc:" + m + "_over_symbolic_iterator", [recv.sym])
        if m == "and_then" and isinstance(recv, VOpaque) and len(args) == 1 and isinstance(args[0], VClosure):
            inner = self.call_closure(args[0], [VOpaque("some_of", [recv])])
            return VOpaque("and_then", [recv, inner])
        if m in ("min", "max") and len(args) == 1:
            if isinstance(recv, int) and isinstance(args[0], int):
                return min(recv, args[0]) if m == "min" else max(recv, args[0])
            return VOpaque(m, [recv, args[0]])
        if m == "get" and isinstance(recv, VArr) and len(args) == 1 and isinstance(args[0], int) and not isinstance(args[0], bool):
            # `.get(i)` on a collection of known length: a CONCRETE option
            i_ = int(args[0])
            return VOpaque("Some", [recv.items[i_]]) if 0 <= i_ < len(recv.items) else VOpaque("None")
        if m == "get" and isinstance(recv, VArr) and len(args) == 1 and isinstance(args[0], VRange) \
                and all(x is None or (isinstance(x, int) and not isinstance(x, bool)) for x in (args[0].lo, args[0].hi)):
            # `.get(lo..hi)` on a collection of known length: Some(sub-slice) iff lo <= hi <= len (never panics)
            lo_ = 0 if args[0].lo is None else int(args[0].lo)
            hi_ = len(recv.items) if args[0].hi is None else int(args[0].hi)
            return VOpaque("Some", [VView(recv, lo_, hi_)]) if 0 <= lo_ <= hi_ <= len(recv.items) else VOpaque("None")
        if m == "get" and isinstance(recv, (Sym, VOpaque)) and len(args) == 1:
            return VOpaque("get", [recv, args[0]])
        if m in ("chunks_exact", "chunks") and isinstance(recv, (Sym, VOpaque)) and len(args) == 1:
            return VSymIter(Sym(VOpaque(m, [recv, args[0]]).canon()))
        if m == "ok_or_else" and len(args) == 1 and isinstance(args[0], VClosure) and not args[0].params:
            # `opt.ok_or_else(|| e)` is `opt.ok_or(e)` (the closure only builds the error value)
            m = "ok_or"
            args = [self.call_closure(args[0], [])]
            e = dict(e, m="ok_or")
        if m == "split_at_checked" and isinstance(recv, (VOpaque, Sym)) and len(args) == 1 and ".split_at_checked" not in self.contracts:
            return VOpaque("split_at_checked", [recv, args[0]])
        if m == "ok_or" and isinstance(recv, VOpaque) and recv.name == "split_at_checked" and len(args) == 1 and ".split_at_checked" not in self.contracts:
            # `buf.split_at_checked(k).ok_or(e)`: None exactly when k > len(buf); otherwise the two windows buf[..k], buf[k..]
            b, k = recv.args
            kp = as_poly(k)
            def win(lo, hi):
                if isinstance(b, VOpaque) and b.name == "slice":
                    b0, lo0, hi0 = b.args
                    return VOpaque("slice", [b0, as_poly(lo0) + lo, (as_poly(lo0) + hi) if hi is not None else hi0])
                return VOpaque("slice", [b, lo, "end" if hi is None else hi])
            cond = VOpaque("lt", [VOpaque("len", [b]), kp])
            return ("fallible_if", cond, canon_err(args[0]), VTuple([win(C(0), kp), win(kp, None)]))
        if m == "ok_or" and isinstance(recv, VOpaque) and recv.name in ("Some", "None") and len(recv.args) == (1 if recv.name == "Some" else 0):
            return VOk(recv.args[0]) if recv.name == "Some" else VErr(canon_err(args[0]))      # a CONCRETE option
        if m == "ok_or" and isinstance(recv, VOpaque) and recv.name != "get" and len(args) == 1:
            return ("fallible", f"{recv.canon()} is None => Err({canon_err(args[0])})", VOpaque("some_of", [recv]))
        if m == "ok_or" and isinstance(recv, VOpaque) and recv.name == "get" and len(args) == 1:
            return ("fallible", f"{recv.canon()} is None => Err({canon_err(args[0])})", VOpaque("some_of", [recv]))
        if m == "len" and isinstance(recv, (Sym, VOpaque, Poly)) and not args:
            ex = getattr(self.ctx, "len_exact", {}).get(canon(recv)) if isinstance(recv, (Sym, VOpaque)) else None
            return ex if ex is not None else VOpaque("len", [recv])
        if m == "resize" and isinstance(recv, (Sym, VOpaque)) and len(args) == 2 and self.consts.get("__track_len") \
                and not (isinstance(recv, VOpaque) and recv.name.startswith("havoc:")):
            # `v.resize(k, 0)` on a coefficient vector: the SAME polynomial (zero padding) provided nothing is cut off, i.e. len(v) <= k
            # is known on this path; afterwards len(v) == k exactly
            k = as_poly(args[0])
            try:
                zero_fill = as_poly(args[1]).is_zero()
            except OutsideFragment:
                zero_fill = False
            if not zero_fill:
                raise OutsideFragment("resize with a non-zero fill value")
            if not any(_poly_nonneg(k - ub) for ub in self._len_bounds(recv, False)):
                raise OutsideFragment("resize that may truncate the vector")
            if not hasattr(self.ctx, "len_exact"):
                self.ctx.len_exact = {}
            self.ctx.len_exact[canon(recv)] = k
            return UNIT
        if m == "for_each" and isinstance(recv, VSymIter) and isinstance(args[0], VClosure):
            # `xs.iter().for_each(|x| B)` over a slice of unknown length: B is executed once on the generic
            # element xs[*]; its transcript events are recorded as ONE event "for every element, in order".
            saved, saved_loop = self.ctx.log, getattr(self, "generic_loop", None)
            self.ctx.log, self.generic_loop = [], recv.base
            try:
                self.call_closure(args[0], [recv.elem])
                sub = tuple(self.ctx.log)
            finally:
                self.ctx.log, self.generic_loop = saved, saved_loop
            if sub:
                self.ctx.event("for_each_in_order", recv.base.path, sub)
            return UNIT
        if m == "for_each" and isinstance(recv, VSymEnum) and isinstance(args[0], VClosure) and self.consts.get("__index_fill"):
            # `xs.iter().enumerate().for_each(|(i, x)| B)` over a collection of unknown length: B runs once on the generic pair (index xs[#],
            # element xs[*]); an index assignment `v[i] = f(x)` inside it means "for EVERY i" (the value of v becomes updated(v, xs[#], f(xs[*])))
            saved, saved_loop = self.ctx.log, getattr(self, "generic_loop", None)
            self.ctx.log, self.generic_loop = [], recv.sym
            try:
                self.call_closure(args[0], [VTuple([Sym(recv.sym.path + "[#]"), Sym(recv.sym.path + "[*]")])])
                sub = tuple(self.ctx.log)
            finally:
                self.ctx.log, self.generic_loop = saved, saved_loop
            if sub:
                self.ctx.event("for_each_in_order", recv.sym.path, sub)
            return UNIT
        if m == "for_each" and isinstance(recv, VIter) and isinstance(args[0], VClosure):
            for x in recv.items:
                self.call_closure(args[0], [x])
            return UNIT
        # ---- vec / slice mutation
        if m in ("push", "extend", "extend_from_slice", "insert", "clear", "resize") and isinstance(recv, VOpaque) and recv.name.startswith("havoc:"):
            return UNIT          # an unknown collection stays unknown
        if m in ("reserve", "reserve_exact", "shrink_to_fit") and isinstance(recv, (VCoeffVec, VArr)):
            return UNIT          # capacity only
        if m == "push" and isinstance(recv, VCoeffVec):
            recv.push(args[0])
            return UNIT
        if m == "map" and isinstance(args[0], VOpaque) and not args[0].args and args[0].name.split("::")[0] in ("WireData",) \
                and (isinstance(recv, (VIter, VArr)) or (isinstance(recv, VRange) and isinstance(recv.lo, int) and isinstance(recv.hi, int))):
            xs = list(range(recv.lo, recv.hi)) if isinstance(recv, VRange) else list(recv.items)
            return VIter([VOpaque(args[0].name, [x]) for x in xs])
        if m == "map" and isinstance(recv, VRange) and isinstance(recv.lo, int) and isinstance(recv.hi, int) and isinstance(args[0], VClosure):
            return VIter([self.call_closure(args[0], [x]) for x in range(recv.lo, recv.hi)])
        if m == "push" and isinstance(recv, VArr):
            if getattr(self, "generic_loop", None) is not None:
                recv.items.append(VOpaque("for_each_pushed", [self.generic_loop, args[0]]))
            else:
                recv.items.append(args[0])
            return UNIT
        if m in ("extend_from_slice", "extend") and isinstance(recv, VArr):
            a = args[0]
            if getattr(self, "generic_loop", None) is not None:
                recv.items.append(VOpaque("for_each_extended", [self.generic_loop, a]))
                return UNIT
            if isinstance(a, (VArr, VIter)) and recv.kind != "bytes":
                recv.items.extend(a.items)
                return UNIT
            # a byte vector being assembled: every extend appends one SECTION (its content is the argument's bytes)
            recv.kind = "bytes"
            recv.items.append(VOpaque("section", [a]))
            return UNIT
        if m == "copy_from_slice" and isinstance(recv, VOpaque) and recv.name == "window" and isinstance(recv.args[0], VArr):
            arr, lo, hi = recv.args
            src = args[0]
            for i in range(len(arr.items)):
                arr.items[i] = VOpaque("spliced", [arr.items[i], lo, hi, src, i])      # element i after `arr[lo..hi] = src`
            return UNIT
        if m == "copy_from_slice" and isinstance(recv, VArr) and isinstance(args[0], (VOpaque, Sym)) and not (isinstance(args[0], VOpaque) and args[0].name == "slice"):
            for i in range(len(recv.items)):
                recv.items[i] = VOpaque("idx", [args[0], i])          # byte i of an opaque byte string (e.g. `x.to_bytes()`); lengths assumed equal (else panic)
            return UNIT
        if m == "copy_from_slice" and isinstance(recv, VArr) and isinstance(args[0], VOpaque) and args[0].name == "slice":
            for i in range(len(recv.items)):
                recv.items[i] = VOpaque("idx", [args[0], i])          # byte i of the (symbolic) source slice; lengths assumed equal (else panic)
            return UNIT
        if m == "copy_from_slice" and isinstance(recv, VArr) and isinstance(args[0], VArr):
            if len(recv.items) != len(args[0].items):
                raise OutsideFragment(f"copy_from_slice length mismatch {len(recv.items)} vs {len(args[0].items)} (would panic)")
            recv.items[:] = args[0].items
            return UNIT
        # ---- adapters over collections of KNOWN length (instances): real iterator semantics, element by element
        if m == "filter" and isinstance(recv, (VIter, VArr)) and isinstance(args[0], VClosure):
            kept = []
            for x in recv.items:
                for cell in self._cells(x):
                    self.pending_tests = getattr(self, "pending_tests", {})
                    self.pending_tests[(id(cell.arr), cell.idx)] = True
                c = self.call_closure(args[0], [x])
                if isinstance(c, VOpaque) and c.name == "not" and isinstance(c.args[0], (VOpaque, Sym)):
                    take = not self.decide(c.args[0])
                elif isinstance(c, VOpaque) and c.name == "ne":
                    take = not self.decide(VOpaque("eq", list(c.args)))
                elif isinstance(c, (VOpaque, Sym)):
                    take = self.decide(c)
                elif isinstance(c, bool):
                    take = c
                else:
                    self.fail(e, "filter predicate is not boolean")
                if take:
                    kept.append(x)
            return VIter(kept)
        if m in ("or_else", "or", "unwrap_or", "unwrap_or_else", "unwrap_or_default", "ok", "err", "is_ok", "is_err", "map_or", "map_or_else") \
                and isinstance(recv, VOk) and getattr(recv, "exits_span", None):
            # the callee's error cases were recorded as exits of this function on the assumption that its Result is propagated
            # (`?` / returned as is).  A combinator that CONSUMES the error keeps the function going: those exits are withdrawn and
            # the interception itself is recorded.
            a0, a1 = recv.exits_span
            withdrawn = self.ctx.exits[a0:a1]
            del self.ctx.exits[a0:a1]
            self.ctx.exits.append(("callee_errors_intercepted", m, len(withdrawn)))
            alt = None
            if args and isinstance(args[0], VClosure):
                alt = self.call_closure(args[0], [VOpaque("callee_error")]) if len(args[0].params) == 1 else self.call_closure(args[0], [])
            elif args:
                alt = args[0]
            return VOpaque(m, [recv.v, alt if alt is not None else UNIT])
        if m == "map" and isinstance(recv, VOpaque) and recv.name in ("Some", "None") and len(recv.args) == (1 if recv.name == "Some" else 0) \
                and isinstance(args[0], VClosure):
            return VOpaque("Some", [self.call_closure(args[0], [recv.args[0]])]) if recv.name == "Some" else recv      # Option::map, concrete
        if m in ("unwrap_or", "unwrap", "expect", "unwrap_or_else") and isinstance(recv, VOpaque) and recv.name in ("Some", "None") \
                and len(recv.args) == (1 if recv.name == "Some" else 0):
            if recv.name == "Some":
                return recv.args[0]
            if m == "unwrap_or":
                return args[0]
            if m == "unwrap_or_else" and isinstance(args[0], VClosure):
                return self.call_closure(args[0], [])
            self.ctx.exits.append(("panic", f"{m}() on None"))
            return VOpaque("never")
        if m in ("values", "keys", "into_values", "into_keys") and isinstance(recv, VArr) and recv.kind == "map" and not args:
            k_ = 1 if "values" in m else 0
            return VIter([t.items[k_] for t in recv.items])          # a map given as a list of (key, value) entries, in iteration order
        if m in ("position", "rposition") and isinstance(recv, (VIter, VArr)) and isinstance(args[0], VClosure):
            idxs = range(len(recv.items)) if m == "position" else range(len(recv.items) - 1, -1, -1)
            for i in idxs:
                if self.cond_value(self.call_closure(args[0], [recv.items[i]]), e):
                    return VOpaque("Some", [i])
            return VOpaque("None")
        if m == "filter" and isinstance(recv, VSymIter) and isinstance(args[0], VClosure):
            saved = self.ctx.log
            self.ctx.log = []
            cond = self.call_closure(args[0], [recv.elem])
            if self.ctx.log:
                self.ctx.log = saved
                self.fail(e, "effects inside filter over a symbolic collection")
            self.ctx.log = saved
            fb = Sym(VOpaque("filter_each", [recv.base, cond]).canon())
            return VSymIter(fb, base=fb, elem=_subst_sym(recv.elem, recv.base.path + "[*]", fb.path + "[*]"))
        if m == "rev" and isinstance(recv, VArr):
            return VIter(list(reversed(recv.items)))
        if m == "skip" and isinstance(recv, (VIter, VArr)) and isinstance(args[0], int):
            return VIter(recv.items[args[0]:])
        if m == "take" and isinstance(recv, (VIter, VArr)) and isinstance(args[0], int):
            return VIter(recv.items[:args[0]])
        if m == "chain" and isinstance(recv, (VIter, VArr)):
            a = args[0]
            if isinstance(a, (VIter, VArr)):
                return VIter(recv.items + a.items)
            if isinstance(a, VOpaque) and a.name == "Some" and len(a.args) == 1:
                return VIter(recv.items + [a.args[0]])
            self.fail(e, "chain with a symbolic iterator")
        if m == "enumerate" and isinstance(recv, (VIter, VArr)):
            return VIter([VTuple([i, x]) for i, x in enumerate(recv.items)])
        if m == "pop" and isinstance(recv, VArr) and not args:
            if not recv.items:
                return VOpaque("None")
            return VOpaque("Some", [recv.items.pop()])
        if m == "resize" and isinstance(recv, VArr) and len(args) == 2 and isinstance(args[0], int):
            if args[0] <= len(recv.items):
                del recv.items[args[0]:]
            else:
                recv.items.extend([args[1]] * (args[0] - len(recv.items)))
            return UNIT
        if m == "clear" and isinstance(recv, VArr) and not args:
            del recv.items[:]
            return UNIT
        if m == "len" and isinstance(recv, (VArr, VIter)) and not args:
            return LenInt(len(recv.items))
        if m == "is_empty" and isinstance(recv, (VArr, VIter)) and not args:
            return len(recv.items) == 0
        if m in ("is_some_and", "is_none_or") and isinstance(recv, VOpaque) and recv.name in ("Some", "None") and isinstance(args[0], VClosure):
            if recv.name == "None":
                return m == "is_none_or"
            return self.call_closure(args[0], [recv.args[0]])
        if m == "reverse" and isinstance(recv, VArr) and not args:
            recv.items.reverse()
            return UNIT
        if m in ("chunks_mut", "chunks", "chunks_exact", "chunks_exact_mut") and isinstance(recv, VArr) and len(args) == 1 and isinstance(args[0], int) and args[0] > 0:
            n, k = len(recv.items), args[0]
            ends = n - (n % k) if m.startswith("chunks_exact") else n
            return VIter([VView(recv, i, min(i + k, ends)) for i in range(0, ends, k)])
        if m in ("split_at_mut", "split_at") and isinstance(recv, VArr) and len(args) == 1 and isinstance(args[0], int):
            if not (0 <= args[0] <= len(recv.items)):
                raise OutsideFragment("split_at out of bounds (would panic)")
            return VTuple([VView(recv, 0, args[0]), VView(recv, args[0], len(recv.items))])
        if m == "eq" and isinstance(recv, (VIter, VArr)) and len(args) == 1 and isinstance(args[0], (VIter, VArr)):
            # Iterator::eq: element by element, stops at the first difference; a symbolic comparison forks the path
            xs, ys = list(recv.items), list(args[0].items)
            for x, y in zip(xs, ys):
                x, y = _deref(x), _deref(y)
                if isinstance(x, (Poly, int, Sym)) and isinstance(y, (Poly, int, Sym)) and (as_poly(x) - as_poly(y)).is_zero():
                    continue
                if isinstance(x, (Poly, int)) and isinstance(y, (Poly, int)) and not as_poly(x).vars() and not as_poly(y).vars():
                    return False
                if not self.decide(VOpaque("eq", [x, y])):
                    return False
            return len(xs) == len(ys)
        if m in ("trailing_zeros", "leading_zeros", "count_ones", "is_power_of_two", "next_power_of_two") and isinstance(recv, int) and not isinstance(recv, bool) and not args:
            v = recv & 0xFFFFFFFFFFFFFFFF
            if m == "trailing_zeros":
                if v == 0:
                    raise OutsideFragment("trailing_zeros(0) depends on the integer width, which the AST does not carry")
                return (LenInt if isinstance(recv, LenInt) else int)((v & -v).bit_length() - 1)
            if m == "leading_zeros":
                raise OutsideFragment("leading_zeros depends on the integer width, which the AST does not carry")
            keep_ = LenInt if isinstance(recv, LenInt) else int
            if m == "count_ones":
                return keep_(bin(v).count("1"))
            if m == "is_power_of_two":
                return v != 0 and v & (v - 1) == 0
            return keep_(1 if v == 0 else 1 << (v - 1).bit_length())
        if m == "div_ceil" and isinstance(recv, int) and len(args) == 1 and isinstance(args[0], int):
            if args[0] == 0:
                raise OutsideFragment("division by zero (would panic)")
            return (LenInt if isinstance(recv, LenInt) else int)(-(-int(recv) // int(args[0])))
        if m == "collect" and isinstance(recv, VIter) and not args and ".collect" not in self.contracts:
            return VArr(list(recv.items), "vec")
        if m == "split_at_checked" and isinstance(recv, VArr) and len(args) == 1 and isinstance(args[0], int):
            if not (0 <= args[0] <= len(recv.items)):
                return VOpaque("None")
            return VOpaque("Some", [VTuple([VView(recv, 0, args[0]), VView(recv, args[0], len(recv.items))])])
        if m == "ok_or" and isinstance(recv, VOpaque) and recv.name in ("Some", "None") and len(recv.args) == (1 if recv.name == "Some" else 0):
            return VOk(recv.args[0]) if recv.name == "Some" else VErr(canon_err(args[0]))
        if m == "last_mut" and isinstance(recv, VArr) and not args:
            return VOpaque("Some", [VRefCell(recv, len(recv.items) - 1)]) if recv.items else VOpaque("None")
        if m == "swap" and isinstance(recv, VArr) and len(args) == 2 and all(isinstance(x, int) for x in args):
            i, j = args
            if not (0 <= i < len(recv.items) and 0 <= j < len(recv.items)):
                raise OutsideFragment("swap out of bounds (would panic)")
            recv.items[i], recv.items[j] = recv.items[j], recv.items[i]
            return UNIT
        if m == "last" and isinstance(recv, (VArr, VIter)) and not args:
            return VOpaque("Some", [recv.items[-1]]) if recv.items else VOpaque("None")
        if m in ("map_or", "map_or_else", "map", "unwrap_or", "unwrap_or_default", "copied", "cloned") and isinstance(recv, VOpaque) \
                and recv.name in ("Some", "None") and len(recv.args) == (1 if recv.name == "Some" else 0) and ("." + m) not in self.contracts:
            # combinators on a CONSTRUCTED Option
            some_ = recv.name == "Some"
            if m in ("copied", "cloned") and not args:
                return recv
            if m == "map" and len(args) == 1 and isinstance(args[0], VClosure):
                return VOpaque("Some", [self.call_closure(args[0], [recv.args[0]])]) if some_ else recv
            if m == "map_or" and len(args) == 2 and isinstance(args[1], VClosure):
                return self.call_closure(args[1], [recv.args[0]]) if some_ else args[0]
            if m == "map_or_else" and len(args) == 2 and isinstance(args[0], VClosure) and isinstance(args[1], VClosure):
                return self.call_closure(args[1], [recv.args[0]]) if some_ else self.call_closure(args[0], [])
            if m == "unwrap_or" and len(args) == 1:
                return recv.args[0] if some_ else args[0]
        if m == "first" and isinstance(recv, (VArr, VIter)) and not args:
            return VOpaque("Some", [recv.items[0]]) if recv.items else VOpaque("None")
        if m == "filter" and len(args) == 1 and isinstance(args[0], VClosure) and isinstance(recv, VOpaque) \
                and recv.name in ("Some", "None") and len(recv.args) == (1 if recv.name == "Some" else 0):
            # Option::filter: the predicate's verdict is decided per path
            if recv.name == "None":
                return recv
            return recv if self.cond_value(self.call_closure(args[0], [recv.args[0]]), e) else VOpaque("None")
        if m in ("mul_assign", "add_assign", "sub_assign") and len(args) == 1 and e["recv"]["k"] in ("path", "unary", "index"):
            nv = self.arith({"mul_assign": "*", "add_assign": "+", "sub_assign": "-"}[m], recv, args[0], e)
            self.assign(e["recv"], nv, env)
            return UNIT
        if m in ("unwrap", "expect") and isinstance(recv, tuple) and recv and recv[0] == "fallible":
            # `.unwrap()` on the result of a fallible callee: a PANIC exit on the callee's error, then the Ok payload
            self.ctx.exits.append(("panic_if_err", recv[1]))
            return recv[2]
        # ---- contracts (by method name, optionally qualified by receiver hint)
        for key in self.method_keys(e, recv, m):
            if key in self.contracts:
                n0_, n1_ = len(self.ctx.exits), len(self.ctx.log)
                try:
                    r_ = self.contracts[key](self, recv, args)
                except (ValueError, IndexError, TypeError, KeyError, AttributeError) as ex_:
                    raise OutsideFragment(f"the contract of callee `{key}` does not fit this call (callee signature changed?): {type(ex_).__name__}: {ex_}")
                if r_ is not NotImplemented:
                    self.calls.append(key)
                    return r_
        if isinstance(recv, Sym) and recv.path.startswith("self.") and recv.path.count(".") == 1 and (m in READONLY_METHODS or m.startswith("is_")) \
                and m not in ("iter", "clone", "copied", "cloned", "to_vec", "as_slice"):
            return VOpaque(f"{recv.path}.{m}", list(args))       # a READ of a field of `self`: an uninterpreted function of that field
        if isinstance(recv, Sym) and recv.path.startswith("self.") and recv.path.count(".") == 1 and not m.startswith("is_") \
                and m not in READONLY_METHODS and getattr(self, "helper_files", None) and getattr(self, "file_root", None):
            # a method of the field's own (crate) type whose body is available in the unit's helper files: its real body first
            ast_h, _w = self.find_helper(m, True)
            if ast_h is not None:
                r = self.inline_method(recv, m, args, type_name="__helper__")
                if r is not NotImplemented:
                    return r
        if isinstance(recv, Sym) and recv.path.startswith("self.") and recv.path.count(".") == 1 and not m.startswith("is_") \
                and m not in READONLY_METHODS and getattr(self, "trace_fields", True):
            # an unknown (possibly mutating) method on a field of `self`: an uninterpreted EFFECT on that field, recorded in the trace
            self.ctx.event("field_effect", recv.path, m, *[canon(x) for x in args])
            return VOpaque(f"{recv.path}.{m}", list(args))
        if isinstance(recv, Sym) and recv.path == "self" and getattr(self, "file_root", None) and self.file_root[2]:
            # a helper method of the same type without a contract (typically introduced by the change under test): its real body
            r = self.inline_method(recv, m, args, type_name=self.file_root[2].split("::")[-1])
            if r is not NotImplemented:
                return r
        if isinstance(recv, (VOpaque, Sym)) and getattr(self, "helper_files", None) and getattr(self, "file_root", None) and m not in PURE_GETTERS:
            ast_, _w = self.find_helper(m, True)
            if ast_ is not None:
                r = self.inline_method(recv, m, args, type_name="__helper__")
                if r is not NotImplemented:
                    return r
        if isinstance(recv, VStruct):
            r = self.inline_method(recv, m, args)
            if r is not NotImplemented:
                return r
            # Deref to the single collection field (e.g. Polynomial -> [BlsScalar])
            if len(recv.fields) == 1:
                (inner,) = recv.fields.values()
                e2 = dict(e, recv={"k": "__value__", "v": inner})
                return self.e_mcall(e2, env)
        self.fail(e, f"method `.{m}()` on {type(recv).__name__} {show(recv)[:60]} (no contract)")

    def method_keys(self, e, recv, m):
        keys = []
        if isinstance(recv, Sym):
            last = recv.path.split(".")[-1]
            keys.append(f"{last}.{m}")
        keys.append("." + m)
        return keys


READONLY_METHODS = {"get_u", "get_v", "get_z", "len", "iter", "clone", "is_empty", "get", "to_bytes", "to_bits", "is_zero", "copied", "cloned",
                    "first", "last", "contains", "as_slice", "to_vec", "is_identity", "is_on_curve", "invert", "neg", "square", "double",
                    "unwrap_or", "unwrap"}
COMPOUND_ASSIGN = {"+=", "-=", "*=", "/=", "%=", "^=", "&=", "|=", "<<=", ">>="}


def _base_name(node):
    while isinstance(node, dict) and node.get("k") in ("index", "field", "paren", "unary", "ref", "try"):
        node = node["e"]
    if isinstance(node, dict) and node.get("k") == "path" and len(node.get("segs", [])) == 1:
        return node["segs"][0]
    return None


def _maybe_mutated(node):
    """names of locals a statement MAY mutate: assignment targets, `&mut x`, receivers of methods not known to be read-only,
    anything inside a macro or an unparsed expression.  Plain reads (`x[i]`, `-x[i]`, `f(x)`, `x.get_u()`) do not count."""
    out = set()
    if isinstance(node, dict):
        k = node.get("k")
        if k == "assign" or (k == "binary" and node.get("op") in COMPOUND_ASSIGN):
            b = _base_name(node["l"])
            if b:
                out.add(b)
        if k == "ref" and node.get("mut"):
            b = _base_name(node["e"])
            if b:
                out.add(b)
        if k == "mcall" and node.get("m") not in READONLY_METHODS:
            b = _base_name(node["recv"])
            if b:
                out.add(b)
        if k == "macro" and "tokens" in node:
            import re as _re
            out |= set(_re.findall(r"[A-Za-z_][A-Za-z0-9_]*", node["tokens"]))
        if k == "other":
            import re as _re
            out |= set(_re.findall(r"[A-Za-z_][A-Za-z0-9_]*", node.get("text", "")))
        for v in node.values():
            out |= _maybe_mutated(v)
    elif isinstance(node, list):
        for v in node:
            out |= _maybe_mutated(v)
    return out


def _idents(node):
    """all identifier-like path segments mentioned in an AST node (for the tracked-object test)"""
    out = []
    if isinstance(node, dict):
        if node.get("k") == "path" and "segs" in node:
            out += node["segs"]
        if node.get("k") == "ident" and "name" in node:
            out.append(node["name"])
        if node.get("k") == "macro" and "tokens" in node:
            import re as _re
            out += _re.findall(r"[A-Za-z_][A-Za-z0-9_]*", node["tokens"])
        for v in node.values():
            out += _idents(v)
    elif isinstance(node, list):
        for v in node:
            out += _idents(v)
    return out


def _pat_names(pat):
    k = pat.get("k")
    if k == "ident":
        return [pat["name"]]
    if k in ("tuple", "slice", "tuple_struct"):
        return [n for p in pat["elems"] for n in _pat_names(p)]
    if k in ("typed", "ref"):
        return _pat_names(pat["pat"])
    if k == "struct":
        return [n for f in pat["fields"] for n in _pat_names(f["pat"])]
    return []


def _assigned_names(node):
    """names that occur as the base of an assignment target (`x = ..`, `x += ..`, `x[i] = ..`, `*x = ..`) in a block"""
    out = set()
    if isinstance(node, dict):
        k = node.get("k")
        if k == "assign" or (k == "binary" and node.get("op") in COMPOUND_ASSIGN):
            b = _base_name(node["l"])
            if b:
                out.add(b)
        for v in node.values():
            out |= _assigned_names(v)
    elif isinstance(node, list):
        for v in node:
            out |= _assigned_names(v)
    return out


def _let_names(node):
    out = set()
    if isinstance(node, dict):
        if node.get("k") == "let":
            out |= set(_pat_names(node["pat"]))
        for v in node.values():
            out |= _let_names(v)
    elif isinstance(node, list):
        for v in node:
            out |= _let_names(v)
    return out


def _has_mutation(node):
    if isinstance(node, dict):
        if node.get("k") == "assign":
            return True
        if node.get("k") == "binary" and node.get("op", "").endswith("=") and node["op"] not in ("==", "!=", "<=", ">="):
            return True
        if node.get("k") == "mcall" and node.get("m") in ("push", "extend", "extend_from_slice", "copy_from_slice", "resize", "truncate", "pop", "clear", "insert", "remove") \
                and node["recv"].get("k") == "path" and len(node["recv"].get("segs", [])) == 1:
            return True
        return any(_has_mutation(v) for v in node.values())
    if isinstance(node, list):
        return any(_has_mutation(v) for v in node)
    return False


def _has_macro(node, names):
    if isinstance(node, dict):
        if node.get("k") == "macro" and node.get("path") in names:
            return True
        return any(_has_macro(v, names) for v in node.values())
    if isinstance(node, list):
        return any(_has_macro(v, names) for v in node)
    return False


def _has_kind(node, kinds):
    if isinstance(node, dict):
        if node.get("k") in kinds:
            return True
        return any(_has_kind(v, kinds) for v in node.values())
    if isinstance(node, list):
        return any(_has_kind(v, kinds) for v in node)
    return False


def _pat_mut_names(pat):
    k = pat.get("k")
    if k == "ident":
        return [pat["name"]] if pat.get("mut") else []
    if k in ("tuple", "slice", "tuple_struct"):
        return [n for p in pat["elems"] for n in _pat_mut_names(p)]
    if k in ("typed", "ref"):
        return _pat_mut_names(pat["pat"])
    return []


def dict_child(env):
    return ChildEnv(env)


class ChildEnv(dict):
    """lexically nested environment: reads fall through to the parent; `set_var` updates the defining scope."""

    def __init__(self, parent):
        super().__init__()
        self.parent = parent

    def __contains__(self, k):
        return dict.__contains__(self, k) or (self.parent is not None and k in self.parent)

    def __getitem__(self, k):
        if dict.__contains__(self, k):
            return dict.__getitem__(self, k)
        if self.parent is not None:
            return self.parent[k]
        raise KeyError(k)


def set_var(env, n, val):
    e = env
    while e is not None:
        if dict.__contains__(e, n):
            dict.__setitem__(e, n, val)
            return
        e = getattr(e, "parent", None)
    raise KeyError(n)


def canon_err(v):
    if isinstance(v, VOpaque):
        return v.canon()
    if isinstance(v, Sym):
        return v.path
    return canon(v)


def _split_top(s):
    out, depth, cur = [], 0, ""
    for ch in s:
        if ch == "(":
            depth += 1
        if ch == ")":
            depth -= 1
        if ch == "," and depth == 0:
            out.append(cur)
            cur = ""
        else:
            cur += ch
    if cur:
        out.append(cur)
    return out


# ------------------------------------------------------------------------------------------------ units

_FN_PATHS = {}


def fn_paths(root, rel):
    key = (root, rel)
    if key not in _FN_PATHS:
        p = os.path.join(root, rel)
        out = []
        if os.path.exists(p):
            r = subprocess.run([VFX, "index", p], capture_output=True, text=True)
            if r.returncode == 0:
                out = [it["path"] for it in json.loads(r.stdout) if it["kind"] == "fn"]
        _FN_PATHS[key] = out
    return _FN_PATHS[key]


_AST_CACHE = {}


def dump_ast(root, rel, fn_path):
    key = (root, rel, fn_path)
    if key not in _AST_CACHE:
        try:
            _AST_CACHE[key] = ("ok", _dump_ast(root, rel, fn_path))
        except AstLost as e:
            _AST_CACHE[key] = ("lost", str(e))
    kind, v = _AST_CACHE[key]
    if kind == "lost":
        raise AstLost(v)
    if "__memo__" not in v:
        v["__memo__"] = _memo_info(root, rel, fn_path, v)
        v["__rel__"] = rel
    return v


_FILE_INDEX = {}
_FILE_MEMO = {}
_MEMO_FOUND = []        # memo findings met during the current unit run (also on paths that later leave the fragment)


def file_index(root, rel):
    key = (root, rel)
    if key not in _FILE_INDEX:
        p = os.path.join(root, rel)
        out = []
        if os.path.exists(p):
            r = subprocess.run([VFX, "index", p], capture_output=True, text=True)
            if r.returncode == 0:
                out = json.loads(r.stdout)
        _FILE_INDEX[key] = out
    return _FILE_INDEX[key]


def _raw_ast(root, rel, fn_path):
    key = (root, rel, fn_path)
    if key not in _AST_CACHE:
        try:
            _AST_CACHE[key] = ("ok", _dump_ast(root, rel, fn_path))
        except AstLost as e:
            _AST_CACHE[key] = ("lost", str(e))
    kind, v = _AST_CACHE[key]
    return v if kind == "ok" else None


def _owner_of(fn_path):
    segs = [x for x in fn_path.split("::") if x != "alloc"]
    return segs[-2] if len(segs) >= 2 and not segs[-2].startswith("<") else None


def _file_memo_ctx(root, rel):
    """(FileStores, accessor helper names) of one source file; files that never name an interior-mutability type are skipped outright"""
    key = (root, rel)
    if key in _FILE_MEMO:
        return _FILE_MEMO[key]
    from . import memo
    res = None
    try:
        txt = open(os.path.join(root, rel)).read()
    except OSError:
        txt = ""
    if any(t.strip(" <") in txt for t in memo.INTERIOR):
        idx = file_index(root, rel)
        fs = memo.FileStores(idx)
        accessors = set()
        for it in idx:
            if it["kind"] != "fn" or it["path"].startswith("test") or "::tests::" in it["path"]:
                continue
            a = _raw_ast(root, rel, it["path"])
            if a is None:
                continue
            owner = _owner_of(it["path"])
            if memo.direct_store_use(a, fs, owner):
                pl = memo.neutralise(a, fs, owner)
                ret = (a["sig"].get("ret") or "").replace(" ", "")
                returns_value = ret not in ("", "()", "bool") and not ret.startswith("Option<&")
                if not (pl.lookups and pl.inserts and returns_value):
                    accessors.add(it["path"].split("::")[-1])      # a pure accessor of the store (lookup / insert helper without a value of its own)
        res = (fs, frozenset(accessors))
    _FILE_MEMO[key] = res
    return res


def _memo_info(root, rel, fn_path, ast):
    ctxm = _file_memo_ctx(root, rel)
    if ctxm is None:
        return None
    from . import memo
    fs, accessors = ctxm
    owner = _owner_of(fn_path)
    if fn_path.split("::")[-1] in accessors:
        return None                   # an accessor is never inlined as program logic: its call sites are cache statements

    def resolve(m):
        for cand in ([f"{owner}::{m}", f"alloc::{owner}::{m}"] if owner else []) + [m]:
            a = _raw_ast(root, rel, cand)
            if a is not None:
                return a
        return None
    try:
        plan, findings = memo.analyse(ast, fs, owner, resolve, accessors)
    except Exception as e:      # the analysis must never change a verdict by crashing
        return None
    if not plan.skip:
        return None
    return {"skip": frozenset(plan.skip), "findings": findings}


def _dump_ast(root, rel, fn_path):
    p = os.path.join(root, rel)
    if not os.path.exists(p):
        raise AstLost(f"file {rel} not found")
    # several fns may share a path under different #[cfg(..)]: take the first one that is active for the default feature set
    for skip in range(0, 6):
        r = subprocess.run([VFX, "ast", p, fn_path, str(skip)], capture_output=True, text=True)
        if r.returncode != 0:
            raise AstLost(f"fn {fn_path} in {rel}: {r.stderr.strip()}")
        ast = json.loads(r.stdout)
        try:
            if Interp(Ctx(), {}, {}, "cfg").cfg_active(ast):
                return ast
        except OutsideFragment:
            return ast
    raise AstLost(f"fn {fn_path} in {rel}: no definition active for the default features")


def file_consts(root, rel):
    """integer consts of a file (name -> int) via the vfx index."""
    p = os.path.join(root, rel)
    r = subprocess.run([VFX, "index", p], capture_output=True, text=True)
    if r.returncode != 0:
        raise AstLost(f"index of {rel}: {r.stderr.strip()}")
    out = {}
    for it in json.loads(r.stdout):
        if it["kind"] == "const":
            t = it["text"].replace("_", "").strip()
            import re as _re
            t2 = _re.sub(r"(\d)(usize|u64|u32|u8|i32|i64)\b", r"\1", t)
            if _re.fullmatch(r"[0-9xa-fA-F\s+\-*/()<>]+", t2) and not _re.search(r"[a-zA-Z]{2,}", t2.replace("0x", "")):
                try:
                    val = int(eval(t2.replace("/", "//"), {"__builtins__": {}}, {}))
                    out[it["path"].split("::")[-1]] = val
                    out[it["path"]] = val
                except Exception:
                    pass
    return out


class Unit:
    """One function under a ring/trace contract.

    name      obligation prefix
    file/fn   the real function
    params    list of (param-name, maker) in declaration order (self first if present); maker() -> symbolic
              value handed both to the real body and to the contract (mutable containers are created twice)
    contract  callable(interp, recv, args) -> result; performs its effects on args / interp.ctx
    outputs   callable(result, args, ctx) -> dict name -> comparable value (Poly / canon-able); the same
              extraction is applied to both runs
    """

    def __init__(self, name, file, fn, params, contract, outputs, consts=None, callee_keys=(), doc="", replay=None,
                 trace_only=False, tracked=(), closure=None, closure_params=(), closure_env=None, path_dependent=False):
        # closure unit: `fn` is the enclosing function, `closure` the name of a `let NAME = |..| ..` in it; the function is run
        # up to that statement, then the CLOSURE BODY is run on closure_params (free variables listed in closure_env are replaced
        # by fresh symbols, all others keep the value the prefix of the function gave them) and compared with the contract
        self.closure, self.closure_params, self.closure_env = closure, list(closure_params), dict(closure_env or {})
        # path_dependent: the contract is evaluated once per code path and may ask it.decided(<canon of a condition>)
        self.path_dependent = path_dependent
        self.trace_only, self.tracked = trace_only, tuple(tracked)
        self.name, self.file, self.fn = name, file, fn
        self.params, self.contract, self.outputs = params, contract, outputs
        self.consts = consts or {}
        self.callee_keys = list(callee_keys)
        self.doc = doc
        self.replay = replay


def _memo_obligations(unit):
    """memo caches met during the unit's run (vlib/memo.py): the symbolic run is the MISS path; it is the function's meaning only if every
    cache's key determines every input the miss path depends on"""
    obs = []
    seen_m = set()
    for f in list(_MEMO_FOUND):
        keyf = (f["fn"], f["store"])
        if keyf in seen_m:
            continue
        seen_m.add(keyf)
        missing = [*f["missing_params"], *["self." + x for x in f["missing_fields"]]]
        obs.append({"id": f"{unit.name}.memo_cache[{f['fn']}:{f['store']}].key_covers_inputs", "unit": unit.name, "kind": "ring",
                    "text": f"{f['fn']}: the early exit on a hit of the store `{f['store']}` is sound: every input the miss path depends on flows into the "
                            f"lookup key (key inputs: {f['key_params'] + ['self.' + x for x in f['key_fields']]})",
                    "status": "failed" if missing else "discharged", "backend": "ringcheck", "cex": None,
                    "detail": (f"the cache key omits {missing}: a second call that differs from an earlier one only in {missing} hits the entry of the "
                               f"earlier call and returns ITS answer (miss path uses params {f['used_params']}, fields {f['used_fields']})") if missing else None})
    return obs


# How the exit list of a unit is compared.  "exact": code and contract have the same exits in the same order.  "no_missing_rejection" (set by
# the runner for a property that only demands that malformed input is REJECTED and nothing panics, C17): additional error returns of the
# code are allowed - a stricter decoder still satisfies such a property - but every exit of the contract must be present, in order, and no
# additional exit may be a panic.
EXITS_MODE = "exact"


def _drop_extra_rejections(a, b, seed):
    def pure_rejection(e_):
        if not (isinstance(e_, tuple) and e_):
            return False
        if e_[0] in ("err_if", "try"):
            return True
        if e_[0] == "for_some_element" and len(e_) == 3:
            return all(pure_rejection(x) for x in e_[2])
        return False
    kept, j = [], 0
    for e_ in a:
        same = False
        if j < len(b):
            try:
                same = compare(e_, b[j], seed)[0]
            except Exception:
                same = False
        if same:
            kept.append(e_)
            j += 1
        elif pure_rejection(e_):
            continue                    # an additional error return
        else:
            return a                    # something else than a rejection was added: compared exactly
    return kept if j == len(b) else a


def run_unit(root, unit, contracts, seed=0, perturb=None):
    """see _run_unit; memo-cache findings are definite on their own: they are reported even when the symbolic run leaves the fragment"""
    del _MEMO_FOUND[:]
    del _LEN_CMPS[:]
    try:
        obs_, calls_ = _run_unit(root, unit, contracts, seed=seed, perturb=perturb)
        return obs_, list(calls_) + sorted({f"LEN-CMP|{fn_}|len {op_} {k_}|{v_}|{int(o_)}" for (fn_, op_, k_, v_, o_) in _LEN_CMPS})
    except OutsideFragment:
        bad = [o for o in _memo_obligations(unit) if o["status"] == "failed"]
        if bad and not perturb:
            return bad, []
        raise


def _run_unit(root, unit, contracts, seed=0, perturb=None):
    """Returns (obligations, callee-contract uses).  The real body is executed symbolically once per feasible
    combination of decisions at its symbolic branches (path splitting, at most MAX_PATHS paths); EVERY path must meet
    the contract."""
    if getattr(unit, "extra_contracts", None):
        contracts = dict(contracts)
        contracts.update(unit.extra_contracts)
    global _DIFF_NORMALISER
    _DIFF_NORMALISER = getattr(unit, "diff_norm", None)
    ast = dump_ast(root, unit.file, unit.fn)
    consts = dict(file_consts(root, unit.file))
    consts.update(unit.consts)
    sig = ast["sig"]
    if len(sig["params"]) != len(unit.params):
        raise AstLost(f"{unit.fn}: signature has {len(sig['params'])} parameters, contract expects {len(unit.params)}")

    def exec_code(decisions):
        ctx1 = Ctx()
        it1 = Interp(ctx1, contracts, consts, src_name=f"{unit.file}::{unit.fn}")
        it1.trace_only, it1.tracked = unit.trace_only, unit.tracked
        it1.file_root = (root, unit.file, unit.fn.rsplit("::", 1)[0] if "::" in unit.fn else None)
        it1.helper_files = list(getattr(unit, "helper_files", ()) or ())
        it1.track_allocs = bool(getattr(unit, "track_allocs", False))
        it1.memo_enabled = bool(getattr(unit, "memo", True))       # False: the unit models the store explicitly in its own contract
        it1.max_inline_depth = int(getattr(unit, "max_inline_depth", 3))
        it1.decisions = list(decisions)
        env = ChildEnv(None)
        args1 = []
        made = [mk() for (_n, mk) in unit.params]
        for sp, (pname, _mk), val in zip(sig["params"], unit.params, made):
            if sp.get("recv"):
                if pname != "self":
                    raise AstLost(f"{unit.fn}: receiver mismatch")
                dict.__setitem__(env, "self", val)
            else:
                it1.bind(sp["pat"], val, env)
            args1.append(val)
        it1.capture_closure = unit.closure
        ctx1.pcs = it1.path_conds
        try:
            last_ = ast["body"]["stmts"][-1]
            if last_["k"] == "expr" and not last_.get("semi") and last_["expr"]["k"] == "if":
                last_["expr"]["__tail__"] = True
        except (KeyError, IndexError):
            pass
        try:
            try:
                res1 = it1.run_fn_body(ast, env)
                if unit.closure:
                    raise AstLost(f"{unit.fn}: no `let {unit.closure} = |..|` closure found")
            except Return as r:
                if unit.closure:
                    raise AstLost(f"{unit.fn}: returned before the closure `{unit.closure}` was defined")
                res1 = r.v
            except ClosureCaptured as cc:
                it1.capture_closure = None
                ctx1.log.clear()
                ctx1.exits.clear()
                cargs = [mk() for (_n, mk) in unit.closure_params]
                over = {n: mk() for n, mk in unit.closure_env.items()}
                for n in over:
                    if n not in cc.cl.env:
                        raise AstLost(f"{unit.fn}::{unit.closure}: free variable `{n}` is not in scope any more")
                res1 = it1.call_closure(cc.cl, cargs, over)
                args1 = cargs
        except RecursionError:
            raise OutsideFragment("recursion limit")
        return res1, args1, ctx1, it1

    MAX_PATHS = getattr(unit, "max_paths", 64)
    skipped = []
    paths = []
    stack = [[]]
    while stack:
        dec = stack.pop()
        try:
            r = exec_code(dec)
        except NeedDecision:
            stack.append(dec + [False])
            stack.append(dec + [True])
            if len(stack) + len(paths) > MAX_PATHS:
                raise OutsideFragment(f"more than {MAX_PATHS} paths")
            continue
        except OutsideFragment as ex:
            if not dec:
                raise                     # the very first run: nothing of the function is inside the fragment
            skipped.append(str(ex))       # this path leaves the fragment; the others are still examined (a definite violation on
            continue                      # one of them stands, otherwise the unit is UNDECIDED)
        paths.append(r)
    # ---- contract (single path; per code path for path-dependent contracts)
    def run_contract(pcs):
        ctx2 = Ctx()
        ctx2.is_contract = True
        it2 = Interp(ctx2, contracts, consts, src_name=f"contract of {unit.name}")
        ctx2.pcs = list(pcs)
        dec = {}
        for c, t in pcs:
            dec[canon(c)] = t
            if isinstance(c, VOpaque) and c.name == "eq" and len(c.args) == 2:
                dec[canon(VOpaque("ne", list(c.args)))] = not t
                # equality atoms are stored with their operands in canonical order: contracts may ask with either orientation
                rev = [c.args[1], c.args[0]]
                dec[canon(VOpaque("eq", rev))] = t
                dec[canon(VOpaque("ne", rev))] = not t
        it2.decided = lambda key: dec.get(key)
        it2.decided_keys = sorted(dec)
        plist = unit.closure_params if unit.closure else unit.params
        args2 = [mk() for (_n, mk) in plist]
        recv2 = args2[0] if plist and plist[0][0] == "self" else None
        rest2 = args2[1:] if recv2 is not None else args2
        if unit.closure:
            recv2 = {n: mk() for n, mk in unit.closure_env.items()}
        res2 = unit.contract(it2, recv2, rest2)
        o2 = unit.outputs(res2, args2, ctx2)
        if perturb:
            o2 = perturb(o2)
        return o2
    out2 = None if unit.path_dependent else run_contract([])
    obs = []
    calls = []
    worst = {}   # key -> (ok, detail, cex, undecided?)
    for (res1, args1, ctx1, it1) in paths:
        calls += it1.calls
        out1 = unit.outputs(res1, args1, ctx1)
        pcs = it1.path_conds
        if unit.path_dependent:
            try:
                out2 = run_contract(pcs)
            except InfeasiblePath as ip_:
                calls.append("INFEASIBLE-PATH-SKIPPED:" + str(ip_)[:120])      # the contract states why this combination of decisions cannot occur
                continue
        pc_txt = " && ".join(("" if t else "!") + canon(c) for c, t in pcs)
        keys = list(out2.keys()) + [k for k in out1.keys() if k not in out2]
        for k in keys:
            if k not in out1 or k not in out2:
                worst[k] = (False, f"output {k} missing in {'code' if k not in out1 else 'contract'}", None, False)
                continue
            a, b = out1[k], out2[k]
            if pcs:
                a, b = _resolve_ite(a, pcs), _resolve_ite(b, pcs)
            if k == "exits" and EXITS_MODE == "no_missing_rejection" and not perturb and isinstance(a, list) and isinstance(b, list) and len(a) > len(b):
                a = _drop_extra_rejections(a, b, seed)
            ok, detail, cex = compare(a, b, seed)
            und = False
            if not ok and (_havoc_names(a) - _havoc_names(b)) and _shape(a) == _shape(b):
                # the code side carries a havocked (unknown) value where the contract is exact: unknown, not a violation
                und = True
                detail = f"code value depends on statements outside the fragment (havoc {sorted(_havoc_names(a) - _havoc_names(b))}): {detail}"
            if not ok and pcs and not und:
                # a path whose condition compares COMPILE-TIME CONSTANTS of unknown value (`Type::CONST` of a dependency) may be
                # infeasible: nothing observed on it is evidence about the code
                import re as _re
                consts_in_pc = [x for c_, _t in pcs for x in _value_vars(c_) if _re.fullmatch(r"[A-Za-z_]\w*::[A-Z][A-Z0-9_]*", x)
                                and x.split("::")[0] not in ("WiredWitness", "Selector", "WireData", "PlonkVersion")]      # enum variants are not constants of unknown value
                if consts_in_pc:
                    und = True
                    detail = f"on the path [{pc_txt}] (feasibility depends on the constant(s) {sorted(set(consts_in_pc))} whose value is not known to the checker): {detail}"
            if not ok and pcs and not und:
                # the path condition may make the two sides coincide: specialise for the predicates we understand
                rules, used = _path_rules(pcs)
                sub = bool(rules)
                if rules:
                    a_r, b_r = _apply_rules(a, rules), _apply_rules(b, rules)
                    pn_ = getattr(unit, "post_norm", None)
                    if pn_ is not None:
                        a_r, b_r = pn_(k, a_r), pn_(k, b_r)       # unit-specific normal form that only makes sense AFTER the path's equalities are applied
                    ok, detail2, cex2 = compare(a_r, b_r, seed)
                    if not ok:
                        detail, cex = detail2, cex2
                if not ok:
                    # a difference is a genuine counterexample only if the path condition does not constrain its symbols
                    a2, b2 = (_apply_rules(a, rules), _apply_rules(b, rules)) if rules else (a, b)
                    la, lb = _first_diff(a2, b2)
                    dv = _diff_vars(la, lb)
                    poly_diff = isinstance(la, (Poly, Sym)) and isinstance(lb, (Poly, Sym, int))
                    cv_ = set()
                    for ci, (c, _t) in enumerate(pcs):
                        if ci in used:
                            continue      # this equality has been applied exactly (substitution / monomial elimination)
                        if poly_diff and _is_inequality(c, _t):
                            continue      # an inequality leaves a Zariski-open set: a non-zero polynomial cannot vanish on all of it
                        cv_ |= _value_vars(c)
                    if isinstance(la, VOpaque) and isinstance(lb, VOpaque) and (la.name != lb.name or len(la.args) != len(lb.args)) \
                            and "ite" not in (la.name, lb.name):        # an unresolved `ite` is a case split the other side does not make: structural
                        # two different uninterpreted terms (`affine(u(p), v(p))` vs `to_affine(p)`): whether they denote the same value can
                        # depend on ANYTHING the path says about their arguments, also on equalities that were applied as rewrites (the
                        # rewrite does not carry the meaning of the functions).  Definite only if the path is silent about them.
                        for c, _t in pcs:
                            cv_ |= _value_vars(c)
                    if _shape(a) != _shape(b) or la is _STRUCT:
                        und = False      # the SEQUENCE / structure of operations differs on this path
                    elif dv is None or (dv & cv_):
                        und = True
                    detail = f"on the path [{pc_txt}]: {detail}"
                    if isinstance(cex, dict):
                        cex = dict(cex, path=[[canon(c), bool(t)] for c, t in pcs])
            if k not in worst or (worst[k][0] and not ok) or (not worst[k][0] and worst[k][3] and not ok and not und):
                worst[k] = (ok, detail, cex, und)      # definite failure > undecided failure > success
    definite = any((not ok) and (not und) for (ok, _d, _c, und) in worst.values())
    if skipped and not definite:
        raise OutsideFragment(f"{len(skipped)} path(s) leave the fragment and no other path shows a definite difference: {skipped[0][:300]}")
    for k, (ok, detail, cex, und) in worst.items():
        oid = f"{unit.name}.{k}"
        b = out2.get(k)
        if not ok and und:
            if not definite:
                raise OutsideFragment(f"{oid}: code and contract differ on a path whose condition constrains the differing values; "
                                      f"cannot decide ({detail[:300]})")
            continue      # another output of this unit fails definitely: report that one, leave this one out
        ob = {"id": oid, "unit": unit.name, "kind": "ring",
              "text": f"{unit.fn}: {k} == {show(b)[:240] if not isinstance(b, list) else '[%d items]' % len(b)}" + (f" on all {len(paths)} paths" if len(paths) > 1 else ""),
              "status": "discharged" if ok else "failed", "detail": detail, "cex": cex, "backend": "ringcheck"}
        if not ok and cex and unit.replay and k in ("result", "msm", "v", "value", "normalised"):
            ob["recipe"] = unit.replay
        sc_ = getattr(unit, "scenarios", {}).get(k)
        if not ok and sc_:
            # a trace obligation has no polynomial counterexample; the unit names a concrete INPUT SCENARIO (candidate failing input)
            # that is executed against the real code: the violation counts as replayed only if that run really fails
            ob["recipe"] = {"kind": "scenario", "src": sc_["src"]}
            ob["cex"] = {"scenario": sc_["what"]}
        obs.append(ob)
    obs += _memo_obligations(unit)
    return obs, calls


_STRUCT = object()


def _path_rules(pcs):
    """Equalities decided TRUE on the path, turned into exact rewrite rules:  x == 0  ->  x := 0;  c*m == 0 (one monomial)  ->
    every term divisible by m vanishes (in a field a product is zero iff a factor is: the ideal generated by m);  an equation
    that is linear in a variable with a constant coefficient  ->  that variable is solved for.  Returns (rules, indices used)."""
    from .poly import R_BLS
    rules, used = [], set()
    for i, (c, t) in enumerate(pcs):
        if not t or not isinstance(c, VOpaque):
            continue
        g = None
        if c.name in ("is_zero", "is_identity") and isinstance(c.args[0], (Sym, VOpaque, Poly)):
            g = as_poly(c.args[0])
        elif c.name == "eq" and len(c.args) == 2 and all(isinstance(x, (Sym, Poly, int)) or (isinstance(x, VOpaque) and not x.name.startswith("havoc")) for x in c.args):
            try:
                g = as_poly(c.args[0]) - as_poly(c.args[1])
            except Exception:
                g = None
        if g is None:
            continue
        if rules:
            g = _apply_rules(g, rules)      # later equalities are read modulo the earlier ones
        n = g.norm()
        if not n:
            used.add(i)
            continue
        if len(n) == 1:
            (m, _c), = n.items()
            if m == ():
                continue        # a non-zero constant == 0: infeasible path, nothing to learn
            if len(m) == 1:
                rules.append(("sub", m[0][0], C(0)))
            else:
                rules.append(("mono", m))
            used.add(i)
            continue
        # linear in some variable with constant coefficient, variable absent elsewhere
        done = False
        for m, cf in n.items():
            if len(m) == 1 and m[0][1] == 1:
                x = m[0][0]
                if all(all(v != x for v, _e in m2) for m2 in n if m2 != m):
                    rest = Poly({m2: c2 for m2, c2 in n.items() if m2 != m})
                    inv = pow(cf % R_BLS, -1, R_BLS)
                    rules.append(("sub", x, rest * C((-inv) % R_BLS)))
                    used.add(i)
                    done = True
                    break
        if done:
            continue
        # general case  c*m + rest == 0  with m the unique monomial of highest total degree: every multiple of m is rewritten with
        # m := -rest/c  (exact: it is the equation itself; terminates because rest has lower degree)
        deg = lambda m_: sum(e_ for _v, e_ in m_)
        top = max(n, key=deg)
        if deg(top) >= 1 and all(deg(m2) < deg(top) for m2 in n if m2 != top):
            inv = pow(n[top] % R_BLS, -1, R_BLS)
            rest = Poly({m2: c2 for m2, c2 in n.items() if m2 != top}) * C((-inv) % R_BLS)
            rules.append(("monosub", top, rest))
            used.add(i)
    return rules, used


def _apply_rules(v, rules):
    def on_poly(p):
        p = as_poly(p)
        for r in rules:
            if r[0] == "sub":
                p = p.subst({r[1]: r[2]})
            elif r[0] == "monosub":
                mono = dict(r[1])
                for _round in range(64):
                    out_, hit = Poly(), False
                    for m, c in p.norm().items():
                        dm = dict(m)
                        if all(dm.get(x, 0) >= e for x, e in mono.items()):
                            hit = True
                            q_ = tuple(sorted((v, k - mono.get(v, 0)) for v, k in dm.items() if k - mono.get(v, 0) > 0))
                            out_ = out_ + Poly({q_: c}) * r[2]
                        else:
                            out_ = out_ + Poly({m: c})
                    p = out_
                    if not hit:
                        break
            else:
                mono = dict(r[1])
                p = Poly({m: c for m, c in p.norm().items() if not all(dict(m).get(x, 0) >= e for x, e in mono.items())})
        return p

    def go(x):
        if isinstance(x, (Poly, Sym)):
            return on_poly(x)
        if isinstance(x, VOpaque):
            return VOpaque(x.name, [go(y) for y in x.args])
        if isinstance(x, VArr):
            return VArr([go(y) for y in x.items], x.kind)
        if isinstance(x, VTuple):
            return VTuple([go(y) for y in x.items])
        if isinstance(x, list):
            return [go(y) for y in x]
        if isinstance(x, tuple):
            return tuple(go(y) for y in x)
        if isinstance(x, VOk):
            return VOk(go(x.v))
        if isinstance(x, VStruct):
            return VStruct(x.name, {k: go(y) for k, y in x.fields.items()})
        if isinstance(x, str) and renames:
            # trace events carry canonical TEXT: an equality `term1 == term2` decided true renames term1 to term2 in it
            for old_, new_ in renames:
                if old_ in x:
                    x = x.replace(old_, new_)
            return x
        return x
    # substitutions of one symbol by another symbol (x := y): also applicable to canonical text
    renames = []
    for r in rules:
        if r[0] == "sub":
            n_ = as_poly(r[2]).norm()
            if len(n_) == 1:
                (m_, c_), = n_.items()
                if c_ == 1 and len(m_) == 1 and m_[0][1] == 1 and len(r[1]) > 3:
                    renames.append((r[1], m_[0][0]))
    return go(v)


def _havoc_names(v):
    import re as _re
    try:
        txt = canon(v) if not isinstance(v, (list, tuple)) else " ".join(_havoc_txt(x) for x in v)
    except Exception:
        txt = str(v)
    return set(_re.findall(r"havoc:(\w+)", txt))


def _havoc_txt(x):
    if isinstance(x, str):
        return x
    if isinstance(x, (list, tuple)):
        return " ".join(_havoc_txt(y) for y in x)
    try:
        return canon(x)
    except Exception:
        return str(x)


def _first_diff(a, b):
    """the first pair of leaves at which two comparable values differ ((_STRUCT, _STRUCT) for a structural mismatch)"""
    if isinstance(a, (Poly, Sym)) and isinstance(b, (Poly, Sym, int)) or isinstance(b, (Poly, Sym)) and isinstance(a, (Poly, Sym, int)):
        return a, b
    pairs = None
    if isinstance(a, VOpaque) and isinstance(b, VOpaque):
        if a.name != b.name or len(a.args) != len(b.args):
            return a, b         # two different UNINTERPRETED terms (see the caller: equal or not depends on what the path says about their arguments)
        pairs = zip(a.args, b.args)
    elif isinstance(a, (VArr, VIter, VTuple)) and isinstance(b, (VArr, VIter, VTuple)):
        if len(a.items) != len(b.items):
            return _STRUCT, _STRUCT
        pairs = zip(a.items, b.items)
    elif isinstance(a, (list, tuple)) and isinstance(b, (list, tuple)):
        if len(a) != len(b):
            return _STRUCT, _STRUCT
        pairs = zip(a, b)
    elif isinstance(a, VOk) and isinstance(b, VOk):
        pairs = [(a.v, b.v)]
    elif isinstance(a, VStruct) and isinstance(b, VStruct):
        if a.name != b.name or sorted(a.fields) != sorted(b.fields):
            return _STRUCT, _STRUCT
        pairs = [(a.fields[k], b.fields[k]) for k in sorted(a.fields)]
    if pairs is not None:
        for x, y in pairs:
            ok, _d, _c = compare(x, y, 0)
            if not ok:
                return _first_diff(x, y)
        return a, b
    return a, b


def _is_inequality(c, taken):
    """does the decided condition only EXCLUDE a lower-dimensional set (x != 0, a < b, ...)?"""
    if not isinstance(c, VOpaque):
        return False
    n = c.name
    if n == "not":
        return _is_equality(c.args[0], taken)
    if n in ("is_zero", "eq", "is_identity", "is_empty", "is_none"):
        return not taken
    if n in ("ne", "lt", "le", "gt", "ge", "is_some"):
        return True if n != "ne" else taken
    return False


def _is_equality(c, taken):
    if isinstance(c, VOpaque) and c.name in ("is_zero", "eq", "is_identity"):
        return taken
    return False


def _shape(v):
    """operation skeleton of an event list / exit list: names and arities only"""
    if isinstance(v, list):
        return [(_shape(x)) for x in v]
    if isinstance(v, tuple) and v and isinstance(v[0], str):
        # nested event lists (the summary of a generic loop, a guarded block) count: their skeleton is part of the shape
        return (v[0], len(v), tuple(_shape(list(x)) for x in v[1:] if isinstance(x, (tuple, list)) and x and isinstance(x[0], tuple)))
    return None


def _resolve_ite(v, pcs):
    """ite(c, a, b) -> a / b when the path decided c"""
    dec = {}
    for c, t in pcs:
        dec[canon(c)] = t
        if isinstance(c, VOpaque) and c.name == "not":
            dec[canon(c.args[0])] = not t
        if isinstance(c, VOpaque) and c.name == "eq" and len(c.args) == 2:
            dec[canon(VOpaque("ne", list(c.args)))] = not t
        if isinstance(c, (VOpaque, Sym)):
            dec[canon(VOpaque("not", [c]))] = not t

    def go(x):
        if isinstance(x, VOpaque):
            if x.name == "ite" and len(x.args) == 3:
                k = canon(x.args[0])
                if k in dec:
                    return go(x.args[1] if dec[k] else x.args[2])
            return VOpaque(x.name, [go(y) for y in x.args])
        if isinstance(x, VArr):
            return VArr([go(y) for y in x.items], x.kind)
        if isinstance(x, VTuple):
            return VTuple([go(y) for y in x.items])
        if isinstance(x, list):
            return [go(y) for y in x]
        if isinstance(x, tuple):
            return tuple(go(y) for y in x)
        if isinstance(x, VOk):
            return VOk(go(x.v))
        if isinstance(x, VStruct):
            return VStruct(x.name, {k: go(y) for k, y in x.fields.items()})
        return x
    return go(v)


def _subst(v, sub):
    if isinstance(v, (Poly, Sym)):
        return as_poly(v).subst(sub)
    if isinstance(v, VOpaque):
        return VOpaque(v.name, [_subst(x, sub) for x in v.args])
    if isinstance(v, VArr):
        return VArr([_subst(x, sub) for x in v.items], v.kind)
    if isinstance(v, VTuple):
        return VTuple([_subst(x, sub) for x in v.items])
    if isinstance(v, (list, tuple)):
        return type(v)(_subst(x, sub) for x in v)
    if isinstance(v, VOk):
        return VOk(_subst(v.v, sub))
    if isinstance(v, VStruct):
        return VStruct(v.name, {k: _subst(x, sub) for k, x in v.fields.items()})
    return v


def _value_vars(v):
    if isinstance(v, (Poly, Sym)):
        return set(as_poly(v).vars())
    if isinstance(v, VOpaque):
        out = {v.canon()}
        for x in v.args:
            out |= _value_vars(x)
        return out
    if isinstance(v, (VArr, VIter, VTuple)):
        out = set()
        for x in v.items:
            out |= _value_vars(x)
        return out
    if isinstance(v, (list, tuple)):
        out = set()
        for x in v:
            out |= _value_vars(x)
        return out
    if isinstance(v, VOk):
        return _value_vars(v.v)
    if isinstance(v, VStruct):
        out = set()
        for x in v.fields.values():
            out |= _value_vars(x)
        return out
    return set()


def _diff_vars(a, b):
    """symbols occurring in the difference of two comparable values (None if not computable)"""
    try:
        if isinstance(a, (Poly, Sym)) and isinstance(b, (Poly, Sym, int)):
            return set((as_poly(a) - as_poly(b)).vars())
    except OutsideFragment:
        return None
    va, vb = _value_vars(a), _value_vars(b)
    return (va | vb)


def _norm_value(v):
    """`let mut v = Vec::new(); for x in s { v.push(f(x)) }`  ==  `s.iter().map(f).collect()`"""
    if isinstance(v, VArr) and len(v.items) == 1 and isinstance(v.items[0], VOpaque) and v.items[0].name == "for_each_pushed" and len(v.items[0].args) == 2:
        base, body = v.items[0].args
        ident = isinstance(body, (Sym, VOpaque, Poly)) and canon(body) == canon(base) + "[*]"
        if isinstance(body, VOpaque) and body.name == "ok_of" and len(body.args) == 1:
            # every element went through `f(x)?`: the vector of the Ok payloads IS the Ok payload of collecting the fallible results
            # (`collect::<Result<Vec<_>, _>>()?`)
            return VOpaque("ok_of", [VOpaque("collected", [Sym(VOpaque("map_each", [base, body.args[0]]).canon())])])
        return VOpaque("collected", [base if ident else Sym(VOpaque("map_each", [base, body]).canon())])
    if isinstance(v, VStruct):
        return VStruct(v.name, {k: _norm_value(x) for k, x in v.fields.items()})
    if isinstance(v, VOk):
        return VOk(_norm_value(v.v))
    if isinstance(v, VOpaque):
        return VOpaque(v.name, [_norm_value(x) for x in v.args])
    if isinstance(v, VTuple):
        return VTuple([_norm_value(x) for x in v.items])
    return v


_INV_ARGS = {}          # name of an inverse symbol -> the polynomial it inverts
_DIFF_NORMALISER = None  # per-unit normal form of a difference polynomial (e.g. reduction modulo the root-of-unity relation)


def inv_sym(p):
    """the field inverse of p as an uninterpreted symbol, registered so that a difference of two results can be decided by clearing
    denominators: inv(A) * A == 1 whenever the inverse exists"""
    p = as_poly(p)
    name = f"inv({canon(p)})"
    _INV_ARGS[name] = p
    return Sym(name)


def _clear_inverses(d):
    """d * prod_A A^(e_A) with every inv(A)^k * A^(e_A) replaced by A^(e_A - k): zero iff d is zero wherever all inverted quantities are
    non-zero (None if d has no registered inverse symbol, or the inverted quantities are themselves built from inverses)"""
    names = [v for v in d.vars() if v in _INV_ARGS]
    if not names:
        return None
    if any(any(v in _INV_ARGS for v in _INV_ARGS[n].vars()) for n in names):
        return None
    emax = {n: 0 for n in names}
    for mono in d.t:
        for v, e in mono:
            if v in emax and e > emax[v]:
                emax[v] = e
    if sum(emax.values()) > 6:
        return None
    pw = {}
    for n in names:
        A = _INV_ARGS[n]
        acc = [C(1)]
        for _ in range(emax[n]):
            acc.append(acc[-1] * A)
        pw[n] = acc
    out = C(0)
    cache = {}
    for mono, c in d.t.items():
        ks = tuple(dict(mono).get(n, 0) for n in names)
        fac = cache.get(ks)
        if fac is None:
            fac = C(1)
            for n, k in zip(names, ks):
                fac = fac * pw[n][emax[n] - k]
            cache[ks] = fac
        rest = tuple((v, e) for v, e in mono if v not in emax)
        out = out + Poly({rest: c}) * fac
    return out


def compare(a, b, seed):
    a, b = _norm_value(a), _norm_value(b)
    if isinstance(a, (Poly, Sym)) and isinstance(b, (Poly, Sym, int)) or isinstance(b, (Poly, Sym)) and isinstance(a, (Poly, Sym, int)):
        pa, pb = as_poly(a), as_poly(b)
        d = pa - pb
        if d.is_zero():
            return True, None, None
        d2 = _clear_inverses(d)
        if d2 is not None:
            if _DIFF_NORMALISER is not None:
                d2 = _DIFF_NORMALISER(d2)
            if d2.is_zero():
                return True, None, None      # equal wherever the inverted quantities are non-zero (which taking the inverse presupposes)
        env, val = witness_nonzero(d, seed)
        cex = None
        if env is not None:
            cex = {"symbols": {k: hex(v) for k, v in env.items()}, "code_value": hex(pa.evaluate(_fill(env, pa))),
                   "contract_value": hex(pb.evaluate(_fill(env, pb)))}
        return False, f"code computes {pa.show(8)}\ncontract says {pb.show(8)}\ndifference {d.show(8)}", cex
    if isinstance(a, VOpaque) and isinstance(b, VOpaque):
        if a.name != b.name or len(a.args) != len(b.args):
            return False, f"code: {a.name}/{len(a.args)}  contract: {b.name}/{len(b.args)}", None
        return compare(list(a.args), list(b.args), seed)
    if isinstance(a, (VArr, VIter, VTuple)) and isinstance(b, (VArr, VIter, VTuple)):
        return compare(list(a.items), list(b.items), seed)
    if isinstance(a, tuple) and isinstance(b, tuple):
        return compare(list(a), list(b), seed)
    if isinstance(a, VOk) and isinstance(b, VOk):
        return compare(a.v, b.v, seed)
    if isinstance(a, VStruct) and isinstance(b, VStruct):
        if a.name != b.name or sorted(a.fields) != sorted(b.fields):
            return False, f"code: {a.name}{sorted(a.fields)}  contract: {b.name}{sorted(b.fields)}", None
        for k in sorted(a.fields):
            ok, det, cex = compare(a.fields[k], b.fields[k], seed)
            if not ok:
                return False, f"field {k}: {det}", cex
        return True, None, None
    if isinstance(a, list) and isinstance(b, list):
        if len(a) != len(b):
            return False, f"sequence length {len(a)} (code) vs {len(b)} (contract);\ncode: {a[:40]}\ncontract: {b[:40]}", None
        for i, (x, y) in enumerate(zip(a, b)):
            ok, det, cex = compare(x, y, seed)
            if not ok:
                return False, f"element {i}: {det}", cex
        return True, None, None
    ca = a if isinstance(a, (str, tuple)) else canon(a)
    cb = b if isinstance(b, (str, tuple)) else canon(b)
    if ca == cb:
        return True, None, None
    return False, f"code: {str(ca)[:600]}\ncontract: {str(cb)[:600]}", None


def _fill(env, p):
    e = dict(env)
    for v in p.vars():
        e.setdefault(v, 1)
    return e


# convenience makers
def sym(name):
    return lambda: Sym(name)


def vec():
    return VArr([], "vec")


def msm(scalars, points):
    if len(scalars.items) != len(points.items):
        raise OutsideFragment(f"msm length mismatch {len(scalars.items)} vs {len(points.items)}")
    tot = C(0)
    for s, p in zip(scalars.items, points.items):
        tot = tot + as_poly(s) * as_poly(p)
    return tot

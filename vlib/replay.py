"""Replay of a ring/trace counterexample on the REAL code: a `#[cfg(test)]` module is generated into a scratch copy
of /repo's working tree; it builds the concrete inputs the checker found, calls the real function and compares the
result with the value the contract demands.  The test FAILS (assert) when the real code disagrees with the contract,
i.e. when the violation reproduces."""
import json
import os
import re
import subprocess
import sys
import time

from . import core

R_BLS = 0x73eda753299d7d483339d80809a1d80553bda402fffe5bfeffffffff00000001
REPLAY_TARGET = os.path.join(core.CACHE, "replay-target")

PRELUDE = r'''
#![allow(unused_imports, unused_variables, non_snake_case, dead_code)]
use dusk_bls12_381::{BlsScalar, G1Affine, G1Projective};
use crate::commitment_scheme::Commitment;
use crate::fft::{EvaluationDomain, Evaluations, Polynomial};
use crate::proof_system::linearization_poly::ProofEvaluations;

fn sc(l: [u64; 4]) -> BlsScalar { BlsScalar::from_raw(l) }
fn pt(l: [u64; 4]) -> G1Affine { (G1Affine::generator() * sc(l)).into() }
fn cm(l: [u64; 4]) -> Commitment { Commitment(pt(l)) }
fn sel(l: [u64; 4]) -> (Polynomial, Evaluations) {
    let v = sc(l);
    (Polynomial::from_coefficients_vec(vec![v]), Evaluations::from_vec_and_domain(vec![v; 8], EvaluationDomain::new(8).unwrap()))
}
fn evals(f: &dyn Fn(&str) -> BlsScalar) -> ProofEvaluations {
    ProofEvaluations {
        a_eval: f("a_eval"), b_eval: f("b_eval"), c_eval: f("c_eval"), d_eval: f("d_eval"),
        a_w_eval: f("a_w_eval"), b_w_eval: f("b_w_eval"), d_w_eval: f("d_w_eval"),
        q_arith_eval: f("q_arith_eval"), q_c_eval: f("q_c_eval"), q_l_eval: f("q_l_eval"), q_r_eval: f("q_r_eval"),
        s_sigma_1_eval: f("s_sigma_1_eval"), s_sigma_2_eval: f("s_sigma_2_eval"), s_sigma_3_eval: f("s_sigma_3_eval"),
        z_eval: f("z_eval"),
    }
}
'''


def limbs(v):
    v %= R_BLS
    return "[" + ", ".join(hex((v >> (64 * i)) & 0xffffffffffffffff) for i in range(4)) + "]"


def gen_test(recipe, cex, oid):
    """recipe: dict(kind, ...) from the unit; cex: {'symbols': {name: hex}, 'code_value': hex, 'contract_value': hex}"""
    env = {k: int(v, 16) for k, v in cex["symbols"].items()}
    get = lambda name: env.get(name, 1)     # symbols that do not occur in the difference polynomial were evaluated at 1
    S = lambda name: f"sc({limbs(get(name))})"
    want = int(cex["contract_value"], 16)
    code = int(cex["code_value"], 16)
    kind = recipe["kind"]
    body = ""
    if kind == "scalar_fn":
        args = ", ".join(("&" if a.startswith("&") else "") + S(a.lstrip("&")) for a in recipe["args"])
        body += f"let got: BlsScalar = {recipe['path']}({args});\n"
        body += f"let want = sc({limbs(want)}); let predicted = sc({limbs(code)});\n"
    elif kind in ("vk_widget", "pk_quotient"):
        ev_map = ", ".join(f'"{n}" => {S("evaluations." + n)}' for n in
                           ["a_eval", "b_eval", "c_eval", "d_eval", "a_w_eval", "b_w_eval", "d_w_eval", "q_arith_eval", "q_c_eval",
                            "q_l_eval", "q_r_eval", "s_sigma_1_eval", "s_sigma_2_eval", "s_sigma_3_eval", "z_eval"])
        body += f"let evaluations = evals(&|n: &str| match n {{ {ev_map}, _ => unreachable!() }});\n"
        if kind == "vk_widget":
            fields = ", ".join(f"{f}: cm({limbs(get('self.' + f + '.0'))})" for f in recipe["fields"])
            body += f"let key = {recipe['struct']} {{ {fields} }};\n"
            body += "let mut scalars = Vec::new(); let mut points = Vec::new();\n"
            args = ", ".join({"sep": "&" + S("sep"), "scalars": "&mut scalars", "points": "&mut points", "evaluations": "&evaluations"}[a]
                             for a in recipe["call_args"])
            body += f"key.compute_linearization_commitment({args});\n"
            body += "assert_eq!(scalars.len(), points.len());\n"
            body += "let got: G1Projective = scalars.iter().zip(points.iter()).map(|(s, p)| G1Projective::from(*p) * *s).fold(G1Projective::identity(), |a, b| a + b);\n"
            body += f"let want = G1Projective::generator() * sc({limbs(want)}); let predicted = G1Projective::generator() * sc({limbs(code)});\n"
        else:
            fields = ", ".join(f"{f}: sel({limbs(get('self.' + f + '.1[index]'))})" for f in recipe["fields"])
            body += f"let key = {recipe['struct']} {{ {fields} }};\n"
            args = ", ".join("&" + S(a) for a in recipe["call_args"])
            body += f"let got: BlsScalar = key.compute_quotient_i(0, {args});\n"
            body += f"let want = sc({limbs(want)}); let predicted = sc({limbs(code)});\n"
    elif kind == "batch_inversion":
        # concrete vector from the failing path: entries the path decided zero are 0, the others take the counterexample's
        # value (or a fixed non-zero default); the expectation is computed natively: 1/x for x != 0, 0 for 0
        import re as _re
        k = recipe["k"]
        zero = {}
        for c, t in cex.get("path", []):
            m = _re.fullmatch(r"eq\(v(\d+), int:0\)", c)
            if m:
                zero[int(m.group(1))] = t
        vals = []
        for i in range(k):
            v = 0 if zero.get(i) else (env.get(f"v{i}", 0) or (7 + i))
            vals.append(v)
        body += "let input: Vec<BlsScalar> = vec![" + ", ".join(f"sc({limbs(v)})" for v in vals) + "];\n"
        body += "let mut got = input.clone();\ncrate::util::batch_inversion(&mut got);\n"
        body += "let want: Vec<BlsScalar> = input.iter().map(|x| if *x == BlsScalar::zero() { *x } else { x.invert().unwrap() }).collect();\n"
        body += 'assert!(got == want, "REPLAY-VIOLATION-REPRODUCED: batch_inversion does not invert every non-zero entry / keep zeros on {:?}", input);\n'
        name = re.sub(r"\W", "_", oid)
        return f"#[test]\nfn replay_{name}() {{\n{body}}}\n"
    else:
        return None
    body += 'assert!(got == predicted, "REPLAY-INCONCLUSIVE: the real code returns something else than the checker predicted");\n'
    body += 'assert!(got == want, "REPLAY-VIOLATION-REPRODUCED: real code disagrees with the contract on the counterexample");\n'
    name = re.sub(r"\W", "_", oid)
    return f"#[test]\nfn replay_{name}() {{\n{body}}}\n"


def run_replay(tests_src, keep=False):
    """Build and run the generated tests on a scratch copy of /repo's working tree.  Returns (status, log) with status in
    {'reproduced', 'not_reproduced', 'inconclusive', 'error'}."""
    root = core.make_scratch("replay")
    with open(os.path.join(root, "src", "verif_replay.rs"), "w") as f:
        f.write(PRELUDE + "\n" + tests_src)
    with open(os.path.join(root, "src", "lib.rs"), "a") as f:
        f.write("\n#[cfg(test)]\nmod verif_replay;\n")
    env = core.offline_env()
    env["CARGO_TARGET_DIR"] = REPLAY_TARGET
    t = time.time()
    r = subprocess.run(["cargo", "test", "--offline", "--lib", "verif_replay", "--", "--test-threads", "4"], cwd=root, env=env,
                       capture_output=True, text=True, timeout=1800)
    log = (r.stdout[-6000:] + "\n" + r.stderr[-3000:])
    if "REPLAY-VIOLATION-REPRODUCED" in log:
        return "reproduced", log
    if "REPLAY-INCONCLUSIVE" in log:
        return "inconclusive", log
    if r.returncode == 0 and "test result: ok" in log:
        return "not_reproduced", log
    return "error", log


def replay(pid, path):
    """./check <pid> --replay <file>: re-run the stored counterexample against /repo's current working tree."""
    with open(path) as f:
        rep = json.load(f)
    print(json.dumps({k: rep.get(k) for k in ("property", "obligation", "clause", "backend")}, indent=1))
    src = rep.get("replay_test_source")
    if not src:
        print("this replay file carries no executable counterexample (verifier output only):")
        print((rep.get("verifier_output") or "")[:3000])
        return 0
    st, log = run_replay(src)
    print(log[-2500:])
    print("replay status:", st)
    return 1 if st == "reproduced" else 0

"""Replay of a ring/trace counterexample on the REAL code: a `#[cfg(test)]` module is generated into a scratch copy
of /repo's working tree; it builds the concrete inputs the checker found, calls the real function and compares the
result with the value the contract demands.  The test FAILS (assert) when the real code disagrees with the contract,
i.e. when the violation reproduces."""
import json
import os
import re
import subprocess
import sys
import time

from . import core

R_BLS = 0x73eda753299d7d483339d80809a1d80553bda402fffe5bfeffffffff00000001
REPLAY_TARGET = os.path.join(core.CACHE, "replay-target")

PRELUDE = r'''
#![allow(unused_imports, unused_variables, non_snake_case, dead_code)]
use dusk_bls12_381::{BlsScalar, G1Affine, G1Projective};
use crate::commitment_scheme::Commitment;
use crate::fft::{EvaluationDomain, Evaluations, Polynomial};
use crate::proof_system::linearization_poly::ProofEvaluations;

fn sc(l: [u64; 4]) -> BlsScalar { BlsScalar::from_raw(l) }
fn pt(l: [u64; 4]) -> G1Affine { (G1Affine::generator() * sc(l)).into() }
fn cm(l: [u64; 4]) -> Commitment { Commitment(pt(l)) }
fn sel(l: [u64; 4]) -> (Polynomial, Evaluations) {
    let v = sc(l);
    (Polynomial::from_coefficients_vec(vec![v]), Evaluations::from_vec_and_domain(vec![v; 8], EvaluationDomain::new(8).unwrap()))
}
fn evals(f: &dyn Fn(&str) -> BlsScalar) -> ProofEvaluations {
    ProofEvaluations {
        a_eval: f("a_eval"), b_eval: f("b_eval"), c_eval: f("c_eval"), d_eval: f("d_eval"),
        a_w_eval: f("a_w_eval"), b_w_eval: f("b_w_eval"), d_w_eval: f("d_w_eval"),
        q_arith_eval: f("q_arith_eval"), q_c_eval: f("q_c_eval"), q_l_eval: f("q_l_eval"), q_r_eval: f("q_r_eval"),
        s_sigma_1_eval: f("s_sigma_1_eval"), s_sigma_2_eval: f("s_sigma_2_eval"), s_sigma_3_eval: f("s_sigma_3_eval"),
        z_eval: f("z_eval"),
    }
}
'''


def limbs(v):
    v %= R_BLS
    return "[" + ", ".join(hex((v >> (64 * i)) & 0xffffffffffffffff) for i in range(4)) + "]"


def gen_test(recipe, cex, oid):
    """recipe: dict(kind, ...) from the unit; cex: {'symbols': {name: hex}, 'code_value': hex, 'contract_value': hex}"""
    if recipe["kind"] == "scenario":
        return recipe["src"].replace("__NAME__", "replay_" + re.sub(r"\W", "_", oid))
    env = {k: int(v, 16) for k, v in cex["symbols"].items()}
    get = lambda name: env.get(name, 1)     # symbols that do not occur in the difference polynomial were evaluated at 1
    S = lambda name: f"sc({limbs(get(name))})"
    want = int(cex["contract_value"], 16)
    code = int(cex["code_value"], 16)
    kind = recipe["kind"]
    body = ""
    if kind == "pk_linearization":
        ev_map = ", ".join(f'"{n}" => {S("evaluations." + n)}' for n in
                           ["a_eval", "b_eval", "c_eval", "d_eval", "a_w_eval", "b_w_eval", "d_w_eval", "q_arith_eval", "q_c_eval",
                            "q_l_eval", "q_r_eval", "s_sigma_1_eval", "s_sigma_2_eval", "s_sigma_3_eval", "z_eval"])
        body += f"let evaluations = evals(&|n: &str| match n {{ {ev_map}, _ => unreachable!() }});\n"
        # every selector polynomial is the CONSTANT polynomial of the counterexample's value: the result is then a constant polynomial too
        fields = ", ".join(f"{f}: sel({limbs(get('self.' + f + '.0'))})" for f in recipe["fields"])
        body += f"let key = {recipe['struct']} {{ {fields} }};\n"
        args = ", ".join({"sep": "&" + S("sep"), "evaluations": "&evaluations"}[a] for a in recipe["call_args"])
        body += f"let got: BlsScalar = key.compute_linearization({args}).evaluate(&BlsScalar::from(7u64));\n"
        body += f"let want = sc({limbs(want)}); let predicted = sc({limbs(code)});\n"
    elif kind == "scalar_fn":
        args = ", ".join(("&" if a.startswith("&") else "") + S(a.lstrip("&")) for a in recipe["args"])
        body += f"let got: BlsScalar = {recipe['path']}({args});\n"
        body += f"let want = sc({limbs(want)}); let predicted = sc({limbs(code)});\n"
    elif kind in ("vk_widget", "pk_quotient"):
        ev_map = ", ".join(f'"{n}" => {S("evaluations." + n)}' for n in
                           ["a_eval", "b_eval", "c_eval", "d_eval", "a_w_eval", "b_w_eval", "d_w_eval", "q_arith_eval", "q_c_eval",
                            "q_l_eval", "q_r_eval", "s_sigma_1_eval", "s_sigma_2_eval", "s_sigma_3_eval", "z_eval"])
        body += f"let evaluations = evals(&|n: &str| match n {{ {ev_map}, _ => unreachable!() }});\n"
        if kind == "vk_widget":
            fields = ", ".join(f"{f}: cm({limbs(get('self.' + f + '.0'))})" for f in recipe["fields"])
            body += f"let key = {recipe['struct']} {{ {fields} }};\n"
            body += "let mut scalars = Vec::new(); let mut points = Vec::new();\n"
            args = ", ".join({"sep": "&" + S("sep"), "scalars": "&mut scalars", "points": "&mut points", "evaluations": "&evaluations"}[a]
                             for a in recipe["call_args"])
            body += f"key.compute_linearization_commitment({args});\n"
            body += "assert_eq!(scalars.len(), points.len());\n"
            body += "let got: G1Projective = scalars.iter().zip(points.iter()).map(|(s, p)| G1Projective::from(*p) * *s).fold(G1Projective::identity(), |a, b| a + b);\n"
            body += f"let want = G1Projective::generator() * sc({limbs(want)}); let predicted = G1Projective::generator() * sc({limbs(code)});\n"
        else:
            fields = ", ".join(f"{f}: sel({limbs(get('self.' + f + '.1[index]'))})" for f in recipe["fields"])
            body += f"let key = {recipe['struct']} {{ {fields} }};\n"
            args = ", ".join("&" + S(a) for a in recipe["call_args"])
            body += f"let got: BlsScalar = key.compute_quotient_i(0, {args});\n"
            body += f"let want = sc({limbs(want)}); let predicted = sc({limbs(code)});\n"
    elif kind in ("ruffini", "evaluate", "poly_binop"):
        # concrete polynomials from the counterexample (entries the path decided zero are 0; symbols that do not occur in the
        # difference keep a fixed default); the expectation is computed natively from the DEFINITION, not from the checker
        import re as _re
        zero = {}
        for c, t in cex.get("path", []):
            m = _re.fullmatch(r"eq\((\w+), int:0\)", c)
            if m:
                zero[m.group(1)] = t
        def vec(prefix, k):
            out = []
            for i in range(k):
                n = f"{prefix}{i}"
                v = 0 if zero.get(n) else (env.get(n, 0) or (3 + i))
                out.append(f"sc({limbs(v)})")
            return "vec![" + ", ".join(out) + "]"
        body += "let ev = |c: &Vec<BlsScalar>, x: BlsScalar| -> BlsScalar { let mut acc = BlsScalar::zero(); for k in c.iter().rev() { acc = acc * x + *k; } acc };\n"
        if kind == "ruffini":
            body += f"let p: Vec<BlsScalar> = {vec('p', recipe['k'])}; let z = {S('z')};\n"
            body += "let q = Polynomial { coeffs: p.clone() }.ruffini(z);\nlet qc: Vec<BlsScalar> = q.iter().copied().collect();\n"
            body += "for t in [5u64, 11, 1234567] { let x = BlsScalar::from(t);\n"
            body += '  assert!(ev(&qc, x) * (x - z) + ev(&p, z) == ev(&p, x), "REPLAY-VIOLATION-REPRODUCED: ruffini(p, z) is not the quotient of p by (X - z): q(x)(x - z) + p(z) != p(x)"); }\n'
        elif kind == "evaluate":
            body += f"let p: Vec<BlsScalar> = {vec('p', recipe['k'])}; let v = {S('v')};\n"
            body += "let got = Polynomial { coeffs: p.clone() }.evaluate(&v);\n"
            body += 'assert!(got == ev(&p, v), "REPLAY-VIOLATION-REPRODUCED: Polynomial::evaluate differs from Horner evaluation of its coefficients");\n'
        else:
            la, lb, op = recipe["la"], recipe["lb"], recipe["op"]
            body += f"let a: Vec<BlsScalar> = {vec('a', la)}; let b: Vec<BlsScalar> = {vec('b', lb)}; let f = {S('f')};\n"
            body += "let pa = Polynomial { coeffs: a.clone() }; let pb = Polynomial { coeffs: b.clone() };\n"
            call = {"add": "let r = &pa + &pb;", "sub": "let r = &pa - &pb;", "add_assign": "let mut r = pa.clone(); r += &pb;",
                    "sub_assign": "let mut r = pa.clone(); r -= &pb;", "add_assign_scaled": "let mut r = pa.clone(); r += (f, &pb);"}[op]
            sign = {"add": "ev(&b, x)", "sub": "-ev(&b, x)", "add_assign": "ev(&b, x)", "sub_assign": "-ev(&b, x)", "add_assign_scaled": "f * ev(&b, x)"}[op]
            body += call + "\nlet rc: Vec<BlsScalar> = r.iter().copied().collect();\n"
            body += "for t in [5u64, 11, 1234567] { let x = BlsScalar::from(t);\n"
            body += f'  assert!(ev(&rc, x) == ev(&a, x) + {sign}, "REPLAY-VIOLATION-REPRODUCED: the polynomial operation does not agree with coefficient-wise arithmetic"); }}\n'
            body += 'assert!(rc.last().map_or(true, |c| *c != BlsScalar::zero()), "REPLAY-VIOLATION-REPRODUCED: the result is not normalised (leading zero coefficient)");\n'
        name = re.sub(r"\W", "_", oid)
        # the test needs the private field `coeffs`: it is placed in a child module of src/fft/polynomial.rs
        return f"//@in_file: src/fft/polynomial.rs\n#[test]\nfn replay_{name}() {{\n{body}}}\n"
    elif kind == "batch_inversion":
        # concrete vector from the failing path: entries the path decided zero are 0, the others take the counterexample's
        # value (or a fixed non-zero default); the expectation is computed natively: 1/x for x != 0, 0 for 0
        import re as _re
        k = recipe["k"]
        zero = {}
        for c, t in cex.get("path", []):
            m = _re.fullmatch(r"eq\(v(\d+), int:0\)", c)
            if m:
                zero[int(m.group(1))] = t
        vals = []
        for i in range(k):
            v = 0 if zero.get(i) else (env.get(f"v{i}", 0) or (7 + i))
            vals.append(v)
        body += "let input: Vec<BlsScalar> = vec![" + ", ".join(f"sc({limbs(v)})" for v in vals) + "];\n"
        body += "let mut got = input.clone();\ncrate::util::batch_inversion(&mut got);\n"
        body += "let want: Vec<BlsScalar> = input.iter().map(|x| if *x == BlsScalar::zero() { *x } else { x.invert().unwrap() }).collect();\n"
        body += 'assert!(got == want, "REPLAY-VIOLATION-REPRODUCED: batch_inversion does not invert every non-zero entry / keep zeros on {:?}", input);\n'
        name = re.sub(r"\W", "_", oid)
        return f"#[test]\nfn replay_{name}() {{\n{body}}}\n"
    else:
        return None
    body += 'assert!(got == predicted, "REPLAY-INCONCLUSIVE: the real code returns something else than the checker predicted");\n'
    body += 'assert!(got == want, "REPLAY-VIOLATION-REPRODUCED: real code disagrees with the contract on the counterexample");\n'
    name = re.sub(r"\W", "_", oid)
    return f"#[test]\nfn replay_{name}() {{\n{body}}}\n"


def run_replay(tests_src, keep=False):
    """Build and run the generated tests on a scratch copy of /repo's working tree.  Returns (status, log) with status in
    {'reproduced', 'not_reproduced', 'inconclusive', 'error'}."""
    root = core.make_scratch("replay")
    # tests marked `//@in_file: <path>` go into a child module appended to that file (access to private items of that module)
    chunks = re.split(r"(?m)^(?=//@in_file: |#\[test\])", tests_src)
    general, local = [], {}
    cur = None
    for ch in chunks:
        m = re.match(r"//@in_file: (\S+)\n", ch)
        if m:
            cur = m.group(1)            # applies to the next test
            rest = ch[m.end():]
            if rest.strip():
                local.setdefault(cur, []).append(rest)
                cur = None
        elif ch.strip():
            if cur:
                local.setdefault(cur, []).append(ch)
                cur = None
            else:
                general.append(ch)
    for rel, parts in local.items():
        with open(os.path.join(root, rel), "a") as f:
            f.write("\n#[cfg(test)]\nmod verif_replay_local {\n#![allow(unused_imports, unused_variables, non_snake_case, dead_code)]\nuse super::*;\n"
                    "use dusk_bls12_381::BlsScalar;\nfn sc(l: [u64; 4]) -> BlsScalar { BlsScalar::from_raw(l) }\n" + "\n".join(parts) + "\n}\n")
    tests_src = "\n".join(general)
    with open(os.path.join(root, "src", "verif_replay.rs"), "w") as f:
        f.write(PRELUDE + "\n" + tests_src)
    with open(os.path.join(root, "src", "lib.rs"), "a") as f:
        f.write("\n#[cfg(test)]\nmod verif_replay;\n")
    env = core.offline_env()
    env["CARGO_TARGET_DIR"] = REPLAY_TARGET
    env["RUST_BACKTRACE"] = "0"
    t = time.time()
    r = subprocess.run(["cargo", "test", "--offline", "--lib", "replay_", "--", "--test-threads", "4"], cwd=root, env=env,
                       capture_output=True, text=True, timeout=1800)
    # the verdict lines first (test status lines and the assertion messages), then the tail of both streams
    key_lines = [l for l in (r.stdout + "\n" + r.stderr).splitlines() if re.match(r"test \S+ \.\.\. ", l) or "REPLAY-" in l]
    log = "\n".join(l[:1500] for l in key_lines[:200]) + "\n----\n" + r.stdout[-4000:] + "\n" + r.stderr[-2000:]
    if "REPLAY-VIOLATION-REPRODUCED" in log:
        return "reproduced", log
    if "REPLAY-INCONCLUSIVE" in log:
        return "inconclusive", log
    if r.returncode == 0 and "test result: ok" in log:
        return "not_reproduced", log
    return "error", log


def replay(pid, path):
    """./check <pid> --replay <file>: re-run the stored counterexample against /repo's current working tree."""
    with open(path) as f:
        rep = json.load(f)
    print(json.dumps({k: rep.get(k) for k in ("property", "obligation", "clause", "backend")}, indent=1))
    src = rep.get("replay_test_source")
    if not src:
        print("this replay file carries no executable counterexample (verifier output only):")
        print((rep.get("verifier_output") or "")[:3000])
        return 0
    cexr = rep.get("counterexample") or {}
    if isinstance(cexr, dict) and cexr.get("kani_twin") or (rep.get("backend") == "kani"):
        from . import kani as kn
        log, rr = kn.replay({rep.get("unit"): src})
        print(log[-2500:])
        ok = bool(rr.get(rep.get("unit")))
        print("replay status:", "reproduced" if ok else "not_reproduced")
        return 1 if ok else 0
    st, log = run_replay(src)
    print(log[-2500:])
    print("replay status:", st)
    return 1 if st == "reproduced" else 0

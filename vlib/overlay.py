"""Annotation overlay: insert-only contracts on the real source files of a scratch copy of /repo.

Every edit is anchored structurally (fn path from the syn index, loop ordinal, exact source text),
never on line numbers.  A missing anchor raises AnchorLost -> the check is UNDECIDED (exit 2), never
a violation.  Each inserted clause carries a tag (the obligation id); after applying the edits the
overlay knows the byte range of every tag in the rewritten file, so that a Verus diagnostic span can
be mapped back to the obligation it belongs to.
"""
import json
import os
import re
import subprocess

VFX = os.environ.get("VERIF_VFX", "/verif/.cache/vfx-target/release/vfx")


class AnchorLost(Exception):
    pass


class OverlayError(Exception):
    pass


def _norm_ws(s):
    return re.sub(r"\s+", " ", s).strip()


class FileOverlay:
    def __init__(self, ov, rel):
        self.ov = ov
        self.rel = rel
        self.path = os.path.join(ov.root, rel)
        if not os.path.exists(self.path):
            raise AnchorLost(f"file {rel} not found")
        with open(self.path, "rb") as f:
            self.data = f.read()
        self.text = self.data.decode("utf-8")
        # all offsets are BYTE offsets into self.data (vfx reports byte ranges)
        r = subprocess.run([VFX, "index", self.path], capture_output=True, text=True)
        if r.returncode != 0:
            raise OverlayError(f"vfx index failed on {rel}: {r.stderr.strip()}")
        self.index = json.loads(r.stdout)
        self.edits = []  # (offset, end, text, tag, seq)
        self._seq = 0
        self._vstd = False
        self.records = []  # human-readable record of every edit for the evidence

    # ---------------------------------------------------------------- lookup
    def items(self, kind, path):
        return [it for it in self.index if it["kind"] == kind and it["path"] == path]

    def item(self, kind, path):
        its = self.items(kind, path)
        if len(its) != 1:
            raise AnchorLost(f"{kind} {path} in {self.rel}: expected exactly one, found {len(its)}")
        return its[0]

    def fn(self, path):
        return FnOverlay(self, self.item("fn", path))

    def src(self, s, e):
        return self.data[s:e].decode("utf-8")

    # ---------------------------------------------------------------- raw edits
    def insert(self, off, text, tag=None, note=None):
        self._seq += 1
        self.edits.append((off, off, text, tag, self._seq))
        if note:
            self.records.append({"file": self.rel, "at": off, "kind": note})

    def replace(self, s, e, text, tag=None, note=None):
        self._seq += 1
        self.edits.append((s, e, text, tag, self._seq))
        if note:
            self.records.append({"file": self.rel, "at": s, "kind": note, "old": self.src(s, e)[:200]})

    def find_unique(self, needle, s=0, e=None, what=""):
        """Byte offset of the unique occurrence of `needle` (exact text; falls back to
        whitespace-normalised matching) inside [s,e)."""
        e = len(self.data) if e is None else e
        hay = self.data[s:e]
        nb = needle.encode("utf-8")
        c = hay.count(nb)
        if c == 1:
            i = hay.index(nb)
            return s + i, s + i + len(nb)
        if c > 1:
            raise AnchorLost(f"anchor text not unique ({c}x) in {self.rel} {what}: {needle[:60]!r}")
        # whitespace-insensitive search
        pat = re.compile(r"\s*".join(re.escape(tok) for tok in re.findall(r"\w+|[^\w\s]", needle)).encode("utf-8"))
        ms = list(pat.finditer(hay))
        if len(ms) == 1:
            return s + ms[0].start(), s + ms[0].end()
        raise AnchorLost(f"anchor text lost ({len(ms)} matches) in {self.rel} {what}: {needle[:60]!r}")

    def use_vstd(self):
        if self._vstd:
            return
        self._vstd = True
        # after inner attributes / leading comments: put at the first item start
        first = min((it["start"] for it in self.index), default=0)
        # find the first `use ` at top level: simplest robust place = before first indexed item OR
        # the first line starting with "use "
        m = re.search(rb"(?m)^(pub\s+)?use\s", self.data)
        off = m.start() if m and m.start() < first else first
        m2 = re.search(rb"(?m)^(use|pub use|mod|pub mod|pub\(crate\) mod|#\[|pub|fn|impl|struct|const|cfg_if)", self.data)
        if m2:
            off = min(off, m2.start()) if off else m2.start()
        self.insert(off, "#[allow(unused_imports)] use vstd::prelude::*;\n#[allow(unused_imports)] use crate::verif_specs::*;\n"
                    "#[allow(unused_imports)] use vstd::std_specs::{convert::{FromSpec, IntoSpec}, ops::{AddSpec, SubSpec, MulSpec, NegSpec}, cmp::PartialEqSpec};\n",
                    note="use vstd::prelude::*")

    def wrap_item(self, kind, path, attrs=(), note=None, narrow=False):
        it = self.item(kind, path)
        self.use_vstd()
        if narrow:
            txt = self.src(it["start"], it["end"])
            m = re.search(r"(?m)^\s*pub(?=\s+(const|struct|enum|fn))", txt)
            if m:
                off = it["start"] + len(txt[:m.end()].encode("utf-8"))
                self.insert(off, "(crate)", note=f"D5 visibility pub -> pub(crate) on {kind} {path}")
        pre, post = self.impl_split(it, path)
        pre += "".join(a + "\n" for a in attrs)
        self.insert(it["start"], pre, note=note or f"verus!{{}} around {kind} {path}" + (f" with {list(attrs)}" if attrs else ""))
        self.insert(it["end"], post)
        return it

    def wrap_const_closure(self, path, _seen=None):
        """wrap_item("const", path) plus, transitively, every `Self::NAME` constant of the same impl that the initialiser
        mentions (Verus must see the definition of every constant a wrapped constant is computed from).  Mechanical: the
        set is read off the current source on every run, so a constant introduced by a change is followed too."""
        seen = _seen if _seen is not None else self.__dict__.setdefault("_wrapped_consts", set())
        if path in seen:
            return
        seen.add(path)
        it = self.wrap_item("const", path)
        owner = path.rsplit("::", 1)[0]
        for name in sorted(set(re.findall(r"\bSelf::([A-Z][A-Z0-9_]*)\b", self.src(it["start"], it["end"])))):
            dep = f"{owner}::{name}"
            if any(x["kind"] == "const" and x["path"] == dep for x in self.index):
                self.wrap_const_closure(dep, seen)

    def wrap_const_exec(self, path, ensures, unit, narrow=True):
        """`[pub] const X: T = E;` => verus!{ `[pub(crate)] exec const X: T ensures <clauses> { E }` }.
        Verus' plain `const` is dual-mode (its initialiser must be a spec expression); an initialiser that calls
        an exec fn needs the `exec const` form.  The initialiser E is kept verbatim and is VERIFIED against
        the clauses."""
        it = self.item("const", path)
        self.use_vstd()
        pre, post = self.impl_split(it, path)
        txt = self.src(it["start"], it["end"])
        m = re.search(r"(?m)^(\s*)(pub(\([a-z]+\))?\s+)?const\b", txt)
        if not m:
            raise AnchorLost(f"const {path}: unexpected shape")
        if narrow and m.group(2) and m.group(2).strip() == "pub":
            off = it["start"] + len(txt[:m.start(2) + 3].encode("utf-8"))
            self.insert(off, "(crate)", note=f"D5 visibility pub -> pub(crate) on const {path}")
        kw = it["start"] + len(txt[:m.end() - len("const")].encode("utf-8"))
        self.insert(it["start"], pre, note=f"verus!{{}} around const {path} as `exec const` with ensures")
        self.insert(kw, "exec ")
        es, ee = it["expr_span"]
        eq = self.data.rfind(b"=", it["start"], es)
        semi = self.data.find(b";", ee, it["end"] + 1)
        if eq < 0 or semi < 0:
            raise AnchorLost(f"const {path}: cannot find `=`/`;`")
        name = path.split("::")[-1]
        self.replace(eq, eq + 1, "\n    ensures\n")
        for k, c in enumerate(ensures):
            tag = f"{unit}.ensures.{k}"
            self.insert(es, f"        {c},\n", tag=tag)
            self.ov.obligations.append({"id": tag, "unit": unit, "kind": "ensures", "text": _norm_ws(c)})
        self.insert(es, "{ ")
        self.replace(semi, semi + 1, " }")
        self.insert(it["end"], post)
        self.ov.units.append({"unit": unit, "fn": path, "file": self.rel, "backend": "verus", "span": [it["start"], it["end"]],
                              "vacuity": False})
        return it

    def impl_split(self, it, path, force=True):
        """verus!{ prefix/suffix for an item; if the item sits inside an inherent impl, split the impl
        around it (`impl T { a; X; b }` == `impl T { a } impl T { X } impl T { b }`): insert-only and
        semantically neutral, needed because the verus! macro must see the enclosing impl."""
        pre = "::vstd::prelude::verus!{\n"
        post = "\n} // verus!\n"
        encl = [x for x in self.index if x["kind"] == "impl" and x["brace_start"] < it["start"] and it["end"] <= x["brace_end"]]
        if encl and force:
            im = max(encl, key=lambda x: x["start"])
            if " as " in im["path"]:
                raise OverlayError(f"cannot split trait impl for {path}")
            header = self.src(im["start"], im["brace_start"] + 1)
            pre = "}\n::vstd::prelude::verus!{\n" + header + "\n"
            post = "\n}\n} // verus!\n" + header + "\n"
            self.records.append({"file": self.rel, "at": it["start"], "kind": f"impl-split around {path}"})
        return pre, post

    def narrow_vis(self, it, path):
        """D5: `pub` -> `pub(crate)` on a verified item whose contract mentions crate-private fields
        (Verus demands that the spec of a `pub` fn be expressible outside the crate).  No behaviour change."""
        txt = self.src(it["start"], it["end"])
        import re as _re
        m = _re.search(r"(?m)^\s*pub(?=\s+(fn|const fn|unsafe fn))", self.src(it["start"], it["body_start"]))
        if not m:
            raise AnchorLost(f"narrow_vis: {path} is not `pub fn`")
        off = it["start"] + len(self.src(it["start"], it["body_start"])[:m.end()].encode("utf-8"))
        self.insert(off, "(crate)", note=f"D5 visibility pub -> pub(crate) on {path}")

    def const_assert(self, unit, name, expr):
        """Compile-time obligation discharged by rustc's constant evaluator (CTFE): appended to the file
        as `const _: () = assert!(expr);`.  A failure (E0080) inside the tagged text is a violation."""
        tag = f"{unit}.const.{name}"
        self.insert(len(self.data), f"\nconst _: () = assert!({expr});\n", tag=tag,
                    note=f"const assertion `{expr}` (rustc CTFE)")
        self.ov.obligations.append({"id": tag, "unit": unit, "kind": "const_assert", "text": expr, "backend": "rustc-ctfe"})
        return tag

    def append(self, text, note):
        self.insert(len(self.data), "\n" + text + "\n", note=note)

    def strip_attr(self, kind, path, startswith):
        """Remove one attribute (e.g. a derive Verus cannot digest) from an item.  Recorded."""
        it = self.item(kind, path)
        for sp, txt in zip(it.get("attr_spans", []), it["attrs"]):
            if _norm_ws(txt).replace(" ", "").startswith(startswith.replace(" ", "")):
                self.replace(sp[0], sp[1], "", note=f"strip attribute {txt[:80]} on {path}")
                return
        raise AnchorLost(f"attribute {startswith} on {path} not found")

    # ---------------------------------------------------------------- apply
    def apply(self):
        """Write the rewritten file; return list of (out_start, out_end, tag)."""
        m = re.search(rb"(?m)^mod\s+verifier\s*;", self.data)
        if m and self.edits:
            # D6: a module named `verifier` shadows Verus' `verifier::` attribute namespace in this file
            # (the verus! macro emits `#[verifier::proof_block]` etc.).  Rename the module declaration, keep
            # its file: `mod verifier;` => `#[path = "<dir>/verifier.rs"] mod verifier_m;` and fix the re-export.
            d = os.path.splitext(os.path.basename(self.rel))[0]
            self.replace(m.start(), m.end(), f'#[path = "{d}/verifier.rs"] mod verifier_m;',
                         note="D6: rename `mod verifier` (name clash with Verus attribute namespace)")
            for mm in re.finditer(rb"\bverifier::", self.data):
                # only paths that start with the module name (not crate::..::verifier::)
                if mm.start() >= 2 and self.data[mm.start() - 2:mm.start()] == b"::":
                    continue
                ls = self.data.rfind(b"\n", 0, mm.start()) + 1
                if self.data[ls:mm.start()].lstrip().startswith(b"//"):
                    continue
                self.replace(mm.start(), mm.start() + len(b"verifier"), "verifier_m")
        eds = sorted(self.edits, key=lambda x: (x[0], 0 if x[0] == x[1] else 1, x[4]))
        # check no overlapping replaces
        out = bytearray()
        tagmap = []
        pos = 0
        for (s, e, text, tag, _seq) in eds:
            if s < pos:
                raise OverlayError(f"overlapping edits in {self.rel} at {s}")
            out += self.data[pos:s]
            tb = text.encode("utf-8")
            if tag is not None:
                tagmap.append((len(out), len(out) + len(tb), tag))
            out += tb
            pos = e
        out += self.data[pos:]
        with open(self.path, "wb") as f:
            f.write(bytes(out))
        self.tagmap = tagmap
        self._eds = eds
        # map from output offsets to original offsets for reporting
        return tagmap


    def o2n(self, off):
        """Map an offset of the original file to the rewritten file (position after insertions at off)."""
        d = 0
        for (s, e, text, tag, _seq) in self._eds:
            if s <= off:
                d += len(text.encode("utf-8")) - (min(e, off) - s if e > s else 0)
            else:
                break
        return off + d

    def n2o_line(self, out_off):
        """Best-effort: original line number for an offset of the rewritten file."""
        pos = 0
        outpos = 0
        for (s, e, text, tag, _seq) in self._eds:
            seg = s - pos
            if outpos + seg >= out_off:
                break
            outpos += seg
            tl = len(text.encode("utf-8"))
            if outpos + tl >= out_off:
                return self.data[:s].count(b"\n") + 1
            outpos += tl
            pos = e
        orig = pos + max(0, out_off - outpos)
        return self.data[:orig].count(b"\n") + 1


class FnOverlay:
    def __init__(self, fo, it):
        self.fo = fo
        self.it = it
        self.path = it["path"]
        self.unit = None

    @property
    def body_src(self):
        return self.fo.src(self.it["body_start"], self.it["body_end"])

    def verus(self, unit, ret=None, requires=(), ensures=(), decreases=None, attrs=(), external_body=False,
              extra_sig=None, no_unwind=False, returns=None, ensures_tags=None, narrow_vis=None, vacuity=True, no_wrap=False):
        """Wrap the real fn in verus!{} and attach the contract.  `unit` = obligation-id prefix."""
        fo, it = self.fo, self.it
        self.unit = unit
        fo.use_vstd()
        has_recv = any("recv" in p for p in it["params"])
        if no_wrap:
            pre, post = "", ""   # the enclosing item (e.g. a trait impl) is already wrapped in verus!{}
        else:
            pre, post = fo.impl_split(it, self.path, force=not has_recv)
        if narrow_vis is None:
            narrow_vis = it.get("vis", "") == "pub"
        if narrow_vis:
            fo.narrow_vis(it, self.path)
        al = list(attrs)
        if external_body:
            al.append("#[verifier::external_body]")
        pre += "".join(a + "\n" for a in al)
        fo.insert(it["start"], pre, note=f"verus!{{}} around fn {self.path}" + (" [external_body: contract ASSUMED]" if external_body else ""))
        if ret is not None:
            if it["ret"] is None:
                raise AnchorLost(f"fn {self.path} has no return type any more")
            ts, te = it["ret"]["ty"]
            fo.insert(ts, f"({ret}: ", note=f"D3 name result of {self.path} as `{ret}`")
            fo.insert(te, ")")
        spec = ""
        ob = self.fo.ov.obligations
        if requires:
            spec += "\n    requires\n"
        pieces = []
        if requires:
            pieces.append(("\n    requires\n", None))
            for k, c in enumerate(requires):
                pieces.append((f"        {c},\n", f"{unit}.requires.{k}"))
        if ensures:
            pieces.append(("\n    ensures\n", None))
            for k, c in enumerate(ensures):
                tag = f"{unit}.ensures.{k}" if not ensures_tags else f"{unit}.ensures.{ensures_tags[k]}"
                pieces.append((f"        {c},\n", tag))
                if not external_body:
                    ob.append({"id": tag, "unit": unit, "kind": "ensures", "text": _norm_ws(c)})
        if returns:
            pieces.append((f"\n    returns {returns},\n", f"{unit}.returns"))
        if decreases:
            pieces.append((f"\n    decreases {decreases},\n", f"{unit}.decreases"))
        if no_unwind:
            pieces.append(("\n    no_unwind\n", None))
        for txt, tag in pieces:
            fo.insert(it["body_start"], txt, tag=tag)
        fo.insert(it["end"], post)
        if self.fo.ov.vacuity and not external_body and vacuity:
            # reachability guard: `assert(false)` on the fall-through path at the end of the body must FAIL.
            # (Not `ensures false`: callers would then see a false postcondition and verify vacuously.)
            if it["stmts"] and it["tail_expr"]:
                off = it["stmts"][-1][0]
            else:
                off = it["body_end"] - 1
            fo.insert(off, "\nproof { assert(false); }\n", tag=f"{unit}.VACUITY")
        if external_body:
            self.fo.ov.assumed.append({"unit": unit, "fn": self.path, "file": fo.rel,
                                       "requires": [_norm_ws(c) for c in requires],
                                       "ensures": [_norm_ws(c) for c in ensures]})
        else:
            ob.append({"id": f"{unit}.safety", "unit": unit, "kind": "implicit",
                       "text": "no overflow / index in range / callee preconditions / termination in the body"})
            self.fo.ov.units.append({"unit": unit, "fn": self.path, "file": fo.rel, "backend": "verus",
                                     "span": [it["start"], it["end"]]})
        return self

    def loop(self, n, invariant=(), decreases=None, invariant_except_break=(), ensures=()):
        loops = self.it["loops"]
        if n >= len(loops):
            raise AnchorLost(f"fn {self.path}: loop #{n} not found (has {len(loops)})")
        lp = loops[n]
        unit = self.unit
        ob = self.fo.ov.obligations
        off = lp["body_start"]
        if invariant:
            self.fo.insert(off, "\n    invariant\n")
            for k, c in enumerate(invariant):
                tag = f"{unit}.loop{n}.inv.{k}"
                self.fo.insert(off, f"        {c},\n", tag=tag)
                ob.append({"id": tag, "unit": unit, "kind": "invariant", "text": _norm_ws(c)})
        if decreases:
            tag = f"{unit}.loop{n}.decreases"
            self.fo.insert(off, f"    decreases {decreases},\n", tag=tag)
            ob.append({"id": tag, "unit": unit, "kind": "decreases", "text": _norm_ws(decreases)})
        return self

    def before_loop(self, n, text, tag_kind="assert"):
        """Insert proof text right before loop #n (anchor = the loop's ordinal, independent of its text)."""
        loops = self.it["loops"]
        if n >= len(loops):
            raise AnchorLost(f"fn {self.path}: loop #{n} not found (has {len(loops)})")
        self._proof(loops[n]["start"], text, tag_kind)
        return self

    def loop_iter_name(self, n, name):
        """`for p in E` => `for p in NAME: E` (Verus naming of the ghost iterator; pure naming)."""
        lp = self.it["loops"][n]
        if lp["kind"] != "for":
            raise OverlayError("loop_iter_name on non-for loop")
        self.fo.insert(lp["iter"][0], f"{name}: ", note=f"name ghost iterator of loop {n} in {self.path}")
        return self

    def _span(self):
        return self.it["body_start"], self.it["body_end"]

    def stmt(self, prefix):
        """Span of the unique statement (at any nesting depth) whose text starts with `prefix`
        (whitespace-normalised).  Anchoring on the statement's HEAD keeps the anchor alive when the rest of the
        statement is edited."""
        want = _norm_ws(prefix).replace(" ", "")
        hits = []
        for (s, e) in self.it.get("all_stmts", []):
            txt = _norm_ws(self.fo.src(s, e)).replace(" ", "")
            if txt.startswith(want):
                hits.append((s, e))
        # nested statements of a matching outer statement also match only if they start with the prefix themselves
        if len(hits) != 1:
            raise AnchorLost(f"statement starting with {prefix[:60]!r} in fn {self.path}: {len(hits)} matches")
        s, e = hits[0]
        # include a trailing `;` that syn does not count as part of an expression statement
        return s, e

    def before(self, anchor, text, tag_kind="assert"):
        """Insert proof text before the statement that starts with `anchor`."""
        s, e = self.stmt(anchor)
        self._proof(s, text, tag_kind)
        return self

    def after(self, anchor, text, tag_kind="assert"):
        """Insert proof text after the statement that starts with `anchor`."""
        s, e = self.stmt(anchor)
        if self.fo.data[e:e + 1] == b";":
            e += 1
        self._proof(e, text, tag_kind)
        return self

    def before_tail(self, text):
        """proof text before the tail expression (or before the closing brace)"""
        it = self.it
        off = it["stmts"][-1][0] if (it["stmts"] and it["tail_expr"]) else it["body_end"] - 1
        self._proof(off, text, "assert")
        return self

    def at_body_start(self, text):
        self._proof(self.it["body_start"] + 1, text, "assert")
        return self

    def _proof(self, off, text, tag_kind):
        unit = self.unit
        k = sum(1 for o in self.fo.ov.obligations if o["unit"] == unit and o["kind"] == "proof")
        tag = f"{unit}.proof.{k}"
        self.fo.insert(off, "\n" + text + "\n", tag=tag)
        n_asserts = len(re.findall(r"\bassert\b", text))
        self.fo.ov.obligations.append({"id": tag, "unit": unit, "kind": "proof", "text": _norm_ws(text)[:200],
                                       "asserts": n_asserts})

    def replace(self, old, new, rule, optional=True):
        """Mechanical desugaring (D-rules) at an exactly-anchored expression.  optional: if the expression is no longer
        there the rewrite is skipped (recorded) and Verus decides whether the code as it stands is acceptable."""
        try:
            s, e = self.fo.find_unique(old, *self._span(), what=f"(fn {self.path})")
        except AnchorLost:
            if not optional:
                raise
            self.fo.records.append({"file": self.fo.rel, "kind": f"{rule}: NOT APPLIED (expression `{_norm_ws(old)[:80]}` no longer present in {self.path})"})
            return self
        self.fo.replace(s, e, new, note=f"{rule}: `{_norm_ws(old)[:120]}` => `{_norm_ws(new)[:120]}` in {self.path}")
        self.fo.ov.rewrites.append({"rule": rule, "fn": self.path, "old": _norm_ws(old), "new": _norm_ws(new)})
        return self

    def cut(self, text, name, params, call, ensures=(), requires=(), ret=None, tail=None, body=None):
        """CUT: one expression/statement outside Verus' subset is replaced by a call to a function whose BODY IS THE
        ORIGINAL TEXT VERBATIM and which is external_body with an ASSUMED contract.  Anchored on the exact text:
        any change inside it loses the anchor (UNDECIDED), it is never silently trusted."""
        fo = self.fo
        s, e = fo.find_unique(text, *self._span(), what=f"(cut in fn {self.path})")
        orig = fo.src(s, e)
        fo.replace(s, e, call, note=f"CUT {name}: `{_norm_ws(orig)[:160]}` => `{call}` (body verbatim, contract assumed)")
        encl = [x for x in fo.index if x["kind"] == "impl" and x["brace_start"] < self.it["start"] and self.it["end"] <= x["brace_end"]]
        sig = f"fn {name}({params})" + (f" -> ({ret})" if ret else "")
        spec = ""
        if requires:
            spec += "\n    requires " + ", ".join(requires) + ","
        if ensures:
            spec += "\n    ensures " + ", ".join(ensures) + ","
        cut_body = body if body is not None else orig + ("\n    " + tail if tail else "")
        body = "#[verifier::external_body]\n" + sig + spec + "\n{\n    " + cut_body + "\n}\n"
        if encl:
            im = max(encl, key=lambda x: x["start"])
            header = fo.src(im["start"], im["brace_start"] + 1)
            body = header + "\n" + body + "}\n"
        fo.append("::vstd::prelude::verus!{\n" + body + "} // verus!", note=f"cut fn {name} (external_body, body = original text)")
        fo.ov.assumed.append({"unit": f"{self.unit}.{name}", "fn": f"CUT {name} in {self.path}", "file": fo.rel,
                              "requires": [_norm_ws(c) for c in requires], "ensures": [_norm_ws(c) for c in ensures],
                              "cut_text": _norm_ws(orig)})
        fo.ov.rewrites.append({"rule": "CUT", "fn": self.path, "old": _norm_ws(orig), "new": call})
        return self

    def cut_scalar_const(self, name, expected_cv, expected_text):
        """A local `const NAME: BlsScalar = BlsScalar([l0, l1, l2, l3]);` (raw Montgomery limbs; the constructor of
        the opaque dependency type is not expressible in Verus) => `let NAME: BlsScalar = Self::cut_NAME();` where
        the cut fn's body is the original const item + `NAME`.  Its contract `cv(r) == expected` is DISCHARGED here by
        exact integer arithmetic on the limbs read from the real source (Montgomery form: value = limbs * 2^-256 mod r)."""
        fo = self.fo
        bs, be = self._span()
        m = re.search((r"const\s+" + name + r"\s*:\s*BlsScalar\s*=\s*BlsScalar\(\s*\[([^\]]*)\]\s*,?\s*\)\s*;").encode(), fo.data[bs:be])
        if not m:
            raise AnchorLost(f"const {name} with raw limbs not found in {self.path}")
        orig = fo.data[bs + m.start():bs + m.end()].decode()
        limbs = [int(x.strip().replace("_", ""), 0) for x in m.group(1).decode().split(",") if x.strip()]
        if len(limbs) != 4:
            raise AnchorLost(f"const {name}: expected 4 limbs")
        R_ = 0x73eda753299d7d483339d80809a1d80553bda402fffe5bfeffffffff00000001
        raw = sum(l << (64 * i) for i, l in enumerate(limbs))
        val = raw * pow(1 << 256, -1, R_) % R_
        fn = "cut_" + name.lower()
        fo.replace(bs + m.start(), bs + m.end(), f"let {name}: BlsScalar = Self::{fn}();",
                   note=f"CUT {fn}: local const {name} (raw Montgomery limbs) => let + wrapper fn; value checked by integer arithmetic")
        encl = [x for x in fo.index if x["kind"] == "impl" and x["brace_start"] < self.it["start"] and self.it["end"] <= x["brace_end"]]
        im = max(encl, key=lambda x: x["start"])
        header = fo.src(im["start"], im["brace_start"] + 1)
        fo.append("::vstd::prelude::verus!{\n" + header + f"\n#[verifier::external_body]\nfn {fn}() -> (r: BlsScalar) ensures cv(r) == {expected_text} {{\n    {orig}\n    {name}\n}}\n}}\n}} // verus!",
                  note=f"cut fn {fn}")
        tag = f"{self.unit}.const.{name}"
        ok = (val == expected_cv % R_)
        fo.ov.obligations.append({"id": tag, "unit": self.unit, "kind": "const_value", "backend": "bigint",
                                  "text": f"Montgomery limbs of {name} denote {expected_text}",
                                  "precomputed": "discharged" if ok else "failed",
                                  "detail": None if ok else f"limbs {[hex(l) for l in limbs]} denote {hex(val)}, expected {hex(expected_cv % R_)}"})
        fo.ov.rewrites.append({"rule": "CUT-const", "fn": self.path, "old": _norm_ws(orig), "new": f"let {name} = Self::{fn}();"})
        return self

    def for_each_to_loop(self, old, pat, iter_expr, body, iter_name=None, invariant=(), loop_tag="fe"):
        """D1: `X.for_each(|p| B)` => `for p in X { B }` (the loop that defines Iterator::for_each), with loop
        invariants attached as tagged obligations."""
        fo = self.fo
        s, e = fo.find_unique(old, *self._span(), what=f"(fn {self.path})")
        head = f"for {pat} in " + (f"{iter_name}: " if iter_name else "") + iter_expr
        fo.replace(s, e, head, note=f"D1: `{_norm_ws(old)[:120]}` => `{head} {{ {_norm_ws(body)[:80]} }}` in {self.path}")
        fo.ov.rewrites.append({"rule": "D1", "fn": self.path, "old": _norm_ws(old), "new": head + " { " + _norm_ws(body) + " }"})
        if invariant:
            fo.insert(e, "\n    invariant\n")
            for k, c in enumerate(invariant):
                tag = f"{self.unit}.loop_{loop_tag}.inv.{k}"
                fo.insert(e, f"        {c},\n", tag=tag)
                fo.ov.obligations.append({"id": tag, "unit": self.unit, "kind": "invariant", "text": _norm_ws(c)})
        fo.insert(e, "{ " + body + " }")
        return self

    def replace_all(self, old, new, rule):
        """Replace EVERY occurrence of an exactly-anchored expression in the fn (at least one must exist)."""
        fo = self.fo
        bs, be = self._span()
        body = fo.data[bs:be]
        ob = old.encode("utf-8")
        n = 0
        i = body.find(ob)
        while i >= 0:
            fo.replace(bs + i, bs + i + len(ob), new)
            n += 1
            i = body.find(ob, i + len(ob))
        if n == 0:
            fo.records.append({"file": fo.rel, "kind": f"{rule}: NOT APPLIED (`{_norm_ws(old)[:80]}` not present in {self.path})"})
            return self
        fo.records.append({"file": fo.rel, "kind": f"{rule}: {n}x `{_norm_ws(old)[:100]}` => `{_norm_ws(new)[:100]}` in {self.path}"})
        fo.ov.rewrites.append({"rule": rule, "fn": self.path, "old": _norm_ws(old), "new": _norm_ws(new), "count": n})
        return self

    def demut_self(self):
        """D7: `fn f(mut self, ..) { B }` => `fn f(self, ..) { let mut slf = self; B[self := slf] }`.
        Verus does not support `mut self`; the rewrite is an alpha-renaming of the receiver binding."""
        fo, it = self.fo, self.it
        recv = [p for p in it["params"] if "recv" in p]
        if not recv or not recv[0]["recv"].replace(" ", "").startswith("mutself"):
            # D-rules are optional: without a `mut self` receiver there is nothing to rename and Verus takes the fn as it stands
            fo.records.append({"file": fo.rel, "kind": f"D7: NOT APPLIED ({self.path} has no `mut self` receiver)"})
            return self
        rs, re_ = recv[0]["span"]
        fo.replace(rs, re_, "self", note=f"D7: `mut self` => `self` + `let mut slf = self;` (alpha-renaming) in {self.path}")
        bs, be = it["body_start"], it["body_end"]
        fo.insert(bs + 1, " let mut slf = self; ")
        body = fo.data[bs:be]
        # replace the identifier `self` outside comments / string literals
        i = 0
        n = len(body)
        while i < n:
            c = body[i:i + 2]
            if c == b"//":
                j = body.find(b"\n", i)
                i = n if j < 0 else j
                continue
            if c == b"/*":
                j = body.find(b"*/", i)
                i = n if j < 0 else j + 2
                continue
            if body[i:i + 1] == b'"':
                j = i + 1
                while j < n and body[j:j + 1] != b'"':
                    j += 2 if body[j:j + 1] == b"\\" else 1
                i = j + 1
                continue
            m = re.match(rb"self\b", body[i:])
            if m and (i == 0 or not (body[i - 1:i].isalnum() or body[i - 1:i] == b"_")):
                fo.replace(bs + i, bs + i + 4, "slf")
                i += 4
                continue
            i += 1
        fo.ov.rewrites.append({"rule": "D7", "fn": self.path, "old": "mut self", "new": "self; let mut slf = self; body[self:=slf]"})
        return self

    def closure_contract(self, n, params_typed, ret, ensures=(), requires=()):
        """D2: annotate closure #n (source order) with parameter types and a contract."""
        cl = self.it["closures"]
        if n >= len(cl):
            raise AnchorLost(f"fn {self.path}: closure #{n} not found")
        c = cl[n]
        raise OverlayError("closure_contract not implemented")


class Overlay:
    def __init__(self, root, vacuity=False):
        self.root = root
        self.files = {}
        self.obligations = []
        self.units = []
        self.assumed = []
        self.rewrites = []
        self.spec_mods = []
        self.vacuity = vacuity
        self.extra_specs = {}

    def file(self, rel):
        if rel not in self.files:
            self.files[rel] = FileOverlay(self, rel)
        return self.files[rel]

    def spec_module(self, name):
        """Include /verif/specs/verus/<name>.rs as crate::verif_specs::<name>."""
        if name not in self.spec_mods:
            self.spec_mods.append(name)

    def apply(self, specs_dir):
        tagmaps = {}
        for rel, fo in self.files.items():
            tagmaps[rel] = fo.apply()
        # spec module
        d = os.path.join(self.root, "src", "verif_specs")
        os.makedirs(d, exist_ok=True)
        modrs = "#![allow(unused_imports, dead_code, unused_variables, missing_docs, non_snake_case)]\n"
        for m in self.spec_mods:
            src = os.path.join(specs_dir, m + ".rs")
            with open(src) as f:
                body = f.read()
            # every proved lemma of a spec module is an obligation of its own (axioms are listed as assumptions)
            for mm in re.finditer(r"(?m)^\s*pub (broadcast )?proof fn (\w+)", body):
                self.obligations.append({"id": f"lemma.{m}.{mm.group(2)}", "unit": f"lemma.{m}", "kind": "lemma",
                                         "text": f"proof fn {mm.group(2)} in specs/verus/{m}.rs"})
            for mm in re.finditer(r"(?m)^\s*pub (broadcast )?axiom fn (\w+)", body):
                self.assumed.append({"unit": f"axiom.{m}.{mm.group(2)}", "fn": f"axiom fn {mm.group(2)}", "file": f"specs/verus/{m}.rs",
                                     "requires": [], "ensures": ["(axiom)"]})
            with open(os.path.join(d, m + ".rs"), "w") as f:
                f.write(body)
            modrs += f"pub(crate) mod {m};\n#[allow(unused_imports)] pub(crate) use {m}::*;\n"
        for m, body in self.extra_specs.items():
            with open(os.path.join(d, m + ".rs"), "w") as f:
                f.write(body)
            modrs += f"pub(crate) mod {m};\n#[allow(unused_imports)] pub(crate) use {m}::*;\n"
        with open(os.path.join(d, "mod.rs"), "w") as f:
            f.write(modrs)
        librs = os.path.join(self.root, "src", "lib.rs")
        with open(librs, "a") as f:
            f.write("\n#[allow(missing_docs)]\n#[doc(hidden)]\npub(crate) mod verif_specs;\n")
        self.tagmaps = tagmaps
        return tagmaps

    def records(self):
        out = []
        for fo in self.files.values():
            out += fo.records
        return out

    def tag_at(self, rel, byte_start, byte_end):
        for (s, e, tag) in self.tagmaps.get(rel, []):
            if byte_start >= s and byte_end <= e + 1:
                return tag
        return None

    def unit_at(self, rel, byte_start):
        """Which verified unit's (rewritten) fn span contains output offset byte_start."""
        fo = self.files.get(rel)
        if fo is None:
            return None
        for u in self.units:
            if u["file"] != rel:
                continue
            s, e = fo.o2n(u["span"][0]), fo.o2n(u["span"][1])
            if s - 64 <= byte_start <= e + 16:
                return u["unit"]
        return None

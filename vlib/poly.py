"""Exact sparse polynomials over Z (coefficients reduced mod r on comparison): the decision procedure of the
ring/trace contract checker.  Equal normal forms <=> identity in every commutative ring of characteristic r
(in particular F_r)."""
import random

R_BLS = 0x73eda753299d7d483339d80809a1d80553bda402fffe5bfeffffffff00000001


class Poly:
    __slots__ = ("t",)

    def __init__(self, terms=None):
        # terms: dict monomial -> int ; monomial = tuple of (var, exp) sorted by var
        self.t = terms or {}

    # ---- constructors
    @staticmethod
    def const(c):
        c = int(c)
        return Poly({(): c} if c else {})

    @staticmethod
    def var(name):
        return Poly({((name, 1),): 1})

    @staticmethod
    def lift(x):
        if isinstance(x, Poly):
            return x
        if isinstance(x, int):
            return Poly.const(x)
        raise TypeError(f"cannot lift {type(x)} to Poly")

    # ---- arithmetic
    def __add__(self, o):
        o = Poly.lift(o)
        t = dict(self.t)
        for m, c in o.t.items():
            v = t.get(m, 0) + c
            if v:
                t[m] = v
            else:
                t.pop(m, None)
        return Poly(t)

    __radd__ = __add__

    def __neg__(self):
        return Poly({m: -c for m, c in self.t.items()})

    def __sub__(self, o):
        return self + (-Poly.lift(o))

    def __rsub__(self, o):
        return Poly.lift(o) - self

    def __mul__(self, o):
        o = Poly.lift(o)
        t = {}
        for m1, c1 in self.t.items():
            for m2, c2 in o.t.items():
                m = _mmul(m1, m2)
                v = t.get(m, 0) + c1 * c2
                if v:
                    t[m] = v
                else:
                    t.pop(m, None)
        return Poly(t)

    __rmul__ = __mul__

    def __pow__(self, n):
        r = Poly.const(1)
        for _ in range(n):
            r = r * self
        return r

    # ---- normal form / comparison
    def norm(self, mod=R_BLS):
        out = {}
        for m, c in self.t.items():
            c %= mod
            if c:
                out[m] = c
        return out

    def eq(self, o, mod=R_BLS):
        return (self - Poly.lift(o)).is_zero(mod)

    def is_zero(self, mod=R_BLS):
        return not self.norm(mod)

    def vars(self):
        s = set()
        for m in self.t:
            for v, _ in m:
                s.add(v)
        return s

    def degree(self):
        return max((sum(e for _, e in m) for m in self.t), default=0)

    def nterms(self):
        return len(self.t)

    def subst(self, mapping):
        """mapping: var -> Poly (vars not in mapping stay)."""
        res = Poly()
        cache = {}
        for m, c in self.t.items():
            term = Poly.const(c)
            for v, e in m:
                if v in mapping:
                    key = (v, e)
                    if key not in cache:
                        cache[key] = Poly.lift(mapping[v]) ** e
                    term = term * cache[key]
                else:
                    term = term * Poly({((v, e),): 1})
            res = res + term
        return res

    def rename(self, f):
        """f: var-name -> var-name"""
        t = {}
        for m, c in self.t.items():
            nm = {}
            for v, e in m:
                nv = f(v)
                nm[nv] = nm.get(nv, 0) + e
            key = tuple(sorted(nm.items()))
            t[key] = t.get(key, 0) + c
        return Poly({m: c for m, c in t.items() if c})

    def evaluate(self, env, mod=R_BLS):
        tot = 0
        for m, c in self.t.items():
            v = c % mod
            for x, e in m:
                v = v * pow(env[x], e, mod) % mod
            tot = (tot + v) % mod
        return tot

    def coeff_of(self, var):
        """Split p = a*var + b for p linear in var; returns (a, b)."""
        a, b = {}, {}
        for m, c in self.t.items():
            d = dict(m)
            if var in d:
                if d[var] != 1:
                    raise ValueError(f"not linear in {var}")
                del d[var]
                a[tuple(sorted(d.items()))] = c
            else:
                b[m] = c
        return Poly(a), Poly(b)

    def __repr__(self):
        return self.show()

    def show(self, limit=12, mod=R_BLS):
        n = self.norm(mod)
        if not n:
            return "0"
        parts = []
        for m, c in sorted(n.items(), key=lambda kv: (len(kv[0]), kv[0]))[:limit]:
            if c > mod // 2:
                c = c - mod
            mono = "*".join(v if e == 1 else f"{v}^{e}" for v, e in m)
            if not mono:
                parts.append(str(c))
            elif c == 1:
                parts.append(mono)
            elif c == -1:
                parts.append("-" + mono)
            else:
                parts.append(f"{c}*{mono}")
        s = " + ".join(parts)
        if len(n) > limit:
            s += f" + …({len(n) - limit} more terms)"
        return s

    def canon(self, mod=R_BLS):
        n = self.norm(mod)
        return repr(sorted(n.items()))


def _mmul(m1, m2):
    if not m1:
        return m2
    if not m2:
        return m1
    d = dict(m1)
    for v, e in m2:
        d[v] = d.get(v, 0) + e
    return tuple(sorted(d.items()))


def S(name):
    return Poly.var(name)


def C(c):
    return Poly.const(c)


def witness_nonzero(p, seed=0, mod=R_BLS, tries=8):
    """Concrete field values at which the (non-zero) polynomial p does not vanish."""
    rnd = random.Random(seed)
    vs = sorted(p.vars())
    for k in range(tries):
        env = {}
        for v in vs:
            env[v] = rnd.randrange(2, 50) if k == 0 else rnd.randrange(mod)
        val = p.evaluate(env, mod)
        if val:
            return env, val
    return None, 0

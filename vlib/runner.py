"""Per-property run: engines V (Verus in place), R (ring/trace checker), K (Kani) -> obligations -> verdict,
replay files, evidence."""
import concurrent.futures as cf
import hashlib
import importlib.util
import json
import os
import re
import shutil
import subprocess
import sys
import time
import traceback

from . import core, overlay

SPECS = os.path.join(core.VERIF, "specs")
UNITS_DIR = os.path.join(SPECS, "units")
VERUS_SPECS = os.path.join(SPECS, "verus")
# VERIF_EVIDENCE_DIR: used by tools/run_seeds.py so that runs against deliberately broken trees do not overwrite the evidence
# of the unchanged tree
EVIDENCE = os.environ.get("VERIF_EVIDENCE_DIR") or os.path.join(core.VERIF, "evidence")
REPLAYS = os.path.join(core.VERIF, "replays")
KNOWN = os.path.join(core.VERIF, "known_findings.json")


def load_py(path):
    name = "vu_" + re.sub(r"\W", "_", os.path.relpath(path, core.VERIF))
    spec = importlib.util.spec_from_file_location(name, path)
    m = importlib.util.module_from_spec(spec)
    spec.loader.exec_module(m)
    return m


class Undecided(Exception):
    pass


class Result:
    """Accumulates obligations over all engines for one property."""

    def __init__(self, pid, tier, seed):
        self.pid = pid
        self.tier = tier
        self.seed = seed
        self.obligations = []   # {id, unit, kind, text, backend, status: discharged|failed|undecided, detail}
        self.units = []
        self.assumed = []
        self.rewrites = []
        self.overlay_records = []
        self.bounded = []
        self.assumptions = []
        self.trusted = []
        self.undecided = []     # reasons
        self.violations = []    # {obligation, detail, cex, replayed}
        self.cmds = []
        self.solver_time = {}
        self.selftest = []
        self.notes = []

    def add_ob(self, **kw):
        self.obligations.append(kw)


# ------------------------------------------------------------------------------------------- engine V

def _rel(root, fn):
    if os.path.isabs(fn):
        return os.path.relpath(fn, root)
    return fn


def build_overlay(unit_files, vacuity, tag):
    root = core.make_scratch(tag)
    ov = overlay.Overlay(root, vacuity=vacuity)
    for uf in unit_files:
        m = load_py(os.path.join(UNITS_DIR, uf))
        m.overlay(ov)
    ov.apply(VERUS_SPECS)
    return root, ov


def run_v(res, unit_files, rlimit=None, filter_units=None):
    """filter_units: optional predicate on unit name -> only those obligations are attributed to this
    property (the overlay may contain shared callee units that belong to another property's evidence too)."""
    core.ensure_verus_deps()
    t0 = time.time()
    try:
        with cf.ThreadPoolExecutor(max_workers=2) as ex:
            f1 = ex.submit(_v_pass, unit_files, False, rlimit)
            f2 = ex.submit(_v_pass, unit_files, True, rlimit)
            (root1, ov1, r1) = f1.result()
            (root2, ov2, r2) = f2.result()
    except overlay.AnchorLost as e:
        res.undecided.append(f"lost anchor: {e}")
        return
    except overlay.OverlayError as e:
        res.undecided.append(f"overlay error: {e}")
        return
    # rlimit exceeded somewhere and nothing else wrong: one retry with a 6x resource limit before giving up (DESIGN §2.4)
    if not r1["timeout"]:
        errs = core.diag_errors(r1)
        if errs and any("rlimit" in d.get("message", "") for d in errs):
            core.log("[V] rlimit exceeded; retrying once with --rlimit 60")
            r1b = core.run_verus(root1, rlimit=60)
            if not r1b["timeout"] and r1b["summary"]:
                r1 = r1b
                res.notes.append("Verus pass re-run with --rlimit 60 after a resource-limit hit at the default limit")
    res.cmds.append(" ".join(r1["cmd"][:4]) + " … (Verus as rustc of the real crate, overlay applied; full command in coverage.checker_cmd)")
    res.checker_cmd = " ".join(r1["cmd"])
    res.units += ov1.units
    res.assumed += ov1.assumed
    res.rewrites += ov1.rewrites
    res.overlay_records += ov1.records()
    # ---- pass 1: real obligations
    failed = {}   # obligation id -> diag text
    tool_errors = []
    if r1["timeout"]:
        res.undecided.append("Verus timed out")
        return
    for d in core.diag_errors(r1):
        msg = d.get("message", "")
        cls = core.classify(msg)
        spans = d.get("spans", [])
        tags = []
        unit = None
        in_specs = False
        for s0 in spans:
            # a span inside a macro expansion (panic!/assert!/debug_assert! from core) is attributed through its call sites
            chain, e_ = [s0], s0.get("expansion")
            while e_ and len(chain) < 12:
                chain.append(e_["span"])
                e_ = e_["span"].get("expansion")
            for s in chain:
                rel = _rel(root1, s["file_name"])
                if rel.startswith("src/verif_specs"):
                    in_specs = True
                t = ov1.tag_at(rel, s["byte_start"], s["byte_end"])
                if t:
                    tags.append(t)
                u = ov1.unit_at(rel, s["byte_start"])
                if u and s0.get("is_primary") and unit is None:
                    unit = u
        code = (d.get("code") or {}).get("code") if d.get("code") else None
        rendered = d.get("rendered") or msg
        if code == "E0080" and any(".const." in t for t in tags):
            for t in tags:
                if ".const." in t:
                    failed[t] = rendered
            continue
        if cls == "violation":
            # which obligation?  prefer an ensures/invariant/requires tag; requires-tag => a call-site precondition
            obl = None
            for t in tags:
                if ".ensures." in t or ".inv." in t or ".decreases" in t or ".proof." in t or ".returns" in t:
                    obl = t
                    break
            if obl is None:
                req = [t for t in tags if ".requires." in t]
                if unit:
                    obl = f"{unit}.safety" + (f"[calls {req[0]}]" if req else "")
                elif req:
                    obl = f"callsite-of.{req[0]}"
            if obl is None and in_specs:
                tool_errors.append(("lemma", rendered))
                continue
            if obl is None:
                tool_errors.append(("unmapped", rendered))
                continue
            failed.setdefault(obl, rendered)
        elif cls == "undecided":
            res.undecided.append("rlimit: " + msg[:200])
        else:
            tool_errors.append(("tool", rendered))
    if tool_errors:
        for k, r in tool_errors[:6]:
            res.undecided.append(f"{k} error from Verus/rustc on the overlaid crate: " + r[:1500])
    summ = (r1["summary"] or {}).get("verification-results", {})
    if not r1["summary"]:
        res.undecided.append("Verus produced no summary: " + r1["stderr"][-1500:])
    # ---- pass 2: vacuity
    vac_failed = set()
    if r2["timeout"]:
        res.undecided.append("Verus (vacuity pass) timed out")
    else:
        for d in core.diag_errors(r2):
            for s in d.get("spans", []):
                t = ov2.tag_at(_rel(root2, s["file_name"]), s["byte_start"], s["byte_end"])
                if t and t.endswith(".VACUITY"):
                    vac_failed.add(t[:-len(".VACUITY")])
    # only meaningful when pass 1 had no tool errors
    vac_units = [u["unit"] for u in ov1.units if u.get("vacuity", True)]
    # ---- record obligations
    safety_failed = {k.split("[")[0]: v for k, v in failed.items() if ".safety" in k}
    # An inserted proof HINT (`proof { assert(..) }`, kind "proof") is an artifact of the proof, not a clause of the contract.
    # When one fails, Verus goes on ASSUMING it, so every other verdict in that function is conditional on a false-able fact:
    # nothing in that unit is evidence about the code -> the unit is UNDECIDED (never an alarm).
    hint_failed_units = {o["unit"] for o in ov1.obligations if o["kind"] == "proof" and o["id"] in failed}
    for u_ in sorted(hint_failed_units):
        hints = [o["id"] for o in ov1.obligations if o["unit"] == u_ and o["kind"] == "proof" and o["id"] in failed]
        res.undecided.append(f"unit {u_}: inserted proof hint(s) {hints} no longer hold where they are anchored; the proof (not necessarily the "
                             f"code) is broken, the unit's other verdicts are conditional on them")
    for o in ov1.obligations:
        if filter_units and not filter_units(o["unit"]):
            continue
        oid = o["id"]
        st = "discharged"
        detail = None
        if o.get("precomputed"):
            res.add_ob(id=oid, unit=o["unit"], kind=o["kind"], text=o["text"], backend=o.get("backend"), status=o["precomputed"], detail=o.get("detail"))
            continue
        if oid in failed:
            st, detail = "failed", failed[oid]
        elif o["kind"] == "implicit" and oid in safety_failed:
            st, detail = "failed", safety_failed[oid]
        if st == "failed" and o["unit"] in hint_failed_units:
            st = "undecided"
        if tool_errors or not r1["summary"]:
            if st == "discharged":
                st = "undecided"
        res.add_ob(id=oid, unit=o["unit"], kind=o["kind"], text=o["text"], backend=o.get("backend", "verus"), status=st, detail=detail)
    for k, v in failed.items():
        if k.startswith("callsite-of."):
            res.add_ob(id=k, unit=None, kind="callsite", text=k, backend="verus", status="failed", detail=v)
    if not tool_errors and r1["summary"]:
        for u in vac_units:
            if filter_units and not filter_units(u):
                continue
            unit_failed = any(o["unit"] == u and o["status"] == "failed" for o in res.obligations)
            if u not in vac_failed and not unit_failed:
                res.undecided.append(f"vacuity guard: `assert(false)` at the end of unit {u} was NOT refuted "
                                     f"(contradictory precondition / callee contract / invariant, or unit skipped)")
        res.vacuity = {"units_guarded": len(vac_units), "refuted": len([u for u in vac_units if u in vac_failed])}
    # solver times
    try:
        tm = r1["summary"]["times-ms"]
        res.solver_time["verus_total_ms"] = tm.get("total")
        res.solver_time["verus_smt_ms"] = (tm.get("smt") or {}).get("total") if isinstance(tm.get("smt"), dict) else tm.get("smt")
        res.solver_time["verus_verified_fns"] = summ.get("verified")
    except Exception:
        pass
    try:
        fns = []
        for m in r1["summary"]["times-ms"]["smt"]["smt-run-module-times"]:
            for f in m.get("function-breakdown", []):
                fns.append((f.get("time", 0), f.get("function")))
        fns.sort(reverse=True)
        res.solver_time["verus_smt_ms_top_functions"] = [{"fn": n, "ms": t} for t, n in fns[:12]]
        res.solver_time["verus_smt_ms_total"] = r1["summary"]["times-ms"]["smt"].get("total")
    except Exception:
        pass
    res.solver_time["verus_wall_s"] = round(time.time() - t0, 2)
    res.v_root = root1
    res.v_overlay = ov1
    return ov1


def _v_pass(unit_files, vacuity, rlimit):
    root, ov = build_overlay(unit_files, vacuity, "vac" if vacuity else "v")
    r = core.run_verus(root, rlimit=rlimit)
    return root, ov, r


# ------------------------------------------------------------------------------------------- verdict / evidence

def load_known():
    if not os.path.exists(KNOWN):
        return {"findings": [], "fixed": []}
    with open(KNOWN) as f:
        return json.load(f)


def finish(res, claim, t_start, extra_cov=None):
    known = load_known()
    known_ids = {(k["property"], k["obligation"]): k for k in known.get("findings", [])}
    os.makedirs(EVIDENCE, exist_ok=True)
    viol_lines = []
    nviol = 0
    # ---- replay counterexamples of failed ring obligations on the real code (one cargo test run for all of them)
    todo = [o for o in res.obligations if o["status"] == "failed" and o.get("cex") and o.get("recipe")
            and (res.pid, o["id"]) not in known_ids]
    if todo and os.environ.get("VERIF_NO_REPLAY") != "1":
        from . import replay as rp
        srcs = {}
        for o in todo:
            t = rp.gen_test(o["recipe"], o["cex"], o["id"])
            if t:
                srcs[o["id"]] = t
        if srcs:
            try:
                st, log = rp.run_replay("\n".join(srcs.values()))
            except Exception as e:
                st, log = "error", str(e)
            for o in todo:
                if o["id"] in srcs:
                    name = "replay_" + re.sub(r"\W", "_", o["id"])
                    reproduced = re.search(name + r"[^\n]*(FAILED|panicked)", log) is not None and "REPLAY-VIOLATION-REPRODUCED" in log
                    o["replayed"] = bool(reproduced)
                    o["replay_log"] = "\n".join(l for l in log.split("\n----\n")[0].splitlines() if name in l or "REPLAY-" in l)[:3000] + "\n...\n" + log[-1200:]
                    o["replay_test_source"] = srcs[o["id"]]
    # ---- K engine (vlib/kani.py): Kani twins of the integer / byte-level Verus units of this run
    try:
        from . import kani as kn
        v_units = sorted({o.get("unit") for o in res.obligations if o.get("backend") in (None, "verus") and o.get("unit")})
        twin_units = kn.twins_for_units(v_units) + [u for u in kn.PROPERTY_TWINS.get(res.pid, []) if u in kn.TWINS]
        failed_units = {o.get("unit") for o in res.obligations if o["status"] == "failed" and o.get("backend") in (None, "verus")
                        and (res.pid, o["id"]) not in known_ids}
        want = twin_units if res.tier == "thorough" else [u for u in twin_units if u in failed_units]
        if want and os.environ.get("VERIF_NO_KANI") != "1" and not (os.environ.get("VERIF_NO_REPLAY") == "1" and res.tier != "thorough"):
            tr = kn.run_twins(want)
            srcs = {u: r["replay_src"] for u, r in tr.items() if r.get("status") == "failed" and r.get("replay_src")}
            rlog, rres = ("", {})
            if srcs:
                try:
                    rlog, rres = kn.replay(srcs)
                except Exception as e:
                    rlog, rres = f"replay error: {e}", {}
            for u, r in tr.items():
                t = kn.TWINS[u]
                res.solver_time.setdefault("kani_s", {})[u] = r.get("seconds")
                if res.tier == "thorough":
                    st = {"proved": "discharged", "failed": "failed"}.get(r["status"])
                    if st is None:
                        res.undecided.append(f"Kani twin of {u}: {r.get('detail', '')[:300]}")
                    else:
                        res.add_ob(id=f"{u}.kani_twin", unit=u, kind="kani-harness", backend="kani", status=st, detail=r.get("detail"),
                                   text=f"loop-free #[kani::proof] {t['harness']}: the contract of {u} as executable assertions on kani::any() inputs "
                                        f"(complete: {t['complete_because']})")
                        if st == "failed":
                            ob = res.obligations[-1]
                            ob["cex"], ob["replayed"], ob["replay_log"], ob["replay_test_source"] = r.get("cex"), rres.get(u), rlog, r.get("replay_src")
                if r["status"] == "proved" and u in failed_units:
                    # Verus did not re-prove a postcondition which the COMPLETE Kani twin (loop-free, full input domain) proves for the
                    # same function body: the postcondition holds, what broke is the Verus proof.  Undecided for Verus, never an alarm.
                    for o in res.obligations:
                        if o.get("unit") == u and o["status"] == "failed" and o.get("backend") in (None, "verus") and o.get("kind") == "ensures":
                            o["status"] = "undecided"
                            o["detail"] = (o.get("detail") or "") + f" | Kani twin {t['harness']} PROVES the unit's contract on the full input domain ({r.get('detail')})"
                            res.undecided.append(f"unit {u}: Verus could not re-prove {o['id']}, but the complete Kani twin {t['harness']} proves the contract "
                                                 f"for every input: proof failure, not a violation")
                if r["status"] == "failed" and r.get("cex"):
                    # the concrete failing input belongs to the failed Verus obligations of the same unit
                    for o in res.obligations:
                        if o.get("unit") == u and o["status"] == "failed" and o.get("backend") in (None, "verus") and not o.get("cex"):
                            o["cex"] = {"kani_twin": t["harness"], "inputs": r["cex"], "failed_check": r.get("detail")}
                            o["replayed"] = bool(rres.get(u))
                            o["replay_log"] = rlog
                            o["replay_test_source"] = r.get("replay_src")
            if tr:
                res.cmds.append("cargo kani --harness <twin> -Z concrete-playback --concrete-playback=print (scratch copy of /repo + twin module)")
                res.trusted.append("Kani 0.68 / CBMC 6.11 (twins: loop-free harnesses over kani::any(); the twin's executable statement of the contract, /verif/vlib/kani.py)")
    except Exception as e:      # the K engine must never turn into a verdict about the code
        res.notes.append(f"K engine error (ignored): {type(e).__name__}: {e}")
    for o in res.obligations:
        if o["status"] != "failed":
            continue
        key = (res.pid, o["id"])
        if key in known_ids:
            print(f"KNOWN-FINDING: property={res.pid} {o['id']}: {known_ids[key].get('what', '')}")
            o["status"] = "known-finding"
            continue
        nviol += 1
        d = os.path.join(REPLAYS, res.pid)
        os.makedirs(d, exist_ok=True)
        fn = os.path.join(d, re.sub(r"[^\w.\-]", "_", o["id"]) + ".json")
        cex = o.get("cex")
        rep = {"property": res.pid, "obligation": o["id"], "unit": o.get("unit"), "clause": o.get("text"),
               "backend": o.get("backend"), "verifier_output": o.get("detail"), "counterexample": cex,
               "replayed_on_real_code": o.get("replayed"), "replay_log": o.get("replay_log"),
               "replay_test_source": o.get("replay_test_source"),
               "note": "replay with: ./check %s --replay %s" % (res.pid, fn)}
        with open(fn, "w") as f:
            json.dump(rep, f, indent=1)
        suffix = "" if (cex and o.get("replayed")) else " no-failing-input-found"
        viol_lines.append(f"VIOLATION property={res.pid} replay={fn}{suffix}")
    n_ob = len(res.obligations)
    n_dis = len([o for o in res.obligations if o["status"] == "discharged"])
    samples = []
    for o in res.obligations[:4] + res.obligations[-2:]:
        samples.append({"id": o["id"], "kind": o["kind"], "clause": (o.get("text") or "")[:300], "backend": o.get("backend"),
                        "status": o["status"]})
    by_backend = {}
    for o in res.obligations:
        b = o.get("backend") or "verus"
        by_backend.setdefault(b, [0, 0])
        by_backend[b][0] += 1
        if o["status"] == "discharged":
            by_backend[b][1] += 1
    cov = {
        "obligations": n_ob,
        "discharged": n_dis,
        "checker_cmd": getattr(res, "checker_cmd", "") or "; ".join(res.cmds) or "n/a",
        "trusted_base": sorted(set(res.trusted)),
        "samples": samples,
        "by_backend": {k: {"obligations": v[0], "discharged": v[1]} for k, v in by_backend.items()},
        "units": [dict({"unit": u["unit"], "fn": u["fn"], "file": u["file"], "backend": u.get("backend", "verus")},
                       **({"callee_contracts_and_rules_used": u["callee_contracts_used"][:60]} if u.get("callee_contracts_used") else {})) for u in res.units],
        "assumed_contracts": res.assumed,
        "overlay": res.overlay_records,
        "rewrites": res.rewrites,
        "bounded": res.bounded,
        "solver_time": res.solver_time,
        "vacuity": getattr(res, "vacuity", None),
        "undecided": res.undecided,
        "known_findings": [o["id"] for o in res.obligations if o["status"] == "known-finding"],
        "obligation_list": [{"id": o["id"], "backend": o.get("backend"), "status": o["status"]} for o in res.obligations],
        "claim": claim,
        "selftest": res.selftest,
        "notes": res.notes,
    }
    if extra_cov:
        cov.update(extra_cov)
    ev = {
        "property_id": res.pid,
        "tier": res.tier,
        "seed": res.seed,
        "level": "proof",
        "coverage": cov,
        "assumptions": res.assumptions,
        "wall_s": round(time.time() - t_start, 2),
        "violations": nviol,
    }
    with open(os.path.join(EVIDENCE, res.pid + ".json"), "w") as f:
        json.dump(ev, f, indent=1)
    for l in viol_lines:
        print(l)
    if nviol:
        return 1
    if res.undecided:
        for u in res.undecided:
            print(f"UNDECIDED property={res.pid} reason={u[:2000]}")
        return 2
    print(f"OK property={res.pid} obligations={n_ob} discharged={n_dis} "
          f"({', '.join(f'{k}:{v[1]}/{v[0]}' for k, v in by_backend.items())}) wall={ev['wall_s']}s")
    return 0


# ------------------------------------------------------------------------------------------- engine R

def load_ring_module(name):
    d = os.path.join(SPECS, "ring")
    if d not in sys.path:
        sys.path.insert(0, d)
    import importlib
    if name in sys.modules:
        return sys.modules[name]
    return importlib.import_module(name)


def run_r(res, module_names, select=None, root=None, seed=0):
    """Run ring/trace units.  select: predicate on unit name."""
    from . import ring
    root = root or core.REPO
    t0 = time.time()
    contracts = {}
    units = []
    for mn in module_names:
        m = load_ring_module(mn)
        contracts.update(m.CONTRACTS)
        units += m.UNITS
    n = 0
    todo = [u for u in units if not (select and not select(u.name))]
    global _R_JOB
    _R_JOB = (root, todo, contracts, seed)
    # C17 demands rejection of malformed input and no panic, not a particular set of accepted encodings: additional error returns are allowed
    ring.EXITS_MODE = "no_missing_rejection" if res.pid in ("C17",) else "exact"
    if len(todo) >= 4 and os.environ.get("VERIF_R_SERIAL") != "1":
        # units are independent: fork a pool (the units hold closures, so workers address them by index)
        import multiprocessing as mp
        with mp.get_context("fork").Pool(min(16, len(todo), os.cpu_count() or 4)) as pool:
            results = pool.map(_r_one, range(len(todo)), chunksize=1)
    else:
        results = [_r_one(i) for i in range(len(todo))]
    len_sites = {}
    for u, (kind, payload, calls, vac) in zip(todo, results):
        n += 1
        if kind != "ok":
            res.undecided.append(payload)
            continue
        for c in calls:
            if c.startswith("LEN-CMP|"):
                _t, fn_, cmp_, val_, out_ = c.split("|")
                st = len_sites.setdefault((fn_, cmp_), {"vals": set(), "outcomes": set(), "units": set()})
                st["vals"].add(int(val_))
                st["outcomes"].add(out_)
                st["units"].add(u.name)
        calls = [c for c in calls if not c.startswith("LEN-CMP|")]
        for o in payload:
            res.add_ob(**o)
        if vac:
            res.undecided.append(vac)
        res.units.append({"unit": u.name, "fn": u.fn, "file": u.file, "backend": "ringcheck",
                          "callee_contracts_used": sorted(set(calls))})
    # ---- instance families are size-bounded stand-ins (all VALUES symbolic, the SIZES / widths / patterns fixed by the instance): reported as
    # bounded, never as proved for every size
    fam = {}
    for u in todo:
        if "[" in u.name and "all sizes" not in u.name and "all lengths" not in u.name:
            fam.setdefault(u.name.split("[", 1)[0], []).append(u.name.split("[", 1)[1].rstrip("]"))
    for base_, insts_ in sorted(fam.items()):
        res.bounded.append({"what": "instance units: the contract is discharged for every value of the symbolic inputs, but only at the listed sizes / parameters",
                            "family": base_, "instances": insts_[:40], "count": len(insts_)})
    # ---- size coverage of the instance units: a comparison `len <op> K` between a length fixed by the unit's instance and a constant K
    # of the code that NO instance reaches (K above every instance's value, one outcome only) means the code has a size-dependent path
    # which the instances never execute.  Never an alarm: the run is UNDECIDED unless the site is in the recorded baseline of the
    # pinned commit (specs/ring/len_branch_baseline.json; those are reported as bounded).
    try:
        base = json.load(open(os.path.join(SPECS, "ring", "len_branch_baseline.json"))).get("sites", {})
    except (OSError, ValueError):
        base = {}
    for (fn_, cmp_), st in sorted(len_sites.items()):
        k_ = int(cmp_.split()[-1])
        if len(st["outcomes"]) == 1 and k_ > max(st["vals"]):
            key = f"{fn_}|{cmp_}"
            msg = (f"size-dependent branch `{cmp_}` reached from {fn_} is decided the same way by every instance "
                   f"(lengths {sorted(st['vals'])} in units {sorted(st['units'])[:4]}): the path for larger sizes is not covered by the instance units")
            if os.environ.get("VERIF_LEN_BASELINE_PRINT") == "1":
                print("LEN-BASELINE " + key)
            if key in base:
                res.bounded.append({"what": "instance sizes do not reach a size threshold of the code (recorded at the pinned commit)", "site": key, "why_accepted": base[key]})
            else:
                res.undecided.append("R instance units: " + msg)
    for mn in module_names:
        m = load_ring_module(mn)
        for lem in getattr(m, "LEMMAS", []):
            if select and not select("lemma." + lem.__name__):
                continue
            try:
                for o in lem():
                    res.add_ob(**o)
            except Exception as e:
                res.undecided.append(f"R lemma {lem.__name__}: {type(e).__name__}: {e}")
    res.solver_time["ringcheck_wall_s"] = round(time.time() - t0, 2)
    res.cmds.append("ringcheck: symbolic execution of the real fn AST (vfx ast) + exact polynomial normal form")
    if not getattr(res, "checker_cmd", None):
        res.checker_cmd = "./check %s  (ringcheck: vfx ast <file> <fn> | vlib/ring.py | vlib/poly.py normal form)" % res.pid
    return n


_R_JOB = None


def _r_one(i):
    """one ring unit: the real run and the vacuity run (the same unit against a perturbed contract must FAIL)"""
    from . import ring
    root, todo, contracts, seed = _R_JOB
    u = todo[i]
    try:
        obs, calls = ring.run_unit(root, u, contracts, seed=seed)
    except ring.OutsideFragment as e:
        return ("undecided", f"R unit {u.name}: outside the fragment: {e}", [], None)
    except ring.AstLost as e:
        return ("undecided", f"R unit {u.name}: lost anchor: {e}", [], None)
    except ring.Undecidable as e:
        return ("undecided", f"R unit {u.name}: cannot decide: {e}", [], None)
    except Exception as e:      # a defect of the checker itself must never look like a verdict about the code
        return ("undecided", f"R unit {u.name}: internal error of the checker: {type(e).__name__}: {e}", [], None)
    vac = None
    try:
        pobs, _ = ring.run_unit(root, u, contracts, seed=seed, perturb=_perturb)
        if all(o["status"] == "discharged" for o in pobs):
            vac = f"R unit {u.name}: perturbed contract was NOT refuted (vacuous comparison)"
    except (ring.OutsideFragment, ring.AstLost):
        pass
    return ("ok", obs, list(calls), vac)


def _perturb(out):
    from .poly import Poly, C
    from . import ring
    o2 = dict(out)
    for k, v in out.items():
        if isinstance(v, (Poly, ring.Sym)):
            o2[k] = ring.as_poly(v) + C(1)
            return o2
        if isinstance(v, list) and v:
            o2[k] = v[:-1]
            return o2
    for k, v in out.items():
        if isinstance(v, int):
            o2[k] = v + 1
            return o2
    for k, v in out.items():
        o2[k] = ring.VOpaque("perturbed")
        return o2
    return o2

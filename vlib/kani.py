"""K engine: Kani twins of integer / byte-level Verus units.

A twin is a `check_<unit>(inputs..)` function (the unit's contract written as executable assertions over the REAL function) placed, by
overlay, inside the module of the real function in a scratch copy of /repo's working tree, plus a loop-free `#[kani::proof]` harness that
calls it on `kani::any()` inputs.  Loop-free harnesses over the full input domain are complete proofs (no unwinding bound); each twin
states why its input shape is exhaustive.  When CBMC refutes an assertion, Kani's concrete playback values are turned into an ordinary
`#[test]` that calls the same `check_` function on those values and is run with `cargo test` on the real code: the failing input of a
violated Verus obligation.

Used (a) in the thorough tier: every twin of the property runs and is recorded as an obligation of back end `kani`;
(b) in the quick tier: only when a Verus obligation of a unit that has a twin failed, to obtain a concrete failing input."""
import json
import os
import re
import subprocess
import time

from . import core

KANI_TARGET = os.path.join(core.CACHE, "kani-target")
REPLAY_TARGET = os.path.join(core.CACHE, "replay-target")

# ---------------------------------------------------------------------------------------------------------------- twins
COMPRESS = "src/composer/compress.rs"

TWIN_COMPRESS = r'''
#[cfg(any(kani, test))]
mod verif_kani {
    #![allow(dead_code, unused_imports)]
    use super::*;

    /// MessagePack array header: (announced length, bytes consumed); None = must be rejected
    fn expect_len(b: &[u8]) -> Option<(usize, usize)> {
        if b.is_empty() { return None; }
        let t = b[0];
        if (0x90..=0x9f).contains(&t) { return Some(((t & 0x0f) as usize, 1)); }
        if t == 0xdc { if b.len() < 3 { return None; } return Some(((b[1] as usize) * 256 + b[2] as usize, 3)); }
        if t == 0xdd {
            if b.len() < 5 { return None; }
            return Some(((b[1] as usize) * 16777216 + (b[2] as usize) * 65536 + (b[3] as usize) * 256 + b[4] as usize, 5));
        }
        None
    }

    /// contract of PackedCircuitReader::unpack_array_len on the input buf[..n]
    pub(super) fn check_unpack_array_len(buf: [u8; 6], n: usize) {
        let input = &buf[..n];
        let mut r = PackedCircuitReader::new(input);
        let got = r.unpack_array_len();
        match expect_len(input) {
            Some((len, used)) => {
                assert!(got.is_ok(), "TWIN-VIOLATION unpack_array_len: a well-formed array header is rejected");
                assert!(got.unwrap() == len, "TWIN-VIOLATION unpack_array_len: wrong announced length");
                assert!(r.remaining.len() == n - used, "TWIN-VIOLATION unpack_array_len: wrong number of bytes consumed");
            }
            None => {
                assert!(got.is_err(), "TWIN-VIOLATION unpack_array_len: a malformed / truncated header is accepted");
                assert!(r.remaining.len() <= n, "TWIN-VIOLATION unpack_array_len: the reader grew");
            }
        }
    }

    /// contract of PackedCircuitReader::take(len) on the input buf[..n]
    pub(super) fn check_take(buf: [u8; 4], n: usize, len: usize) {
        let input = &buf[..n];
        let mut r = PackedCircuitReader::new(input);
        let got = r.take(len);
        if len <= n {
            assert!(got.is_ok(), "TWIN-VIOLATION take: enough bytes but Err");
            let v = got.unwrap();
            assert!(v.len() == len && r.remaining.len() == n - len, "TWIN-VIOLATION take: wrong split");
            let mut i = 0;
            while i < 4 { if i < len { assert!(v[i] == input[i], "TWIN-VIOLATION take: wrong bytes"); } i += 1; }
        } else {
            assert!(got.is_err(), "TWIN-VIOLATION take: more bytes requested than present but Ok");
            assert!(r.remaining.len() == n, "TWIN-VIOLATION take: a failed take consumed input");
        }
    }

    /// contract of CompressedCircuit::packed_size_limit: 857 * mc + 30 or Err on overflow
    pub(super) fn check_packed_size_limit(mc: usize) {
        let got = CompressedCircuit::packed_size_limit(mc);
        match (mc as u128) * 857 + 30 {
            v if v <= usize::MAX as u128 => assert!(matches!(got, Ok(x) if x as u128 == v), "TWIN-VIOLATION packed_size_limit: wrong limit"),
            _ => assert!(got.is_err(), "TWIN-VIOLATION packed_size_limit: overflow not reported"),
        }
    }

    #[cfg(kani)]
    #[kani::proof]
    fn twin_unpack_array_len() {
        let buf: [u8; 6] = kani::any();
        let n: usize = kani::any();
        kani::assume(n <= 6);
        check_unpack_array_len(buf, n);
    }

    #[cfg(kani)]
    #[kani::proof]
    fn twin_take() {
        let buf: [u8; 4] = kani::any();
        let n: usize = kani::any();
        kani::assume(n <= 4);
        let len: usize = kani::any();
        check_take(buf, n, len);
    }

    #[cfg(kani)]
    #[kani::proof]
    fn twin_packed_size_limit() {
        check_packed_size_limit(kani::any());
    }
//@REPLAY@
}
'''

KZG_KEY = "src/commitment_scheme/kzg10/key.rs"

TWIN_KZG_KEY = r'''
#[cfg(any(kani, test))]
mod verif_kani {
    #![allow(dead_code, unused_imports)]
    use super::*;

    const P: [u64; 6] = [0xb9feffffffffaaab, 0x1eabfffeb153ffff, 0x6730d2a0f6b0f624, 0x64774b84f38512bf, 0x4b1ba7b6434bacd7, 0x1a0111ea397fe69a];

    /// c (48 bytes, six little-endian u64 limbs) < p, decided by the borrow of the 384-bit subtraction c - p
    fn below_modulus(c: &[u8]) -> bool {
        let mut borrow: u128 = 0;
        let mut i = 0;
        while i < 6 {
            let mut l = [0u8; 8];
            l.copy_from_slice(&c[8 * i..8 * i + 8]);
            let limb = u64::from_le_bytes(l) as u128;
            let sub = P[i] as u128 + borrow;
            borrow = if limb < sub { 1 } else { 0 };
            i += 1;
        }
        borrow == 1
    }

    /// meaning of raw_point_is_canonical: 97 bytes, flag byte 0 or 1, both coordinates below the base-field modulus
    pub(super) fn check_raw_point_is_canonical(chunk: [u8; 97]) {
        let want = chunk[96] <= 1 && below_modulus(&chunk[0..48]) && below_modulus(&chunk[48..96]);
        assert!(raw_point_is_canonical(&chunk) == want, "TWIN-VIOLATION raw_point_is_canonical: differs from (flag <= 1 && x < p && y < p)");
        assert!(!raw_point_is_canonical(&chunk[..96]), "TWIN-VIOLATION raw_point_is_canonical: accepts a short chunk");
    }

    #[cfg(kani)]
    #[kani::proof]
    #[kani::unwind(8)]
    fn twin_raw_point_is_canonical() {
        check_raw_point_is_canonical(kani::any());
    }
//@REPLAY@
}
'''

TWINS = {
    # Verus unit name -> twin
    "compress.PackedCircuitReader::unpack_array_len": {
        "file": COMPRESS, "module": "compress", "harness": "twin_unpack_array_len", "check": "check_unpack_array_len",
        "inputs": [("buf", "[u8; 6]"), ("n", "usize")],
        "complete_because": "loop-free; the function reads at most 5 bytes and compares the remaining length with 1, 2 and 4 only, so inputs of "
                            "length 0..=6 with all byte values cover every behaviour",
    },
    "compress.PackedCircuitReader::take": {
        "file": COMPRESS, "module": "compress", "harness": "twin_take", "check": "check_take",
        "inputs": [("buf", "[u8; 4]"), ("n", "usize"), ("len", "usize")],
        "complete_because": "loop-free in the function under test (split_at_checked); the requested length is an arbitrary usize, buffers of length "
                            "0..=4 cover len <, ==, > remaining",
    },
    "compress.CompressedCircuit::packed_size_limit": {
        "file": COMPRESS, "module": "compress", "harness": "twin_packed_size_limit", "check": "check_packed_size_limit",
        "inputs": [("mc", "usize")],
        "complete_because": "loop-free checked arithmetic over every usize",
    },
}
TWINS["kzg.raw_point_is_canonical"] = {
    "file": KZG_KEY, "module": "kzg_key", "harness": "twin_raw_point_is_canonical", "check": "check_raw_point_is_canonical",
    "inputs": [("chunk", "[u8; 97]")],
    "complete_because": "all 97-byte chunks; the loops have fixed trip counts (6 limbs, 2 coordinates), unwound to 8 with unwinding assertions on",
}
MODULE_SRC = {"compress": TWIN_COMPRESS, "kzg_key": TWIN_KZG_KEY}
# twins that give MEANING to a predicate a ring/trace contract uses by name (run in the thorough tier of these properties)
PROPERTY_TWINS = {"C17": ["kzg.raw_point_is_canonical"]}


def twins_for_units(units):
    return [u for u in units if u in TWINS]


def _prepare(names, replay_tests=""):
    root = core.make_scratch("kani")
    by_file = {}
    for n in names:
        t = TWINS[n]
        by_file.setdefault(t["file"], t["module"])
    for rel, mod in by_file.items():
        with open(os.path.join(root, rel), "a") as f:
            f.write(MODULE_SRC[mod].replace("//@REPLAY@", replay_tests if any(TWINS[n]["module"] == mod for n in names) else ""))
    return root


def _parse_playback(out, harness):
    """concrete values printed by `--concrete-playback=print` for one harness: list of byte lists, in kani::any() order"""
    m = re.search(r"Concrete playback unit test for `[^`]*" + re.escape(harness) + r"`:\s*```(.*?)```", out, re.S)
    if not m:
        return None
    vals = []
    for v in re.findall(r"vec!\[([0-9,\s]*)\],", m.group(1).split("concrete_vals", 1)[1]):
        vals.append([int(x) for x in v.replace(" ", "").split(",") if x != ""])
    return vals


def _decode(inputs, vals):
    """byte lists -> Rust literals per declared input (arrays consume one value per element)"""
    out, i = [], 0
    for name, ty in inputs:
        m = re.fullmatch(r"\[u8; (\d+)\]", ty)
        if m:
            k = int(m.group(1))
            out.append((name, "[" + ", ".join(str(vals[i + j][0]) for j in range(k)) + "]"))
            i += k
        elif ty == "usize":
            out.append((name, str(int.from_bytes(bytes(vals[i]), "little")) + "usize"))
            i += 1
        else:
            raise ValueError(ty)
    return out


def run_twins(names, timeout=1500):
    """Runs the Kani harnesses of the named twins on a scratch copy of /repo's working tree.
    Returns {unit: {status: proved|failed|error, seconds, detail, cex: {name: literal}, replay_src}}"""
    res = {}
    if not names:
        return res
    root = _prepare(names)
    env = core.offline_env()
    env["CARGO_TARGET_DIR"] = KANI_TARGET
    for n in names:
        t = TWINS[n]
        t0 = time.time()
        try:
            r = subprocess.run(["cargo", "kani", "--harness", t["harness"], "-Z", "concrete-playback", "--concrete-playback=print"],
                               cwd=root, env=env, capture_output=True, text=True, timeout=timeout)
            out = r.stdout + "\n" + r.stderr
        except subprocess.TimeoutExpired:
            res[n] = {"status": "error", "seconds": round(time.time() - t0, 1), "detail": "cargo kani timed out"}
            continue
        secs = round(time.time() - t0, 1)
        if "VERIFICATION:- SUCCESSFUL" in out:
            checks = re.search(r"\*\* 0 of (\d+) failed", out)
            res[n] = {"status": "proved", "seconds": secs, "detail": f"CBMC: 0 of {checks.group(1) if checks else '?'} checks failed"}
        elif "VERIFICATION:- FAILED" in out:
            failed = re.findall(r"Failed Checks: (.*)", out)
            vals = _parse_playback(out, t["harness"])
            cex, src = None, None
            if vals:
                try:
                    dec = _decode(t["inputs"], vals)
                    cex = dict(dec)
                    args = ", ".join(v for _n, v in dec)
                    fname = "replay_" + re.sub(r"\W", "_", n)
                    src = f"\n    #[test]\n    fn {fname}() {{ {t['check']}({args}); }}\n"
                except Exception as e:      # playback format not understood: the failure stands, without a concrete input
                    cex = None
                    src = None
            res[n] = {"status": "failed", "seconds": secs, "detail": "; ".join(failed)[:600], "cex": cex, "replay_src": src}
        else:
            res[n] = {"status": "error", "seconds": secs, "detail": out[-1200:]}
    return res


def replay(names_src):
    """names_src: {unit: replay test source}.  Builds the twin module with the replay tests and runs them with `cargo test` (stable
    toolchain, the real code).  Returns (log, {unit: reproduced?})"""
    names = list(names_src)
    root = _prepare(names, replay_tests="\n".join(names_src.values()))
    env = core.offline_env()
    env["CARGO_TARGET_DIR"] = REPLAY_TARGET
    env["RUST_BACKTRACE"] = "0"
    r = subprocess.run(["cargo", "test", "--offline", "--lib", "verif_kani::replay_", "--", "--test-threads", "4"], cwd=root, env=env,
                       capture_output=True, text=True, timeout=1800)
    log = r.stdout + "\n" + r.stderr
    out = {}
    for n in names:
        fname = "replay_" + re.sub(r"\W", "_", n)
        out[n] = re.search(fname + r"[^\n]*FAILED", log) is not None and "TWIN-VIOLATION" in log
    keep = [l for l in log.splitlines() if "TWIN-VIOLATION" in l or re.match(r"test \S+ \.\.\. ", l)]
    return "\n".join(keep)[:3000] + "\n...\n" + log[-800:], out

"""Memo-cache contracts (ghost-state rule) for the ring/trace checker.

A function that consults a STORE that outlives the call (a `static` with interior mutability, a `Mutex`/`RefCell`/... field of `self`) and
leaves early on a hit is a memoised function.  Its contract is the contract of its MISS path, provided the cache is sound:

    store invariant:  every entry was inserted under key K(args') by a call whose miss path computed V(args')
    hit for K(args):  the function answers V(args') for some args' with K(args') == K(args)
    sound  <=>        every input the miss path depends on is determined by the key

With hashes / tuples / byte encodings treated as injective, "determined by the key" is: the input flows into the key expression.  The rule
is decided syntactically on the real AST (after the helper functions that touch the store are resolved):

  * cache statements (anything that mentions a store or a local derived from one) are REMOVED from the function before the ordinary
    symbolic run - the run then computes the miss path, which is the function's meaning if the cache is sound;
  * for every lookup-guarded early exit, `uses(miss path) - deps(key)` over the function's independent inputs must be empty, otherwise the
    obligation `<unit>.memo_cache[<store>].key_covers_inputs` FAILS, naming the omitted inputs (a two-call history exhibits it: the second call
    differs from the first only in an omitted input).

deps(key) is over-approximated (flow-insensitive def-use closure), uses(miss) is taken from explicit mentions only (function body plus one
level of `self.method(..)` helpers): both choices err on the side of NOT raising an alarm."""
import json
import os
import re
import subprocess

INTERIOR = ("Mutex", "RwLock", "RefCell", "OnceLock", "OnceCell", "LazyLock", "Cell <", "Cell<", "AtomicPtr", "thread_local")
INSERTS = {"insert", "push", "push_back", "push_front", "extend", "entry", "or_insert", "or_insert_with", "append"}
LOOKUPS = {"contains", "contains_key", "get", "get_mut", "binary_search", "position", "any", "find", "iter"}
# fields that are FUNCTIONS of the other fields (set by the type's constructor from its arguments): not independent inputs
DERIVED_FIELDS = {"Verifier": {"public_input_roots", "domain", "transcript"},
                  "Prover": {"transcript", "domain", "quotient_domain", "sigma_evaluations", "vanishing_coset_inverses", "vanishing_evaluations"}}


def _walk(node):
    if isinstance(node, dict):
        yield node
        for v in node.values():
            yield from _walk(v)
    elif isinstance(node, list):
        for v in node:
            yield from _walk(v)


def _self_fields(node):
    """`self.f` field expressions mentioned in a node"""
    out = set()
    for n in _walk(node):
        if n.get("k") == "field" and isinstance(n.get("e"), dict) and n["e"].get("k") == "path" and n["e"].get("segs") == ["self"]:
            out.add(n["member"].strip())
    return out


def _names(node):
    """single-segment path names mentioned in a node (locals, params, statics)"""
    out = set()
    for n in _walk(node):
        if n.get("k") == "path" and len(n.get("segs", [])) == 1:
            out.add(n["segs"][0])
        if n.get("k") == "path" and len(n.get("segs", [])) >= 2:
            out.add(n["segs"][-1])       # `module::STATIC`
        if n.get("k") == "macro" and "tokens" in n:
            out |= set(re.findall(r"[A-Za-z_][A-Za-z0-9_]*", n["tokens"]))
    return out


def _pat_names(pat):
    k = pat.get("k") if isinstance(pat, dict) else None
    if k == "ident":
        return [pat["name"]]
    if k in ("tuple", "slice", "tuple_struct"):
        return [n for p in pat["elems"] for n in _pat_names(p)]
    if k in ("typed", "ref"):
        return _pat_names(pat["pat"])
    if k == "struct":
        return [n for f in pat["fields"] for n in _pat_names(f["pat"])]
    return []


class FileStores:
    """stores visible in one source file: module-level statics and interior-mutability fields of its structs"""

    def __init__(self, index):
        self.statics = set()
        self.fields = {}          # struct name -> set of store fields
        self.all_fields = {}      # struct name -> list of fields
        for it in index:
            if it["kind"] == "static" and any(t in it.get("ty", "") for t in INTERIOR):
                self.statics.add(it["path"].split("::")[-1])
            if it["kind"] == "struct":
                nm = it["path"].split("::")[-1]
                self.all_fields[nm] = [f["name"] for f in it.get("fields", [])]
                sf = {f["name"] for f in it.get("fields", []) if any(t in f.get("ty", "") for t in INTERIOR)}
                if sf:
                    self.fields[nm] = sf

    def any(self):
        return bool(self.statics or self.fields)


def _nested_statics(body):
    out = set()
    for n in _walk(body):
        if n.get("k") == "item" and isinstance(n.get("item"), dict) and n["item"].get("kind") == "static" \
                and any(t in n["item"].get("ty", "") for t in INTERIOR):
            out.add(n["item"]["name"])
    return out


class Plan:
    def __init__(self):
        self.skip = set()         # ids (span tuples) of statements to leave out of the symbolic run
        self.lookups = []         # {"store":.., "key_nodes":[..], "stmt":..}
        self.inserts = []
        self.stores = set()
        self.tainted = set()


def _mentions(node, statics, store_fields, tainted, accessors=frozenset()):
    nm = _names(node)
    if nm & statics or nm & tainted:
        return True
    if _self_fields(node) & store_fields:
        return True
    if accessors:
        for n in _walk(node):
            if n.get("k") == "call" and isinstance(n.get("f"), dict) and n["f"].get("k") == "path" and n["f"]["segs"][-1] in accessors:
                return True
            if n.get("k") == "mcall" and n.get("m") in accessors and isinstance(n.get("recv"), dict) and n["recv"].get("k") == "path" \
                    and n["recv"].get("segs") in (["self"], ["Self"]):
                return True
    return False


def neutralise(ast, fs, owner_type, accessors=frozenset()):
    """Returns a Plan for one function AST: which statements belong to a memo cache (and are skipped), the lookups and inserts found."""
    plan = Plan()
    body = ast.get("body")
    if not isinstance(body, dict):
        return plan
    statics = set(fs.statics) | _nested_statics(body)
    store_fields = set(fs.fields.get(owner_type or "", set()))
    if not statics and not store_fields and not accessors:
        return plan
    if not _mentions(body, statics, store_fields, set(), accessors):
        return plan
    stmts = body.get("stmts", [])
    tainted = set()
    cache_stmts = []

    def classify(st):
        k = st.get("k")
        if k == "item":
            it = st.get("item", {})
            if it.get("kind") in ("static", "type", "use"):
                return "decl"
            return None
        node = st.get("init") if k == "let" else (st.get("expr") if k == "expr" else st)
        if node is None:
            return None
        if not _mentions(st, statics, store_fields, tainted, accessors):
            return None
        if k == "let":
            for n in _pat_names(st["pat"]):
                tainted.add(n)
            return "derive"
        return "use"

    for st in stmts:
        c = classify(st)
        if c:
            cache_stmts.append((st, c))
    if not cache_stmts:
        return plan
    for st, c in cache_stmts:
        plan.skip.add(tuple(st.get("span") or ()))
        if c != "use":
            continue
        e = st.get("expr", st)
        which = sorted((_names(e) & statics) | (_self_fields(e) & store_fields) | (_names(e) & tainted))
        if not which:
            which = sorted({n["f"]["segs"][-1] for n in _walk(e) if n.get("k") == "call" and isinstance(n.get("f"), dict) and n["f"].get("k") == "path"
                            and n["f"]["segs"][-1] in accessors} | {n["m"] for n in _walk(e) if n.get("k") == "mcall" and n.get("m") in accessors})
        store = which[0] if which else "?"
        has_exit = any(n.get("k") == "return" for n in _walk(e))
        ins = [n for n in _walk(e) if n.get("k") == "mcall" and n.get("m") in INSERTS and n.get("args")]
        ins += [n for n in _walk(e) if (n.get("k") == "call" and isinstance(n.get("f"), dict) and n["f"].get("k") == "path" and n["f"]["segs"][-1] in accessors
                                        or n.get("k") == "mcall" and n.get("m") in accessors) and not any(x.get("k") == "return" for x in _walk(e))]
        if e.get("k") == "if" and has_exit and not ins:
            cond = e.get("cond")
            plan.lookups.append({"store": store, "cond": cond, "stmt": st})
        elif ins:
            plan.inserts.append({"store": store, "calls": ins, "stmt": st})
    plan.stores = statics | store_fields
    plan.tainted = tainted
    # ---- dead code after the removal: locals that only fed the cache
    live_stmts = [st for st in stmts if tuple(st.get("span") or ()) not in plan.skip]
    changed = True
    while changed:
        changed = False
        used = set()
        for st in live_stmts:
            node = st.get("init") if st.get("k") == "let" else st
            used |= _names(node) if st.get("k") != "let" else (_names(st.get("init")) | _names(st.get("else")))
        tail_names = set()
        for st in list(live_stmts):
            if st.get("k") == "let" and st.get("init") is not None:
                bound = set(_pat_names(st["pat"]))
                others = set()
                for st2 in live_stmts:
                    if st2 is st:
                        continue
                    others |= _names(st2.get("init") if st2.get("k") == "let" else st2) | (_names(st2.get("else")) if st2.get("k") == "let" else set())
                if bound and not (bound & others) and _only_feeds_cache(bound, cache_stmts):
                    plan.skip.add(tuple(st.get("span") or ()))
                    live_stmts.remove(st)
                    plan.tainted |= bound
                    changed = True
        # expression statements that only mutate a dead local (`state.update(..)`, `xs.for_each(|..| state.update(..))`)
        dead = set(plan.tainted)
        for st in list(live_stmts):
            if st.get("k") == "expr" and st.get("semi") and (_names(st) & dead) and not any(n.get("k") in ("return",) for n in _walk(st)):
                plan.skip.add(tuple(st.get("span") or ()))
                live_stmts.remove(st)
                changed = True
    return plan


def _only_feeds_cache(bound, cache_stmts):
    for st, _c in cache_stmts:
        if _names(st) & bound:
            return True
    return False


def key_nodes(lookup, plan, ast):
    """the expressions a lookup is keyed by: the arguments of the lookup call(s) in its condition"""
    cond = lookup["cond"]
    out = []
    for n in _walk(cond):
        if n.get("k") in ("mcall", "call") and n.get("args"):
            out += n["args"]
    return out or [cond]


def deps_of(nodes, ast, resolve_helper, params, depth=0, before=None, skip=frozenset()):
    """over-approximated set of inputs (params and `self.f`) flowing into the given expressions; only statements BEFORE the lookup (and not
    themselves cache statements) can have contributed to the key"""
    body = ast["body"]
    stmts = [st for st in body.get("stmts", []) if tuple(st.get("span") or ()) not in skip
             and (before is None or (st.get("span") or [0])[0] < before)]
    seen_locals = set()
    out_params, out_fields = set(), set()
    work = []
    for nd in nodes:
        work.append(nd)
    while work:
        nd = work.pop()
        out_fields |= _self_fields(nd)
        for name in _names(nd):
            if name in params:
                out_params.add(name)
            elif name not in seen_locals:
                seen_locals.add(name)
                for st in stmts:
                    if st.get("k") == "let" and name in _pat_names(st["pat"]):
                        if st.get("init") is not None:
                            work.append(st["init"])
                    elif st.get("k") != "let" and name in _names(st):
                        work.append(st)           # any statement that mentions the local may have mutated it
        # helper calls: the callee's own field uses count (one level)
        for n in _walk(nd):
            if n.get("k") == "mcall" and isinstance(n.get("recv"), dict) and n["recv"].get("k") == "path" and n["recv"].get("segs") == ["self"] and depth < 2:
                h = resolve_helper(n["m"])
                if h is not None:
                    out_fields |= _self_fields(h.get("body"))
                else:
                    out_fields.add("*")
    return out_params, out_fields


def uses_of_miss_path(ast, plan, resolve_helper, params):
    body = ast["body"]
    up, uf = set(), set()
    for st in body.get("stmts", []):
        if tuple(st.get("span") or ()) in plan.skip:
            continue
        uf |= _self_fields(st)
        up |= (_names(st) & set(params))
        for n in _walk(st):
            if n.get("k") == "mcall" and isinstance(n.get("recv"), dict) and n["recv"].get("k") == "path" and n["recv"].get("segs") == ["self"]:
                h = resolve_helper(n["m"])
                if h is not None:
                    uf |= _self_fields(h.get("body"))
    return up, uf


def direct_store_use(ast, fs, owner_type):
    """does the body itself touch a store (a static / interior-mutability field), not through helpers?"""
    body = ast.get("body")
    if not isinstance(body, dict):
        return False
    statics = set(fs.statics) | _nested_statics(body)
    return _mentions(body, statics, set(fs.fields.get(owner_type or "", set())), set())


def analyse(ast, fs, owner_type, resolve_helper, accessors=frozenset()):
    """findings for one function: list of {store, missing_params, missing_fields}; plus the Plan"""
    plan = neutralise(ast, fs, owner_type, accessors)
    findings = []
    # accessor helpers that reach a store FIELD of self (per-object cache) rather than a static
    per_object_accessors = set()
    for acc in accessors:
        h = resolve_helper(acc)
        if h is not None and (_self_fields(h.get("body")) & set(fs.fields.get(owner_type or "", set()))):
            per_object_accessors.add(acc)
    if not plan.lookups:
        return plan, findings
    params = [n for p in ast["sig"]["params"] if not p.get("recv") for n in _pat_names(p["pat"])]
    up, uf = uses_of_miss_path(ast, plan, resolve_helper, params)
    derived = DERIVED_FIELDS.get(owner_type or "", set())
    uf = {f for f in uf if f not in derived and f not in plan.stores}
    store_fields = set(fs.fields.get(owner_type or "", set()))
    for lk in plan.lookups:
        before = (lk["stmt"].get("span") or [None])[0]
        # the statements that build the key were removed with the cache (dead code): they are still the key's definition
        kp, kf = deps_of(key_nodes(lk, plan, ast), ast, resolve_helper, set(params), before=before,
                         skip=frozenset(tuple(x["stmt"].get("span") or ()) for x in plan.lookups + plan.inserts))
        miss_p = sorted(up - kp)
        miss_f = [] if "*" in kf else sorted(uf - kf)
        per_object = lk["store"] in store_fields or lk["store"] in per_object_accessors
        if per_object:
            miss_f = []          # a cache held IN the object is implicitly keyed by the object: its own (immutable through &self) fields need no key
        findings.append({"store": lk["store"], "missing_params": miss_p, "missing_fields": miss_f,
                         "key_params": sorted(kp), "key_fields": sorted(kf), "used_params": sorted(up), "used_fields": sorted(uf)})
    return plan, findings

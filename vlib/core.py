"""Shared machinery: scratch copies of /repo, the Verus driver, diagnostics classification."""
import atexit
import hashlib
import json
import os
import shutil
import subprocess
import sys
import tempfile
import time

VERIF = os.path.dirname(os.path.dirname(os.path.abspath(__file__)))
REPO = os.environ.get("VERIF_REPO", "/repo")
CACHE = os.path.join(VERIF, ".cache")
ARGS_FILE = os.path.join(CACHE, "plonk-rustc-args.txt")
LOCK_HASH_FILE = os.path.join(CACHE, "plonk-lock.sha256")
VERUS_TARGET = os.path.join(CACHE, "verus-target")
WRAPPER = os.path.join(VERIF, "tools", "rustc_capture_wrapper.sh")
VERUS_TOOLCHAIN = "1.98.1"

_scratches = []


def _cleanup():
    for d in _scratches:
        shutil.rmtree(d, ignore_errors=True)


atexit.register(_cleanup)


def log(*a):
    print(*a, file=sys.stderr, flush=True)


def offline_env():
    env = dict(os.environ)
    env["CARGO_NET_OFFLINE"] = "true"
    return env


def make_scratch(tag, keep=False):
    """Fresh copy of /repo's current working tree (sources + manifests only), outside /repo and /verif."""
    d = tempfile.mkdtemp(prefix=f"verif-{tag}-", dir=os.environ.get("VERIF_SCRATCH_BASE", "/tmp"))
    for name in ["Cargo.toml", "Cargo.lock", "README.md", "rust-toolchain.toml", "rustfmt.toml"]:
        p = os.path.join(REPO, name)
        if os.path.exists(p):
            shutil.copy2(p, os.path.join(d, name))
    for name in ["src", "tests", "examples", "benches"]:
        p = os.path.join(REPO, name)
        if os.path.isdir(p):
            shutil.copytree(p, os.path.join(d, name))
    if not keep:
        _scratches.append(d)
    return d


def lock_hash():
    h = hashlib.sha256()
    for name in ["Cargo.lock", "Cargo.toml"]:
        p = os.path.join(REPO, name)
        if os.path.exists(p):
            with open(p, "rb") as f:
                h.update(f.read())
    return h.hexdigest()


def ensure_verus_deps():
    """Dependency rlibs built with Verus' toolchain + the captured rustc command line of the crate.
    Rebuilt whenever /repo's Cargo.toml / Cargo.lock change."""
    want = lock_hash()
    if os.path.exists(ARGS_FILE) and os.path.exists(LOCK_HASH_FILE):
        if open(LOCK_HASH_FILE).read().strip() == want:
            return
    log("[setup] building dependency rlibs with toolchain", VERUS_TOOLCHAIN)
    os.makedirs(CACHE, exist_ok=True)
    d = make_scratch("deps")
    env = offline_env()
    env["VERIF_CAPTURE"] = ARGS_FILE
    env["RUSTC_WORKSPACE_WRAPPER"] = WRAPPER
    env["CARGO_TARGET_DIR"] = VERUS_TARGET
    if os.path.exists(ARGS_FILE):
        os.remove(ARGS_FILE)
    # force the crate itself to be re-run so that its command line is captured
    r = subprocess.run(["cargo", "+" + VERUS_TOOLCHAIN, "build", "--lib", "--offline"], cwd=d, env=env,
                       capture_output=True, text=True)
    if r.returncode != 0 or not os.path.exists(ARGS_FILE):
        # maybe cargo considered the crate fresh: touch and retry once
        subprocess.run(["cargo", "+" + VERUS_TOOLCHAIN, "clean", "-p", "dusk-plonk", "--offline"], cwd=d, env=env,
                       capture_output=True, text=True)
        r = subprocess.run(["cargo", "+" + VERUS_TOOLCHAIN, "build", "--lib", "--offline"], cwd=d, env=env,
                           capture_output=True, text=True)
    if r.returncode != 0 or not os.path.exists(ARGS_FILE):
        log(r.stderr[-4000:])
        raise RuntimeError("dependency build for Verus failed")
    with open(LOCK_HASH_FILE, "w") as f:
        f.write(want)
    shutil.rmtree(d, ignore_errors=True)


def verus_cmd(root, extra=()):
    a = [x for x in open(ARGS_FILE).read().split("\n") if x != ""]
    out = []
    i = 0
    while i < len(a):
        x = a[i]
        if x.startswith("--json") or x.startswith("--emit") or x.startswith("--error-format"):
            i += 1
            continue
        if x == "--out-dir":
            i += 2
            continue
        if x == "-C" and i + 1 < len(a) and a[i + 1].split("=")[0] in ("incremental", "embed-bitcode", "debuginfo", "metadata", "extra-filename"):
            i += 2
            continue
        out.append(x)
        i += 1
    return ["verus"] + out + ["--error-format=json", "--output-json", "--time-expanded",
                              "--cap-lints=warn", "--check-cfg", "cfg(verus_keep_ghost)", "--check-cfg", "cfg(verus_keep_ghost_body)"] + list(extra)


VIOLATION_MARKERS = [
    "postcondition not satisfied",
    "precondition not satisfied",
    "invariant not satisfied",
    "assertion failed",
    "possible arithmetic underflow/overflow",
    "possible division by zero",
    "possible bit shift underflow/overflow",
    "decreases not satisfied",
    "could not prove termination",
    "unreachable",
    "failed to prove",
    "function body check",
    "cannot show invariant holds",
    "not all errors may have been reported",
]
UNDECIDED_MARKERS = [
    "Resource limit (rlimit) exceeded",
    "rlimit",
]


def classify(msg):
    m = msg
    for u in UNDECIDED_MARKERS:
        if u in m:
            return "undecided"
    for v in VIOLATION_MARKERS:
        if v in m:
            return "violation"
    return "tool"  # compile error / unsupported construct / anything else -> undecided


def run_verus(root, rlimit=None, extra=(), num_threads=None, timeout=1500):
    cmd = verus_cmd(root, extra)
    if rlimit:
        cmd += ["--rlimit", str(rlimit)]
    if num_threads:
        cmd += ["--num-threads", str(num_threads)]
    cmd += ["--multiple-errors", "40"]
    t = time.time()
    try:
        r = subprocess.run(cmd, cwd=root, capture_output=True, text=True, timeout=timeout, env=offline_env())
    except subprocess.TimeoutExpired:
        return {"timeout": True, "cmd": cmd, "wall": time.time() - t, "diags": [], "summary": None, "stderr": ""}
    wall = time.time() - t
    summary = None
    try:
        # stdout holds the --output-json document
        js = r.stdout[r.stdout.index("{"):]
        summary = json.loads(js)
    except Exception:
        summary = None
    diags = []
    for line in r.stderr.splitlines():
        line = line.strip()
        if not line.startswith("{"):
            continue
        try:
            d = json.loads(line)
        except Exception:
            continue
        if d.get("$message_type") not in (None, "diagnostic"):
            continue
        if "message" not in d:
            continue
        diags.append(d)
    return {"timeout": False, "cmd": cmd, "wall": wall, "diags": diags, "summary": summary, "stderr": r.stderr,
            "returncode": r.returncode}


def diag_errors(res):
    """Errors (level error) with their spans, skipping the trailing 'aborting due to' summary."""
    out = []
    for d in res["diags"]:
        if d.get("level") != "error":
            continue
        msg = d.get("message", "")
        if msg.startswith("aborting due to") or msg.startswith("could not compile"):
            continue
        out.append(d)
    return out

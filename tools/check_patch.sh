#!/bin/sh
# check_patch.sh <patch.diff> <property>...: run checks against (clean export of /repo HEAD + patch) WITHOUT touching /repo's working tree
P="$1"; shift
D=/tmp/repo-patched-$$; rm -rf $D; mkdir $D; git -C /repo archive HEAD | tar -x -C $D; cp /repo/Cargo.lock $D/ 2>/dev/null
( cd $D && git init -q . 2>/dev/null; git apply "$P" ) || { echo "patch does not apply"; rm -rf $D; exit 9; }
cd /verif
for p in "$@"; do
  VERIF_NO_REPLAY=${VERIF_NO_REPLAY-1} VERIF_REPO=$D VERIF_EVIDENCE_DIR=/verif/.cache/seed-evidence ./check $p 2>/dev/null | grep -E "^(OK|VIOLATION|UNDECIDED)" | head -4 | cut -c1-${CUT:-260}
done
rm -rf $D

#!/usr/bin/env python3
"""run_isolated.py seeds|refactors [-j N] [id-substring...]
Parallel regression of the machinery that never touches /repo's working tree: for every stored patch a clean export of /repo's HEAD is made
under /tmp, the patch is applied there and the checks run with VERIF_REPO pointing at that copy (evidence goes to a scratch directory).
  seeds:     seeded/<id>/patch.diff, ./check <property>, verdict compared with meta.json `detected_by_check`
  refactors: refactors/<k>/patch.diff (behaviour-preserving), the checks of tools/run_refactors.py's MAP; a VIOLATION is a FALSE ALARM."""
import concurrent.futures as cf
import json
import os
import re
import shutil
import subprocess
import sys
import tempfile

V = "/verif"


def export_clean():
    d = tempfile.mkdtemp(prefix="verif-iso-", dir="/tmp")
    subprocess.run(f"git -C /repo archive HEAD | tar -x -C {d}", shell=True, check=True)
    if os.path.exists("/repo/Cargo.lock"):
        shutil.copy2("/repo/Cargo.lock", d)
    return d


def run_one(job):
    kind, ident, patch, pids, expect = job
    d = export_clean()
    try:
        a = subprocess.run(["git", "apply", patch], cwd=d, capture_output=True, text=True)
        if a.returncode != 0:
            return (kind, ident, None, expect, "patch-does-not-apply", "")
        out = []
        for pid in pids:
            r = subprocess.run([f"{V}/check", pid], capture_output=True, text=True, cwd=V,
                               env=dict(os.environ, VERIF_NO_REPLAY="1", VERIF_REPO=d, VERIF_EVIDENCE_DIR=f"{V}/.cache/seed-evidence/{kind}-{ident}",
                                        VERIF_SCRATCH_BASE="/tmp"))
            first = next((l for l in r.stdout.splitlines() if l.startswith(("VIOLATION", "UNDECIDED", "OK"))), "")[:150]
            out.append((pid, r.returncode, first))
        return (kind, ident, out, expect, None, "")
    finally:
        shutil.rmtree(d, ignore_errors=True)
        shutil.rmtree(f"{V}/.cache/seed-evidence/{kind}-{ident}", ignore_errors=True)


def main():
    args = sys.argv[1:]
    kind = args.pop(0)
    j = 4
    if "-j" in args:
        i = args.index("-j")
        j = int(args[i + 1])
        del args[i:i + 2]
    sel = args
    jobs = []
    if kind == "seeds":
        for sid in sorted(os.listdir(f"{V}/seeded")):
            p = f"{V}/seeded/{sid}/patch.diff"
            if not os.path.exists(p) or (sel and not any(s in sid for s in sel)):
                continue
            meta = json.load(open(f"{V}/seeded/{sid}/meta.json"))
            jobs.append(("seed", sid, p, [meta["property"]], meta.get("detected_by_check")))
    else:
        src = open(f"{V}/tools/run_refactors.py").read()
        m = re.search(r"MAP = (\{.*?\})\nif len", src, re.S)
        MAP = eval(re.sub(r"#.*", "", m.group(1)))
        for k in sorted(MAP, key=int):
            p = f"{V}/refactors/{k}/patch.diff"
            if not os.path.exists(p) or (sel and k not in sel):
                continue
            jobs.append(("refactor", k, p, MAP[k], "no-violation"))
    bad = 0
    with cf.ThreadPoolExecutor(max_workers=j) as ex:
        for kind_, ident, out, expect, err, _ in ex.map(run_one, jobs):
            if err:
                print(f"{kind_} {ident}: {err}", flush=True)
                bad += 1
                continue
            for pid, rc, first in out:
                got = {0: "no", 1: "yes", 2: "undecided"}.get(rc, f"exit{rc}")
                if kind_ == "seed":
                    flag = "" if got == expect else "   <== DIFFERS from meta.json"
                    bad += 1 if flag else 0
                    print(f"{ident} {pid} expected {expect} got {got}{flag} | {first}", flush=True)
                else:
                    flag = "   <== FALSE ALARM" if rc == 1 else ""
                    bad += 1 if flag else 0
                    print(f"R{ident} {pid} exit={rc}{flag} {first}", flush=True)
    print(f"{len(jobs)} patches, {bad} unexpected")
    sys.exit(1 if bad else 0)


main()

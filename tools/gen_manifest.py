#!/usr/bin/env python3
"""Generate /verif/MANIFEST.json from specs/props.py."""
import json, os, sys
sys.path.insert(0, os.path.dirname(os.path.dirname(os.path.abspath(__file__))))
from vlib import runner, core
props = runner.load_py(os.path.join(core.VERIF, "specs", "props.py"))
ids = [json.loads(l)["id"] for l in open(os.path.join(core.VERIF, "properties.jsonl"))]
checks = []
for pid in ids:
    if pid not in props.PROPS:
        continue
    c = props.PROPS[pid]
    checks.append({
        "property_id": pid,
        "quick_cmd": f"./check {pid} --tier quick",
        "thorough_cmd": f"./check {pid} --tier thorough",
        "evidence_file": f"/verif/evidence/{pid}.json",
        "replay_cmd_template": f"./check {pid} --replay {{path}}",
        "engine": "contracts",
        "level_claimed": {"category": "proof", "text": c["claim"], "design_ref": c.get("design_ref", "DESIGN.md §4")},
        "level_note": c["level_note"],
        "technique": c["technique"],
    })
na = []
for pid in ids:
    if pid in props.PROPS:
        continue
    na.append({"property_id": pid, "reason": props.NA.get(pid, props.NOT_YET)})
m = {
    "version": 1,
    "setup_cmd": "./setup.sh",
    "hooks": {
        "guard": "dusk_plonk_verif",
        "enable": "no hooks in /repo: contracts, spec module, harnesses and replay tests are overlaid on a scratch copy of /repo's working tree at check time",
        "baseline_off_cmd": "cd /repo && cargo test --workspace --no-fail-fast --offline",
        "source_commits": [],
        "add_only": True,
    },
    "engines": [
        {"name": "contracts", "path": "/verif/check", "serves_properties": [c["property_id"] for c in checks],
         "kind_free_text": "contract-based deductive verification of the real code: V = Verus in place via annotation overlay; "
                           "R = ring/trace contract checker (own VC generator + exact polynomial normal form); K = Kani (cex twin / bounded stand-in)"},
    ],
    "checks": checks,
    "not_applicable": na,
    "notes": "exit 0 = all obligations discharged; exit 1 = VIOLATION line(s); exit 2 = UNDECIDED (tool limit / lost anchor), never an alarm. See DESIGN.md.",
}
with open(os.path.join(core.VERIF, "MANIFEST.json"), "w") as f:
    json.dump(m, f, indent=1)
print("MANIFEST.json:", len(checks), "checks,", len(na), "not_applicable")

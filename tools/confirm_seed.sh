#!/bin/sh
# confirm_seed.sh <worktree> <n> : independently re-check a seeded change produced by a sub-agent:
#  (1) patch applies, crate compiles and the FULL existing suite passes with it; (2) demo fails with it; (3) demo passes without it.
# Writes <worktree>/SEEDED/<n>/confirm.log and prints a one-line verdict.
WT="$1"; N="$2"; D="$WT/SEEDED/$N"
export CARGO_NET_OFFLINE=true CARGO_TARGET_DIR="$WT/target"
cd "$WT" || exit 9
git checkout -q -- . ; git clean -fdq -e SEEDED -e target >/dev/null 2>&1
LOG="$D/confirm.log"; : > "$LOG"
git apply --check "$D/patch.diff" >>"$LOG" 2>&1 || { echo "SEED $WT/$N: patch does not apply"; exit 1; }
git apply "$D/patch.diff"
echo "== suite with patch" >>"$LOG"
cargo test --workspace --no-fail-fast --offline -- --test-threads 6 >>"$LOG" 2>&1; SUITE=$?
echo "suite exit=$SUITE" >>"$LOG"
echo "== demo with patch" >>"$LOG"
DEMO_WITH=skipped
if [ -f "$D/demo.sh" ]; then ( bash "$D/demo.sh" ) >>"$LOG" 2>&1; DEMO_WITH=$?; fi
git checkout -q -- . ; git clean -fdq -e SEEDED -e target >/dev/null 2>&1
echo "== demo without patch" >>"$LOG"
DEMO_WITHOUT=skipped
if [ -f "$D/demo.sh" ]; then ( bash "$D/demo.sh" ) >>"$LOG" 2>&1; DEMO_WITHOUT=$?; fi
git checkout -q -- . ; git clean -fdq -e SEEDED -e target >/dev/null 2>&1
echo "SEED $WT/$N: suite_with_patch_exit=$SUITE demo_with_patch_exit=$DEMO_WITH demo_without_patch_exit=$DEMO_WITHOUT" | tee -a "$LOG"

#!/usr/bin/env python3
"""Developer loop: apply overlay unit files to a scratch copy and run Verus, printing rendered diagnostics.
usage: try_verus.py [--vacuity] [--keep] [--rlimit N] unit1.py [unit2.py ...]"""
import sys, os, importlib.util, json, time
sys.path.insert(0, os.path.dirname(os.path.dirname(os.path.abspath(__file__))))
from vlib import core, overlay

def load(path):
    spec = importlib.util.spec_from_file_location("u_" + os.path.basename(path)[:-3], path)
    m = importlib.util.module_from_spec(spec); spec.loader.exec_module(m); return m

args = sys.argv[1:]
vac = "--vacuity" in args; keep = "--keep" in args
rl = None
if "--rlimit" in args:
    rl = int(args[args.index("--rlimit") + 1]); args.remove(str(rl))
extra = []
if "--extra" in args:
    i = args.index("--extra"); extra = args[i+1].split(); del args[i:i+2]
files = [a for a in args if a.endswith(".py")]
core.ensure_verus_deps()
root = core.make_scratch("try", keep=keep)
ov = overlay.Overlay(root, vacuity=vac)
for f in files:
    load(f).overlay(ov)
ov.apply(os.path.join(core.VERIF, "specs", "verus"))
res = core.run_verus(root, rlimit=rl, extra=extra)
for d in res["diags"]:
    if d.get("level") in ("error",) or (d.get("level") == "warning" and "--warn" in sys.argv):
        print(d.get("rendered") or d.get("message"))
        for s in d.get("spans", []):
            tag = ov.tag_at(os.path.relpath(s["file_name"], root) if os.path.isabs(s["file_name"]) else s["file_name"], s["byte_start"], s["byte_end"])
            if tag: print("   -> obligation", tag)
if res["summary"]:
    print(json.dumps(res["summary"].get("verification-results")), "wall", round(res["wall"],1))
else:
    print("no summary; stderr tail:", res["stderr"][-2000:])
if keep: print("scratch:", root)

#!/usr/bin/env python3
"""run_refactors.py: apply every stored BEHAVIOUR-PRESERVING edit (refactors/<k>/patch.diff, produced by an independent sub-agent, full
suite green with all of them) to /repo's working tree in turn and run the checks of the properties anchored in the touched
code.  A check may answer OK (0) or UNDECIDED (2); a VIOLATION (1) on any of them is a FALSE ALARM of the machinery."""
import json, os, subprocess, sys
V = "/verif"
MAP = {"1": ["C09", "C10", "C11", "C07"], "2": ["C11", "C10", "C07"], "3": ["C08", "C07"], "4": ["C03", "C02", "C01"], "5": ["C01", "C05", "C06"],
       "6": ["C16"], "7": ["C12", "C13", "C07"], "8": ["C05", "C09", "C03"], "9": ["C20", "C01", "C15"], "10": ["C15", "C01"], "11": ["C19", "C20"],
       "12": ["C16"],
       # batch 2
       "13": ["C09", "C10", "C11"], "14": ["C10", "C07"], "15": ["C08", "C07"], "16": ["C03", "C02"], "17": ["C01", "C05", "C06"], "18": ["C16", "C17"],
       "19": ["C14", "C07", "C13"], "20": ["C10", "C03", "C02"], "21": ["C17", "C16"], "22": ["C15", "C17"], "23": ["C19"], "24": ["C16", "C03"],
       "25": ["C05", "C01"], "26": ["C20"],
       # batch 3 (circuit-building code)
       "27": ["C08", "C07"], "28": ["C08"], "29": ["C09", "C11"], "30": ["C09", "C10"], "31": ["C10", "C07"], "32": ["C10"], "33": ["C11", "C10"], "34": ["C11"],
       # batch 4 (protocol / data plumbing)
       "43": ["C03", "C02"], "44": ["C03", "C02"], "45": ["C06", "C01"], "46": ["C16", "C17"], "47": ["C17", "C01", "C03"], "48": ["C03", "C04"], "49": ["C19"], "50": ["C05"],
       "51": ["C03", "C01", "C05"], "52": ["C16", "C03"], "53": ["C20"], "54": ["C20", "C15", "C01"], "55": ["C05"], "56": ["C19"], "57": ["C19"], "58": ["C05", "C03"],
       "59": ["C16", "C17", "C01"], "60": ["C09", "C07"], "61": ["C04", "C03", "C02"], "62": ["C16", "C17"], "63": ["C08", "C05", "C02"], "64": ["C15", "C17"],
       # batch 5 (functions put under contract in session 2)
       "65": ["C05", "C01"], "66": ["C05"], "67": ["C05", "C01"], "68": ["C02", "C05", "C15"], "69": ["C02", "C01"], "70": ["C05", "C06", "C01"], "71": ["C01", "C04"],
       "72": ["C16", "C17"], "73": ["C20", "C17"], "74": ["C16", "C17"], "75": ["C19"], "76": ["C19"], "77": ["C03", "C19"], "78": ["C08", "C05"], "79": ["C15", "C17"], "80": ["C11", "C10"], "81": ["C20"], "82": ["C15", "C17"], "97": ["C11", "C10"], "98": ["C15"], "99": ["C13"],
       # batch 6 (internals restructured: FFT helpers, shared widget identities, constants, readers)
       "83": ["C19"], "84": ["C19"], "85": ["C19"], "86": ["C01", "C20"], "87": ["C20"], "88": ["C06", "C05"], "89": ["C05", "C01"], "90": ["C01", "C15"], "91": ["C15", "C17"], "92": ["C15", "C17"], "93": ["C04", "C16", "C17"], "94": ["C19"], "95": ["C05", "C02", "C03"], "96": ["C13", "C12", "C09"],
       "35": ["C11", "C09"], "36": ["C11", "C07"], "37": ["C08"], "38": ["C08", "C04"], "39": ["C15", "C17"], "40": ["C15", "C01"], "41": ["C20", "C01"], "42": ["C20", "C15"]}
if len(sys.argv) > 1:
    MAP = {k: v for k, v in MAP.items() if k in sys.argv[1:]}
bad = 0
for k in sorted(os.listdir(f"{V}/refactors"), key=lambda x: int(x) if x.isdigit() else 0):
    d = f"{V}/refactors/{k}"
    if not os.path.exists(f"{d}/patch.diff") or k not in MAP:
        continue
    subprocess.run(["git", "-C", "/repo", "checkout", "-q", "--", "."], check=True); subprocess.run(["git", "-C", "/repo", "clean", "-fdq", "src"], check=True)
    if subprocess.run(["git", "-C", "/repo", "apply", f"{d}/patch.diff"]).returncode != 0:
        print(f"R{k}: patch does not apply"); continue
    try:
        for pid in MAP.get(k, []):
            r = subprocess.run([f"{V}/check", pid], capture_output=True, text=True, cwd=V,
                               env=dict(os.environ, VERIF_NO_REPLAY="1", VERIF_EVIDENCE_DIR="/verif/.cache/seed-evidence"))
            first = next((l for l in r.stdout.splitlines() if l.startswith(("VIOLATION", "UNDECIDED", "OK"))), "")[:140]
            print(f"R{k} {pid} exit={r.returncode} {first}", flush=True)
            if r.returncode == 1:
                bad += 1
    finally:
        subprocess.run(["git", "-C", "/repo", "checkout", "-q", "--", "."], check=True); subprocess.run(["git", "-C", "/repo", "clean", "-fdq", "src"], check=True)
print(f"false alarms: {bad}")
sys.exit(1 if bad else 0)

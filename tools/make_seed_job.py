#!/usr/bin/env python3
"""make_seed_job.py <prefix> <property-id>...: per property a scratch worktree /tmp/<prefix>-<id>, a property file (text of the property + the
list of earlier seeded changes, NOTHING else from /verif) and the agent prompt /tmp/<prefix>-<id>.prompt.txt"""
import json, os, subprocess, sys, glob
prefix, ids = sys.argv[1], sys.argv[2:]
props = {json.loads(l)["id"]: json.loads(l) for l in open("/verif/properties.jsonl")}
tmpl = open("/verif/tools/seed_prompt_template.txt").read()
for pid in ids:
    p = props[pid]
    wt = f"/tmp/{prefix}-{pid}"
    subprocess.run(["git", "-C", "/repo", "worktree", "add", "--detach", "-f", wt, "HEAD"], check=True, capture_output=True)
    earlier = []
    for m in sorted(glob.glob(f"/verif/seeded/{pid}-*/meta.json")):
        earlier.append(" - " + json.load(open(m)).get("what_it_needs_to_manifest", "")[:400])
    txt = (f"{pid} — {p['title']}\n\n{p['statement']}\n\nQuantifier: {p['quantifier']['text']}\n\nWhy tests cannot settle it: {p['why_tests_cant']}\n\n"
           f"Anchor files: {', '.join(p['anchors'].get('files', []))}\n\nEarlier seeded changes for this property (do something DIFFERENT IN KIND, in different "
           f"functions where possible; in particular NOT another cache / memo keyed by an incomplete key, NOT another 'chunks_exact drops the remainder' and NOT "
           f"another 'parallel path above a size threshold'):\n" + "\n".join(earlier) + "\n")
    open(f"{wt}.prop.txt", "w").write(txt)
    open(f"{wt}.prompt.txt", "w").write(tmpl.replace("PROPFILE", f"{wt}.prop.txt").replace("WT", wt))
    print(wt)

#!/bin/sh
# RUSTC_WORKSPACE_WRAPPER used by setup: records the rustc command line of the dusk_plonk lib crate
# (one argument per line) into $VERIF_CAPTURE and then runs the real rustc unchanged.
rustc="$1"; shift
if [ -n "$VERIF_CAPTURE" ]; then
  case " $* " in
    *" --crate-name dusk_plonk "*)
      case " $* " in
        *" --test "*) : ;;
        *) printf '%s\n' "$@" > "$VERIF_CAPTURE" ;;
      esac ;;
  esac
fi
exec "$rustc" "$@"

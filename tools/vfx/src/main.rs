//! vfx — span index and AST dump of real Rust source files (syn 2).
//!
//! `vfx index <file>`            JSON: every fn / struct / enum / const / impl item with byte spans,
//!                               loops and closures of each fn (source order), for the annotation overlay.
//! `vfx ast <file> <fn-path>`    JSON AST of one fn (signature + body) for the ring/trace checker.
//!
//! Nothing here interprets the code; both commands are pure syntax.

use proc_macro2::Span;
use quote::ToTokens;
use serde_json::{json, Value};
use std::env;
use std::fs;
use syn::spanned::Spanned;
use syn::visit::Visit;

fn sp(s: Span) -> Value {
    let r = s.byte_range();
    json!([r.start, r.end])
}
fn sp_of<T: Spanned>(t: &T) -> Value {
    sp(t.span())
}
fn range_of<T: Spanned>(t: &T) -> (usize, usize) {
    let r = t.span().byte_range();
    (r.start, r.end)
}
fn toks<T: ToTokens>(t: &T) -> String {
    t.to_token_stream().to_string()
}

fn attrs_json(attrs: &[syn::Attribute]) -> Value {
    Value::Array(attrs.iter().map(|a| Value::String(toks(a))).collect())
}

// ---------------------------------------------------------------- index

struct LoopCollector {
    loops: Vec<Value>,
    closures: Vec<Value>,
    calls: Vec<Value>,
    macros: Vec<Value>,
    all_stmts: Vec<Value>,
}
impl<'ast> Visit<'ast> for LoopCollector {
    fn visit_expr_for_loop(&mut self, n: &'ast syn::ExprForLoop) {
        let (s, e) = range_of(n);
        let (bs, be) = range_of(&n.body);
        let (ps, pe) = range_of(&n.pat);
        let (es, ee) = range_of(&n.expr);
        self.loops.push(json!({"kind":"for","start":s,"end":e,"body_start":bs,"body_end":be,
            "pat":[ps,pe],"iter":[es,ee],"for_kw":sp(n.for_token.span)}));
        syn::visit::visit_expr_for_loop(self, n);
    }
    fn visit_expr_while(&mut self, n: &'ast syn::ExprWhile) {
        let (s, e) = range_of(n);
        let (bs, be) = range_of(&n.body);
        let (cs, ce) = range_of(&n.cond);
        self.loops.push(json!({"kind":"while","start":s,"end":e,"body_start":bs,"body_end":be,"cond":[cs,ce]}));
        syn::visit::visit_expr_while(self, n);
    }
    fn visit_expr_loop(&mut self, n: &'ast syn::ExprLoop) {
        let (s, e) = range_of(n);
        let (bs, be) = range_of(&n.body);
        self.loops.push(json!({"kind":"loop","start":s,"end":e,"body_start":bs,"body_end":be}));
        syn::visit::visit_expr_loop(self, n);
    }
    fn visit_expr_closure(&mut self, n: &'ast syn::ExprClosure) {
        let (s, e) = range_of(n);
        let (bs, be) = range_of(&*n.body);
        let or2 = n.or2_token.span.byte_range().end;
        self.closures.push(json!({"start":s,"end":e,"body_start":bs,"body_end":be,"header_end":or2,
            "inputs": n.inputs.iter().map(|p| json!({"span":sp_of(p),"text":toks(p)})).collect::<Vec<_>>()}));
        syn::visit::visit_expr_closure(self, n);
    }
    fn visit_expr_call(&mut self, n: &'ast syn::ExprCall) {
        self.calls.push(json!({"kind":"call","callee":toks(&*n.func),"span":sp_of(n)}));
        syn::visit::visit_expr_call(self, n);
    }
    fn visit_expr_method_call(&mut self, n: &'ast syn::ExprMethodCall) {
        self.calls.push(json!({"kind":"method","callee":n.method.to_string(),"span":sp_of(n),
            "method_span":sp(n.method.span())}));
        syn::visit::visit_expr_method_call(self, n);
    }
    fn visit_stmt(&mut self, n: &'ast syn::Stmt) {
        let (s, e) = range_of(n);
        self.all_stmts.push(json!([s, e]));
        syn::visit::visit_stmt(self, n);
    }
    fn visit_macro(&mut self, n: &'ast syn::Macro) {
        self.macros.push(json!({"path":toks(&n.path),"span":sp_of(n)}));
        syn::visit::visit_macro(self, n);
    }
}

fn item_start(attrs: &[syn::Attribute], rest: Span) -> usize {
    let mut s = rest.byte_range().start;
    for a in attrs {
        let r = a.span().byte_range();
        if r.start < s {
            s = r.start;
        }
    }
    s
}

fn fn_entry(
    path: &str,
    attrs: &[syn::Attribute],
    vis: Option<&syn::Visibility>,
    sig: &syn::Signature,
    block: Option<&syn::Block>,
    whole: Span,
    out: &mut Vec<Value>,
) {
    let (ws, we) = {
        let r = whole.byte_range();
        (r.start, r.end)
    };
    let start = item_start(attrs, whole).min(ws);
    let mut lc = LoopCollector { loops: vec![], closures: vec![], calls: vec![], macros: vec![], all_stmts: vec![] };
    let mut stmts = vec![];
    let mut tail = false;
    let (bs, be) = if let Some(b) = block {
        lc.visit_block(b);
        for st in &b.stmts {
            let (s, e) = range_of(st);
            stmts.push(json!([s, e]));
        }
        tail = matches!(b.stmts.last(), Some(syn::Stmt::Expr(_, None)));
        range_of(b)
    } else {
        (we, we)
    };
    let ret = match &sig.output {
        syn::ReturnType::Default => Value::Null,
        syn::ReturnType::Type(arrow, ty) => {
            let (ts, te) = range_of(&**ty);
            json!({"arrow": sp(arrow.spans[0]), "ty":[ts,te], "text": toks(&**ty)})
        }
    };
    let paren_end = sig.paren_token.span.close().byte_range().end;
    let where_span = sig.generics.where_clause.as_ref().map(|w| sp_of(w)).unwrap_or(Value::Null);
    let params: Vec<Value> = sig
        .inputs
        .iter()
        .map(|a| match a {
            syn::FnArg::Receiver(r) => json!({"recv": toks(r), "span": sp_of(r)}),
            syn::FnArg::Typed(t) => json!({"pat": toks(&*t.pat), "ty": toks(&*t.ty), "span": sp_of(t),
                                            "pat_span": sp_of(&*t.pat)}),
        })
        .collect();
    out.push(json!({
        "kind":"fn","path":path,"name":sig.ident.to_string(),
        "start":start,"end":we,"fn_kw":sp(sig.fn_token.span),
        "vis": vis.map(|v| toks(v)).unwrap_or_default(),
        "attrs":attrs_json(attrs),
        "ret":ret,"paren_end":paren_end,"where":where_span,
        "generics": toks(&sig.generics),
        "params":params,
        "body_start":bs,"body_end":be,
        "has_body": block.is_some(),
        "loops":lc.loops,"closures":lc.closures,"calls":lc.calls,"macros":lc.macros,"stmts":stmts,"tail_expr":tail,"all_stmts":lc.all_stmts,
        "constness": sig.constness.is_some(),
    }));
}

fn type_name(ty: &syn::Type) -> String {
    match ty {
        syn::Type::Path(p) => p.path.segments.last().map(|s| s.ident.to_string()).unwrap_or_else(|| toks(ty)),
        syn::Type::Reference(r) => type_name(&r.elem),
        _ => toks(ty).replace(' ', ""),
    }
}

fn index_items(items: &[syn::Item], prefix: &str, out: &mut Vec<Value>) {
    for it in items {
        match it {
            syn::Item::Fn(f) => {
                let p = format!("{}{}", prefix, f.sig.ident);
                fn_entry(&p, &f.attrs, Some(&f.vis), &f.sig, Some(&f.block), f.span(), out);
            }
            syn::Item::Impl(im) => {
                let tn = type_name(&im.self_ty);
                let ip = match &im.trait_ {
                    Some((_, tr, _)) => {
                        let trn = toks(tr).replace(' ', "");
                        format!("{}<{} as {}>::", prefix, tn, trn)
                    }
                    None => format!("{}{}::", prefix, tn),
                };
                let (s, e) = range_of(im);
                let start = item_start(&im.attrs, im.span());
                out.push(json!({"kind":"impl","path":ip.trim_end_matches("::"),"start":start.min(s),"end":e,
                    "brace_start": im.brace_token.span.open().byte_range().start,
                    "brace_end": im.brace_token.span.close().byte_range().end,
                    "attrs":attrs_json(&im.attrs)}));
                for ii in &im.items {
                    match ii {
                        syn::ImplItem::Fn(f) => {
                            let p = format!("{}{}", ip, f.sig.ident);
                            fn_entry(&p, &f.attrs, Some(&f.vis), &f.sig, Some(&f.block), f.span(), out);
                        }
                        syn::ImplItem::Const(c) => {
                            let (s, e) = range_of(c);
                            out.push(json!({"kind":"const","path":format!("{}{}", ip, c.ident),
                                "start":item_start(&c.attrs, c.span()).min(s),"end":e,"text":toks(&c.expr),
                                "ty":toks(&c.ty),"expr_span":sp_of(&c.expr),"expr":expr_json(&c.expr)}));
                        }
                        _ => {}
                    }
                }
            }
            syn::Item::Trait(tr) => {
                let tp = format!("{}{}::", prefix, tr.ident);
                for ti in &tr.items {
                    if let syn::TraitItem::Fn(f) = ti {
                        let p = format!("{}{}", tp, f.sig.ident);
                        fn_entry(&p, &f.attrs, None, &f.sig, f.default.as_ref(), f.span(), out);
                    }
                }
            }
            syn::Item::Mod(m) => {
                if let Some((_, its)) = &m.content {
                    let mp = format!("{}{}::", prefix, m.ident);
                    let (s, e) = range_of(m);
                    out.push(json!({"kind":"mod","path":mp.trim_end_matches("::"),"start":item_start(&m.attrs, m.span()).min(s),
                        "end":e,"attrs":attrs_json(&m.attrs)}));
                    index_items(its, &mp, out);
                }
            }
            syn::Item::Struct(s) => {
                let (a, b) = range_of(s);
                let fields: Vec<Value> = s.fields.iter().map(|f| json!({
                    "name": f.ident.as_ref().map(|i| i.to_string()), "ty": toks(&f.ty), "vis": toks(&f.vis),
                    "span": sp_of(f), "attrs": attrs_json(&f.attrs)})).collect();
                out.push(json!({"kind":"struct","path":format!("{}{}", prefix, s.ident),
                    "start":item_start(&s.attrs, s.span()).min(a),"end":b,"kw":sp(s.struct_token.span),
                    "vis": toks(&s.vis), "fields":fields,"attrs":attrs_json(&s.attrs),
                    "attr_spans": s.attrs.iter().map(|a| sp_of(a)).collect::<Vec<_>>()}));
            }
            syn::Item::Enum(s) => {
                let (a, b) = range_of(s);
                out.push(json!({"kind":"enum","path":format!("{}{}", prefix, s.ident),
                    "start":item_start(&s.attrs, s.span()).min(a),"end":b,"attrs":attrs_json(&s.attrs),
                    "attr_spans": s.attrs.iter().map(|a| sp_of(a)).collect::<Vec<_>>()}));
            }
            syn::Item::Const(c) => {
                let (a, b) = range_of(c);
                out.push(json!({"kind":"const","path":format!("{}{}", prefix, c.ident),
                    "start":item_start(&c.attrs, c.span()).min(a),"end":b,"text":toks(&*c.expr),
                    "ty":toks(&*c.ty),"expr_span":sp_of(&*c.expr),"expr":expr_json(&c.expr)}));
            }
            syn::Item::Static(st) => {
                let (a, b) = range_of(st);
                out.push(json!({"kind":"static","path":format!("{}{}", prefix, st.ident),"start":a,"end":b,"ty":toks(&*st.ty)}));
            }
            syn::Item::Macro(m) => {
                let its = cfg_if_items(&m.mac);
                if !its.is_empty() {
                    index_items(&its, prefix, out);
                }
            }
            _ => {}
        }
    }
}

// ---------------------------------------------------------------- ast

fn pat_json(p: &syn::Pat) -> Value {
    let span = sp_of(p);
    match p {
        syn::Pat::Ident(i) => json!({"k":"ident","name":i.ident.to_string(),"mut":i.mutability.is_some(),
            "by_ref":i.by_ref.is_some(),"span":span}),
        syn::Pat::Wild(_) => json!({"k":"wild","span":span}),
        syn::Pat::Tuple(t) => json!({"k":"tuple","elems":t.elems.iter().map(pat_json).collect::<Vec<_>>(),"span":span}),
        syn::Pat::Reference(r) => json!({"k":"ref","pat":pat_json(&r.pat),"span":span}),
        syn::Pat::Type(t) => json!({"k":"typed","pat":pat_json(&t.pat),"ty":toks(&*t.ty),"span":span}),
        syn::Pat::Paren(t) => pat_json(&t.pat),
        syn::Pat::TupleStruct(t) => json!({"k":"tuple_struct","path":toks(&t.path).replace(' ', ""),
            "elems":t.elems.iter().map(pat_json).collect::<Vec<_>>(),"span":span}),
        syn::Pat::Path(t) => json!({"k":"path","path":toks(&t.path).replace(' ', ""),"span":span}),
        syn::Pat::Lit(l) => json!({"k":"lit","text":toks(l),"span":span}),
        syn::Pat::Slice(s) => json!({"k":"slice","elems":s.elems.iter().map(pat_json).collect::<Vec<_>>(),"span":span}),
        syn::Pat::Struct(s) => json!({"k":"struct","path":toks(&s.path).replace(' ', ""),
            "fields": s.fields.iter().map(|f| json!({"member":toks(&f.member),"pat":pat_json(&f.pat)})).collect::<Vec<_>>(),
            "span":span}),
        syn::Pat::Range(r) => json!({"k":"range","lo":r.start.as_ref().map(|x| toks(&**x)),"hi":r.end.as_ref().map(|x| toks(&**x)),
            "closed": matches!(r.limits, syn::RangeLimits::Closed(_)),"span":span}),
        syn::Pat::Or(o) => json!({"k":"or","cases":o.cases.iter().map(pat_json).collect::<Vec<_>>(),"span":span}),
        other => json!({"k":"other","text":toks(other),"span":span}),
    }
}

fn block_json(b: &syn::Block) -> Value {
    json!({"k":"block","stmts":b.stmts.iter().map(stmt_json).collect::<Vec<_>>(),"span":sp_of(b)})
}

fn stmt_json(s: &syn::Stmt) -> Value {
    match s {
        syn::Stmt::Local(l) => {
            let init = l.init.as_ref().map(|i| expr_json(&i.expr));
            let els = l.init.as_ref().and_then(|i| i.diverge.as_ref().map(|(_, e)| expr_json(e)));
            json!({"k":"let","pat":pat_json(&l.pat),"init":init,"else":els,"attrs":attrs_json(&l.attrs),"span":sp_of(l)})
        }
        syn::Stmt::Expr(e, semi) => json!({"k":"expr","expr":expr_json(e),"semi":semi.is_some(),"span":sp_of(e)}),
        syn::Stmt::Item(i) => json!({"k":"item","text":toks(i),"span":sp_of(i),
            "item": match i {
                syn::Item::Const(c) => json!({"kind":"const","name":c.ident.to_string(),"ty":toks(&*c.ty),"expr":expr_json(&c.expr)}),
                syn::Item::Use(_) => json!({"kind":"use"}),
                syn::Item::Type(_) => json!({"kind":"type"}),
                syn::Item::Static(st) => json!({"kind":"static","name":st.ident.to_string(),"ty":toks(&*st.ty)}),
                _ => json!({"kind":"other"}),
            }}),
        syn::Stmt::Macro(m) => {
            let args: Option<Vec<Value>> = m.mac.parse_body_with(syn::punctuated::Punctuated::<syn::Expr, syn::Token![,]>::parse_terminated)
                .ok().map(|p| p.iter().map(expr_json).collect());
            json!({"k":"macro","path":toks(&m.mac.path).replace(' ', ""),"tokens":m.mac.tokens.to_string(),
                "args": args, "attrs":attrs_json(&m.attrs),"span":sp_of(m)})
        }
    }
}

fn binop(op: &syn::BinOp) -> &'static str {
    use syn::BinOp::*;
    match op {
        Add(_) => "+", Sub(_) => "-", Mul(_) => "*", Div(_) => "/", Rem(_) => "%",
        And(_) => "&&", Or(_) => "||", BitXor(_) => "^", BitAnd(_) => "&", BitOr(_) => "|",
        Shl(_) => "<<", Shr(_) => ">>", Eq(_) => "==", Lt(_) => "<", Le(_) => "<=", Ne(_) => "!=",
        Ge(_) => ">=", Gt(_) => ">", AddAssign(_) => "+=", SubAssign(_) => "-=", MulAssign(_) => "*=",
        DivAssign(_) => "/=", RemAssign(_) => "%=", BitXorAssign(_) => "^=", BitAndAssign(_) => "&=",
        BitOrAssign(_) => "|=", ShlAssign(_) => "<<=", ShrAssign(_) => ">>=",
        _ => "?",
    }
}

fn expr_json(e: &syn::Expr) -> Value {
    let span = sp_of(e);
    use syn::Expr::*;
    let mut v = match e {
        Binary(b) => json!({"k":"binary","op":binop(&b.op),"l":expr_json(&b.left),"r":expr_json(&b.right)}),
        Unary(u) => {
            let op = match u.op { syn::UnOp::Deref(_) => "*", syn::UnOp::Not(_) => "!", syn::UnOp::Neg(_) => "-", _ => "?" };
            json!({"k":"unary","op":op,"e":expr_json(&u.expr)})
        }
        Lit(l) => match &l.lit {
            syn::Lit::Int(i) => json!({"k":"int","digits":i.base10_digits(),"suffix":i.suffix()}),
            syn::Lit::Bool(b) => json!({"k":"bool","v":b.value}),
            syn::Lit::ByteStr(b) => json!({"k":"bytestr","v":String::from_utf8_lossy(&b.value()).to_string()}),
            syn::Lit::Str(s) => json!({"k":"str","v":s.value()}),
            other => json!({"k":"lit","text":toks(other)}),
        },
        Path(p) => json!({"k":"path","path":toks(&p.path).replace(' ', ""),
            "qself":p.qself.as_ref().map(|q| toks(&*q.ty)),
            "segs":p.path.segments.iter().map(|s| s.ident.to_string()).collect::<Vec<_>>()}),
        Call(c) => json!({"k":"call","f":expr_json(&c.func),"args":c.args.iter().map(expr_json).collect::<Vec<_>>()}),
        MethodCall(m) => json!({"k":"mcall","recv":expr_json(&m.receiver),"m":m.method.to_string(),
            "turbofish": m.turbofish.as_ref().map(|t| toks(t)),
            "args":m.args.iter().map(expr_json).collect::<Vec<_>>()}),
        Field(f) => json!({"k":"field","e":expr_json(&f.base),"member":toks(&f.member)}),
        Index(i) => json!({"k":"index","e":expr_json(&i.expr),"i":expr_json(&i.index)}),
        Reference(r) => json!({"k":"ref","mut":r.mutability.is_some(),"e":expr_json(&r.expr)}),
        Paren(p) => json!({"k":"paren","e":expr_json(&p.expr)}),
        Group(p) => json!({"k":"paren","e":expr_json(&p.expr)}),
        Tuple(t) => json!({"k":"tuple","elems":t.elems.iter().map(expr_json).collect::<Vec<_>>()}),
        Array(a) => json!({"k":"array","elems":a.elems.iter().map(expr_json).collect::<Vec<_>>()}),
        Repeat(r) => json!({"k":"repeat","e":expr_json(&r.expr),"len":expr_json(&r.len)}),
        Assign(a) => json!({"k":"assign","l":expr_json(&a.left),"r":expr_json(&a.right)}),
        Block(b) => block_json(&b.block),
        Unsafe(b) => json!({"k":"unsafe","block":block_json(&b.block)}),
        Const(c) => json!({"k":"const_block","block":block_json(&c.block)}),
        If(i) => json!({"k":"if","cond":expr_json(&i.cond),"then":block_json(&i.then_branch),
            "else":i.else_branch.as_ref().map(|(_, e)| expr_json(e))}),
        Let(l) => json!({"k":"letcond","pat":pat_json(&l.pat),"e":expr_json(&l.expr)}),
        ForLoop(f) => json!({"k":"for","pat":pat_json(&f.pat),"iter":expr_json(&f.expr),"body":block_json(&f.body)}),
        While(w) => json!({"k":"while","cond":expr_json(&w.cond),"body":block_json(&w.body)}),
        Loop(l) => json!({"k":"loop","body":block_json(&l.body)}),
        Range(r) => json!({"k":"range","lo":r.start.as_ref().map(|x| expr_json(x)),"hi":r.end.as_ref().map(|x| expr_json(x)),
            "closed": matches!(r.limits, syn::RangeLimits::Closed(_))}),
        Closure(c) => json!({"k":"closure","params":c.inputs.iter().map(pat_json).collect::<Vec<_>>(),"body":expr_json(&c.body),
            "move":c.capture.is_some()}),
        Return(r) => json!({"k":"return","e":r.expr.as_ref().map(|x| expr_json(x))}),
        Break(_) => json!({"k":"break"}),
        Continue(_) => json!({"k":"continue"}),
        Try(t) => json!({"k":"try","e":expr_json(&t.expr)}),
        Cast(c) => json!({"k":"cast","e":expr_json(&c.expr),"ty":toks(&*c.ty)}),
        Macro(m) => {
            let path = toks(&m.mac.path).replace(' ', "");
            let args: Option<Vec<Value>> = m.mac.parse_body_with(syn::punctuated::Punctuated::<syn::Expr, syn::Token![,]>::parse_terminated)
                .ok().map(|p| p.iter().map(expr_json).collect());
            let mut v = json!({"k":"macro","path":path,"tokens":m.mac.tokens.to_string(),"args":args});
            if path == "vec" {
                // vec![e; n]  or  vec![a, b, c]
                if let Ok(rep) = syn::parse2::<syn::ExprRepeat>(proc_macro2::TokenStream::from(proc_macro2::TokenTree::Group(
                        proc_macro2::Group::new(proc_macro2::Delimiter::Bracket, m.mac.tokens.clone())))) {
                    v = json!({"k":"vec_repeat","e":expr_json(&rep.expr),"len":expr_json(&rep.len)});
                } else if let Ok(arr) = syn::parse2::<syn::ExprArray>(proc_macro2::TokenStream::from(proc_macro2::TokenTree::Group(
                        proc_macro2::Group::new(proc_macro2::Delimiter::Bracket, m.mac.tokens.clone())))) {
                    v = json!({"k":"vec_list","elems":arr.elems.iter().map(expr_json).collect::<Vec<_>>()});
                }
            }
            v
        }
        Struct(s) => json!({"k":"struct","path":toks(&s.path).replace(' ', ""),
            "fields":s.fields.iter().map(|f| json!({"member":toks(&f.member),"e":expr_json(&f.expr)})).collect::<Vec<_>>(),
            "rest": s.rest.as_ref().map(|r| expr_json(r))}),
        Match(m) => json!({"k":"match","e":expr_json(&m.expr),"arms":m.arms.iter().map(|a| json!({
            "pat":pat_json(&a.pat),"guard":a.guard.as_ref().map(|(_, g)| expr_json(g)),"body":expr_json(&a.body)})).collect::<Vec<_>>()}),
        other => json!({"k":"other","text":toks(other)}),
    };
    if let Value::Object(ref mut m) = v {
        m.insert("span".into(), span);
        let attrs: &[syn::Attribute] = match e {
            MethodCall(x) => &x.attrs, Call(x) => &x.attrs, Macro(x) => &x.attrs, If(x) => &x.attrs,
            Block(x) => &x.attrs, ForLoop(x) => &x.attrs, Assign(x) => &x.attrs, Binary(x) => &x.attrs,
            _ => &[],
        };
        if !attrs.is_empty() {
            m.insert("attrs".into(), attrs_json(attrs));
        }
    }
    v
}

/// `cfg_if::cfg_if! { if #[cfg(..)] { items } else if #[cfg(..)] { items } else { items } }` -> items of all branches
fn cfg_if_items(m: &syn::Macro) -> Vec<syn::Item> {
    use proc_macro2::TokenTree;
    let mut out = vec![];
    let last = m.path.segments.last().map(|s| s.ident.to_string()).unwrap_or_default();
    if last != "cfg_if" {
        return out;
    }
    for tt in m.tokens.clone() {
        if let TokenTree::Group(g) = tt {
            if g.delimiter() == proc_macro2::Delimiter::Brace {
                if let Ok(f) = syn::parse2::<syn::File>(g.stream()) {
                    out.extend(f.items);
                }
            }
        }
    }
    out
}

struct FnFinder<'a> {
    want: &'a str,
    found: Option<Value>,
    skip: usize,
}

fn sig_json(sig: &syn::Signature) -> Value {
    let params: Vec<Value> = sig
        .inputs
        .iter()
        .map(|a| match a {
            syn::FnArg::Receiver(r) => json!({"recv": true, "mut": r.mutability.is_some(), "ref": r.reference.is_some()}),
            syn::FnArg::Typed(t) => json!({"pat": pat_json(&t.pat), "ty": toks(&*t.ty)}),
        })
        .collect();
    let ret = match &sig.output {
        syn::ReturnType::Default => Value::Null,
        syn::ReturnType::Type(_, ty) => Value::String(toks(&**ty)),
    };
    json!({"name":sig.ident.to_string(),"params":params,"ret":ret,"generics":toks(&sig.generics)})
}

fn find_fn(items: &[syn::Item], prefix: &str, ff: &mut FnFinder) {
    for it in items {
        if ff.found.is_some() {
            return;
        }
        match it {
            syn::Item::Fn(f) => {
                if format!("{}{}", prefix, f.sig.ident) == ff.want && { if ff.skip > 0 { ff.skip -= 1; false } else { true } } {
                    ff.found = Some(json!({"sig":sig_json(&f.sig),"body":block_json(&f.block),"attrs":attrs_json(&f.attrs)}));
                }
            }
            syn::Item::Impl(im) => {
                let tn = type_name(&im.self_ty);
                let ip = match &im.trait_ {
                    Some((_, tr, _)) => format!("{}<{} as {}>::", prefix, tn, toks(tr).replace(' ', "")),
                    None => format!("{}{}::", prefix, tn),
                };
                for ii in &im.items {
                    if let syn::ImplItem::Fn(f) = ii {
                        if format!("{}{}", ip, f.sig.ident) == ff.want && { if ff.skip > 0 { ff.skip -= 1; false } else { true } } {
                            ff.found = Some(json!({"sig":sig_json(&f.sig),"body":block_json(&f.block),"attrs":attrs_json(&f.attrs)}));
                            return;
                        }
                    }
                }
            }
            syn::Item::Trait(tr) => {
                let tp = format!("{}{}::", prefix, tr.ident);
                for ti in &tr.items {
                    if let syn::TraitItem::Fn(f) = ti {
                        if format!("{}{}", tp, f.sig.ident) == ff.want {
                            if let Some(b) = &f.default {
                                ff.found = Some(json!({"sig":sig_json(&f.sig),"body":block_json(b),"attrs":attrs_json(&f.attrs)}));
                                return;
                            }
                        }
                    }
                }
            }
            syn::Item::Mod(m) => {
                if let Some((_, its)) = &m.content {
                    find_fn(its, &format!("{}{}::", prefix, m.ident), ff);
                }
            }
            syn::Item::Macro(m) => {
                let its = cfg_if_items(&m.mac);
                if !its.is_empty() {
                    find_fn(&its, prefix, ff);
                }
            }
            _ => {}
        }
    }
}

fn main() {
    let args: Vec<String> = env::args().collect();
    if args.len() < 3 {
        eprintln!("usage: vfx index <file> | vfx ast <file> <fn-path>");
        std::process::exit(2);
    }
    let src = match fs::read_to_string(&args[2]) {
        Ok(s) => s,
        Err(e) => {
            eprintln!("vfx: cannot read {}: {}", args[2], e);
            std::process::exit(2);
        }
    };
    let file = match syn::parse_file(&src) {
        Ok(f) => f,
        Err(e) => {
            eprintln!("vfx: parse error in {}: {}", args[2], e);
            std::process::exit(3);
        }
    };
    match args[1].as_str() {
        "index" => {
            let mut out = vec![];
            index_items(&file.items, "", &mut out);
            println!("{}", serde_json::to_string(&Value::Array(out)).unwrap());
        }
        "ast" => {
            if args.len() < 4 {
                eprintln!("usage: vfx ast <file> <fn-path>");
                std::process::exit(2);
            }
            let skip: usize = if args.len() > 4 { args[4].parse().unwrap_or(0) } else { 0 };
            let mut ff = FnFinder { want: &args[3], found: None, skip };
            find_fn(&file.items, "", &mut ff);
            match ff.found {
                Some(v) => println!("{}", serde_json::to_string(&v).unwrap()),
                None => {
                    eprintln!("vfx: fn {} not found in {}", args[3], args[2]);
                    std::process::exit(4);
                }
            }
        }
        _ => {
            eprintln!("unknown command");
            std::process::exit(2);
        }
    }
}

#!/usr/bin/env python3
"""Developer loop for R units: try_ring.py <module> [unit-substring]"""
import sys, os
sys.path.insert(0, os.path.dirname(os.path.dirname(os.path.abspath(__file__))))
from vlib import runner
res = runner.Result("DEV", "quick", 0)
sel = (lambda n: sys.argv[2] in n) if len(sys.argv) > 2 else None
runner.run_r(res, [sys.argv[1]], select=sel)
for o in res.obligations:
    print(o["status"], o["id"], "" if o["status"] == "discharged" else "\n   " + str(o.get("detail")) + "\n   cex=" + str(o.get("cex"))[:300])
for u in res.undecided: print("UNDECIDED", u)
print(res.solver_time)

#!/usr/bin/env python3
"""store_seed.py <worktree> <n> <seed-id> <property> <needs> <detected: yes|no|undecided> <by-which-obligations/notes>"""
import sys, os, shutil, json, glob
wt, n, sid, pid, needs, detected, note = sys.argv[1:8]
src = os.path.join(wt, "SEEDED", n)
dst = os.path.join("/verif/seeded", sid)
os.makedirs(dst, exist_ok=True)
for f in os.listdir(src):
    p = os.path.join(src, f)
    if os.path.isfile(p) and os.path.getsize(p) < 400_000 and not f.endswith(".log") or f == "confirm.log":
        if f == "confirm.log":
            # keep only the verdict line and the test summaries
            lines = [l for l in open(p, errors="replace") if l.startswith("SEED ") or l.startswith("test result") or l.startswith("== ") or "exit=" in l]
            open(os.path.join(dst, f), "w").writelines(lines[-60:])
        else:
            shutil.copy2(p, os.path.join(dst, f))
verdict = [l.strip() for l in open(os.path.join(src, "confirm.log"), errors="replace") if l.startswith("SEED ")]
meta = {
    "seed_id": sid, "property": pid,
    "what_it_needs_to_manifest": needs,
    "origin": "independent sub-agent given only the property text and a scratch worktree (nothing from /verif)",
    "confirmed_by_me": {"command": f"tools/confirm_seed.sh {wt} {n}  (apply patch; cargo test --workspace --no-fail-fast --offline; demo with patch; demo without patch)",
                        "result": verdict[-1] if verdict else "n/a"},
    "check_run": f"git -C /repo apply seeded/{sid}/patch.diff && ./check {pid}; git -C /repo checkout -- .",
    "detected_by_check": detected, "detection_detail": note,
}
json.dump(meta, open(os.path.join(dst, "meta.json"), "w"), indent=1)
print("stored", dst)

#!/bin/sh
# run_all_clean.sh [tier]: every claimed check on a CLEAN export of /repo's HEAD (so that it can run while /repo's working tree is being
# patched by run_seeds / run_refactors); evidence goes to a scratch directory.  Any line that is not "OK" is a regression of the machinery.
TIER=${1:-quick}
D=/tmp/repo-clean-$$; rm -rf $D; mkdir $D; git -C /repo archive HEAD | tar -x -C $D; cp /repo/Cargo.lock $D/ 2>/dev/null
cd /verif
for p in $(python3 -c "import json; print(' '.join(c['property_id'] for c in json.load(open('MANIFEST.json'))['checks']))"); do
  VERIF_REPO=$D VERIF_EVIDENCE_DIR=/verif/.cache/clean-evidence ./check $p --tier $TIER 2>/dev/null | grep -E "^(OK|VIOLATION|UNDECIDED)" | head -3 | cut -c1-170
done
rm -rf $D

#!/usr/bin/env python3
"""run_seeds.py [seed-id-substring...]: apply every stored seeded change (seeded/<id>/patch.diff) to /repo's working tree in turn, run
./check <property> (no replay), undo, and compare the outcome with meta.json's `detected_by_check`.  Never commits to /repo."""
import json, os, subprocess, sys
V = "/verif"
sel = sys.argv[1:]
rows = []
for sid in sorted(os.listdir(f"{V}/seeded")):
    d = f"{V}/seeded/{sid}"
    if not os.path.exists(f"{d}/patch.diff") or (sel and not any(s in sid for s in sel)):
        continue
    meta = json.load(open(f"{d}/meta.json"))
    pid = meta["property"]
    subprocess.run(["git", "-C", "/repo", "checkout", "-q", "--", "."], check=True); subprocess.run(["git", "-C", "/repo", "clean", "-fdq", "src"], check=True)
    a = subprocess.run(["git", "-C", "/repo", "apply", f"{d}/patch.diff"], capture_output=True, text=True)
    if a.returncode != 0:
        rows.append((sid, pid, meta.get("detected_by_check"), "patch-does-not-apply"))
        continue
    try:
        if not os.path.exists(f"{V}/evidence/{pid}.json"):
            out, rc = "not claimed", None
        else:
            r = subprocess.run([f"{V}/check", pid], capture_output=True, text=True, env=dict(os.environ, VERIF_NO_REPLAY="1", VERIF_EVIDENCE_DIR="/verif/.cache/seed-evidence"), cwd=V)
            out, rc = r.stdout, r.returncode
    finally:
        subprocess.run(["git", "-C", "/repo", "checkout", "-q", "--", "."], check=True); subprocess.run(["git", "-C", "/repo", "clean", "-fdq", "src"], check=True)
    got = {0: "no", 1: "yes", 2: "undecided", None: "no"}.get(rc, f"exit{rc}")
    first = next((l for l in out.splitlines() if l.startswith(("VIOLATION", "UNDECIDED", "OK"))), "")[:160]
    rows.append((sid, pid, meta.get("detected_by_check"), got, first))
    print(sid, pid, "expected", meta.get("detected_by_check"), "got", got, "|", first, flush=True)
bad = [r for r in rows if r[2] != r[3]]
print(f"{len(rows)} seeds, {len(bad)} differ from meta.json")

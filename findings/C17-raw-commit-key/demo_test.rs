use dusk_plonk::prelude::*;
use rand::rngs::StdRng;
use rand::SeedableRng;

#[derive(Default)]
struct Empty;
impl Circuit for Empty {
    fn circuit(&self, _c: &mut Composer) -> Result<(), Error> { Ok(()) }
}

fn be(b: &[u8], k: usize) -> usize { u64::from_be_bytes(b[8 * k..8 * k + 8].try_into().unwrap()) as usize }

#[test]
fn prover_bytes_with_bad_infinity_flag_are_an_error_not_a_panic() {
    let mut rng = StdRng::seed_from_u64(3);
    let pp = PublicParameters::setup(1 << 5, &mut rng).unwrap();
    let (prover, _v) = Compiler::compile::<Empty>(&pp, b"flag").unwrap();
    let bytes = prover.to_bytes();
    let (label_len, pk_len, ck_len) = (be(&bytes, 0), be(&bytes, 1), be(&bytes, 2));
    let ck_at = 48 + label_len + pk_len;
    assert!(ck_len > 8 + 97);
    let flag = ck_at + 8 + 96; // infinity-flag byte of the first raw point of the commit key
    assert!(bytes[flag] <= 1);
    for bad in [2u8, 3, 0x80, 0xff] {
        let mut b = bytes.clone();
        b[flag] = bad;
        let r = std::panic::catch_unwind(|| Prover::try_from_bytes(&b).map(|_| ()));
        match r {
            Err(_) => panic!("Prover::try_from_bytes PANICKED on infinity-flag byte {bad:#x}"),
            Ok(Ok(())) => panic!("Prover::try_from_bytes ACCEPTED infinity-flag byte {bad:#x}"),
            Ok(Err(_)) => {}
        }
    }
}

#[test]
fn prover_bytes_with_unreduced_limbs_are_rejected() {
    let mut rng = StdRng::seed_from_u64(3);
    let pp = PublicParameters::setup(1 << 5, &mut rng).unwrap();
    let (prover, _v) = Compiler::compile::<Empty>(&pp, b"flag").unwrap();
    let bytes = prover.to_bytes();
    let (label_len, pk_len) = (be(&bytes, 0), be(&bytes, 1));
    let at = 48 + label_len + pk_len + 8; // first raw point: x limbs (6 x u64 LE, Montgomery form)
    // x + p as a 384-bit little-endian integer
    let p: [u64; 6] = [0xb9feffffffffaaab, 0x1eabfffeb153ffff, 0x6730d2a0f6b0f624, 0x64774b84f38512bf, 0x4b1ba7b6434bacd7, 0x1a0111ea397fe69a];
    let mut b = bytes.clone();
    let mut carry = 0u128;
    for i in 0..6 {
        let limb = u64::from_le_bytes(b[at + 8 * i..at + 8 * i + 8].try_into().unwrap());
        let s = limb as u128 + p[i] as u128 + carry;
        b[at + 8 * i..at + 8 * i + 8].copy_from_slice(&(s as u64).to_le_bytes());
        carry = s >> 64;
    }
    assert_eq!(carry, 0, "x + p must still fit 384 bits for this probe");
    let r = std::panic::catch_unwind(|| Prover::try_from_bytes(&b).map(|p| p.to_bytes()));
    match r {
        Err(_) => panic!("PANICKED on unreduced limbs"),
        Ok(Ok(re)) => panic!("ACCEPTED a commit-key point with unreduced limbs (re-encodes identically: {})", re == b),
        Ok(Err(_)) => {}
    }
}

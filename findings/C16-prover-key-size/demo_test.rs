#[cfg(test)]
mod verif_c16_finding {
    use dusk_bytes::Serializable;
    use super::Prover;
    use crate::error::Error;
    use crate::fft::{EvaluationDomain, Polynomial};
    use crate::prelude::{Circuit, Compiler, Composer, Constraint, PublicParameters};
    use dusk_bls12_381::BlsScalar;
    use rand::rngs::StdRng;
    use rand::SeedableRng;

    // selectors q_m of the four user rows (rows 4..8 of a domain of size 8): the values on those rows of the cubic that
    // is 0, 0, 1, 1 on the four rows every initialized composer starts with
    struct C { x: [BlsScalar; 4] }
    impl Default for C { fn default() -> Self { C { x: [BlsScalar::one(); 4] } } }
    impl Circuit for C {
        fn circuit(&self, composer: &mut Composer) -> Result<(), Error> {
            let z = Composer::ZERO;
            for x in self.x { composer.append_gate(Constraint::new().mult(x).a(z).b(z)); }
            Ok(())
        }
    }

    #[test]
    fn short_q_m_round_trip() {
        let mut rng = StdRng::seed_from_u64(47);
        let pp = PublicParameters::setup(1 << 6, &mut rng).unwrap();
        let d = EvaluationDomain::new(8).unwrap();
        let w: Vec<BlsScalar> = d.elements().collect();
        // Lagrange interpolation through (w0,0),(w1,0),(w2,1),(w3,1)
        let ys = [BlsScalar::zero(), BlsScalar::zero(), BlsScalar::one(), BlsScalar::one()];
        let q = |x: BlsScalar| -> BlsScalar {
            let mut acc = BlsScalar::zero();
            for i in 0..4 {
                let mut t = ys[i];
                for j in 0..4 { if i != j { t *= (x - w[j]) * (w[i] - w[j]).invert().unwrap(); } }
                acc += t;
            }
            acc
        };
        let c = C { x: [q(w[4]), q(w[5]), q(w[6]), q(w[7])] };
        let (p, _) = Compiler::compile_with_circuit(&pp, b"x", &c).unwrap();
        let k = &p.prover_key;
        eprintln!("n={} q_m.len={} q_l.len={} q_c.len={} s1.len={}", p.size, k.arithmetic.q_m.0.len(), k.arithmetic.q_l.0.len(), k.arithmetic.q_c.0.len(), k.permutation.s_sigma_1.0.len());
        let bytes = p.to_bytes();
        let dd = Prover::try_from_bytes(&bytes);
        eprintln!("decode: {:?}", dd.as_ref().map(|_| ()));
        let dd = dd.expect("round trip must decode");
        assert_eq!(dd.to_bytes(), bytes);
        let mut r1 = StdRng::seed_from_u64(1); let mut r2 = StdRng::seed_from_u64(1);
        let pr1 = p.prove(&mut r1, &c).unwrap();
        let pr2 = dd.prove(&mut r2, &c).unwrap();
        assert_eq!(pr1.0.to_bytes(), pr2.0.to_bytes());
    }
}

use dusk_plonk::prelude::*;
use rand::{CryptoRng, RngCore, SeedableRng};
use rand::rngs::StdRng;

/// RNG whose every draw is zero: a caller-scripted, maximally degenerate stream.
struct ZeroRng;
impl RngCore for ZeroRng {
    fn next_u32(&mut self) -> u32 { 0 }
    fn next_u64(&mut self) -> u64 { 0 }
    fn fill_bytes(&mut self, dest: &mut [u8]) { for b in dest { *b = 0; } }
    fn try_fill_bytes(&mut self, dest: &mut [u8]) -> Result<(), rand::Error> { self.fill_bytes(dest); Ok(()) }
}
impl CryptoRng for ZeroRng {}

#[derive(Default)]
struct Empty;
impl Circuit for Empty {
    fn circuit(&self, _composer: &mut Composer) -> Result<(), Error> { Ok(()) }
}

#[derive(Default)]
struct Small { a: BlsScalar }
impl Circuit for Small {
    fn circuit(&self, composer: &mut Composer) -> Result<(), Error> {
        let a = composer.append_witness(self.a);
        composer.component_range_bits::<8>(a);
        Ok(())
    }
}

#[test]
fn prove_with_degenerate_rng_does_not_panic() {
    let mut rng = StdRng::seed_from_u64(1);
    let pp = PublicParameters::setup(1 << 6, &mut rng).unwrap();
    let (prover, verifier) = Compiler::compile::<Empty>(&pp, b"zero").unwrap();
    let r = std::panic::catch_unwind(|| prover.prove(&mut ZeroRng, &Empty));
    let r = r.expect("prove must not panic");
    let (proof, pi) = r.expect("satisfied circuit proves");
    verifier.verify(&proof, &pi).expect("and verifies");

    let (prover, verifier) = Compiler::compile::<Small>(&pp, b"zero").unwrap();
    let c = Small { a: BlsScalar::from(0u64) };
    let r = std::panic::catch_unwind(|| prover.prove(&mut ZeroRng, &c));
    let (proof, pi) = r.expect("prove must not panic").expect("proves");
    verifier.verify(&proof, &pi).expect("and verifies");
}

"""Logic gadgets: append_logic_component, bind_logic_accumulators, bind_truncated_input, and/xor entry points (C10, C07)."""
import importlib.util, os
def _load(n):
    p = os.path.join(os.path.dirname(__file__), n)
    spec = importlib.util.spec_from_file_location(n[:-3] + "_u", p); m = importlib.util.module_from_spec(spec); spec.loader.exec_module(m); return m

FO = "proof { field_obeys(); } broadcast use field_axioms;"
N = "wits(*old(self)).len()"
FRAME = [f"wits(*final(self)).subrange(0, {N} as int) == wits(*old(self))", "pis(*final(self)) == pis(*old(self))"]
KEEP = "proof { assert(wits(*self).subrange(0, wits(*old(self)).len() as int) =~= wits(*old(self))); }"
SPIN = ["#[verifier::spinoff_prover]", "#[verifier::rlimit(60)]"]

def overlay(o):
    if "src/composer/truncate.rs" not in o.files:
        _load("truncate.py").overlay(o)
    o.spec_module("logic_specs")
    l = o.file("src/composer/logic.rs")
    f = l.fn("Composer::bind_truncated_input")
    f.verus("composer.Composer::bind_truncated_input",
            requires=["valid_w(*old(self), input)", "valid_w(*old(self), acc)", "BIT_PAIRS <= 127"],
            ensures=[f"gates(*final(self)) == gates(*old(self)) + bts_rows(2 * BIT_PAIRS, {N} as int, input.idx(), acc.idx())",
                     f"wits(*final(self)).len() == {N} + bts_wits(2 * BIT_PAIRS)"] + FRAME)
    f = l.fn("Composer::bind_logic_accumulators")
    f.verus("composer.Composer::bind_logic_accumulators", attrs=SPIN,
            requires=["valid_w(*old(self), a)", "valid_w(*old(self), b)", "valid_w(*old(self), left_acc)", "valid_w(*old(self), right_acc)", "BIT_PAIRS <= 127"],
            ensures=[f"BIT_PAIRS == 0 ==> gates(*final(self)) == gates(*old(self)) && wits(*final(self)) == wits(*old(self))",
                     f"BIT_PAIRS > 0 ==> gates(*final(self)) == gates(*old(self)) + bts_rows(2 * BIT_PAIRS, {N} as int, a.idx(), left_acc.idx())"
                     f" + bts_rows(2 * BIT_PAIRS, {N} + bts_wits(2 * BIT_PAIRS), b.idx(), right_acc.idx())",
                     f"BIT_PAIRS > 0 ==> wits(*final(self)).len() == {N} + 2 * bts_wits(2 * BIT_PAIRS)"] + FRAME)
    f.after("self.bind_truncated_input::<BIT_PAIRS>(a, left_acc)", KEEP)
    # anchored AFTER the second binding call (a statement anchor works at any nesting depth: early-return and nested-if forms alike)
    f.after("self.bind_truncated_input::<BIT_PAIRS>(b, right_acc)", KEEP + """
proof { if BIT_PAIRS > 0 { assert(gates(*self) =~= gates(*old(self)) + bts_rows(2 * BIT_PAIRS, wits(*old(self)).len() as int, a.idx(), left_acc.idx())
     + bts_rows(2 * BIT_PAIRS, wits(*old(self)).len() + bts_wits(2 * BIT_PAIRS), b.idx(), right_acc.idx())); } }""")

    # ---- append_logic_component::<BIT_PAIRS>
    f = l.fn("Composer::append_logic_component")
    S = "(if is_component_xor { neg1() } else { 1int })"
    f.verus("composer.Composer::append_logic_component", ret="r", attrs=SPIN + ["#[verifier::loop_isolation(false)]"],
            requires=["valid_w(*old(self), a)", "valid_w(*old(self), b)"],
            ensures=[f"r.idx() == lg_acc({N} as int, BIT_PAIRS as int, 3)",
                     f"gates(*final(self)) == gates(*old(self)) + logic_rows(BIT_PAIRS as int, {S}, {N} as int, a.idx(), b.idx())",
                     f"wits(*final(self)).len() == {N} + logic_wits(BIT_PAIRS as int)"] + FRAME)
    f.at_body_start(FO)
    f.cut("""const {
            assert!(
                BIT_PAIRS <= 127,
                "BIT_PAIRS must be <= 127: the logic gadget operates on at most 254 bits"
            )
        };""", name="cut_static_assert_pairs<const BIT_PAIRS: usize>", params="", call="Self::cut_static_assert_pairs::<BIT_PAIRS>();",
          ensures=["BIT_PAIRS <= 127"])
    f.cut("""let a_bit_iter = BitIterator8::new(self[a].to_bytes());
        let a_bits: Vec<_> = a_bit_iter.skip(256 - num_bits).collect();""", name="cut_be_bits_tail_a", params="x: BlsScalar, num_bits: usize",
          ret="r: Vec<bool>", call="let a_bits: Vec<bool> = Self::cut_be_bits_tail_a(self[a], num_bits);",
          requires=["num_bits <= 256"], ensures=["r@.len() == num_bits"],
          body="let a_bit_iter = BitIterator8::new(x.to_bytes());\n    let a_bits: Vec<_> = a_bit_iter.skip(256 - num_bits).collect();\n    a_bits")
    f.cut("""let b_bit_iter = BitIterator8::new(self[b].to_bytes());
        let b_bits: Vec<_> = b_bit_iter.skip(256 - num_bits).collect();""", name="cut_be_bits_tail_b", params="x: BlsScalar, num_bits: usize",
          ret="r: Vec<bool>", call="let b_bits: Vec<bool> = Self::cut_be_bits_tail_b(self[b], num_bits);",
          requires=["num_bits <= 256"], ensures=["r@.len() == num_bits"],
          body="let b_bit_iter = BitIterator8::new(x.to_bytes());\n    let b_bits: Vec<_> = b_bit_iter.skip(256 - num_bits).collect();\n    b_bits")
    f.before("let mut constraint =", "let ghost g0 = gates(*self); let ghost n0 = wits(*self).len() as int; let ghost s = if is_component_xor { neg1() } else { 1int };")
    f.loop(0, invariant=[
        "wits(*self).len() == n0 + 4 * i",
        "wits(*self).subrange(0, n0) == wits(*old(self))", "pis(*self) == pis(*old(self))",
        "gates(*self) == g0 + lg_rows_prefix(s, n0, i as int)",
        "is_logic_base(constraint, s)",
        "constraint.w(0) == lg_acc(n0, i as int, 0) && constraint.w(1) == lg_acc(n0, i as int, 1) && constraint.w(3) == lg_acc(n0, i as int, 3)",
    ])
    f.before("let idx =", "proof { assert(forall|t: u8| t <= 1 ==> #[trigger] (t << 1) <= 2) by(bit_vector); }")
    f.before("let prod_quad_bls = (left_quad", "proof { assert(left_quad * right_quad <= 9) by(nonlinear_arith) requires left_quad <= 3, right_quad <= 3; }")

    for name, xor in [("append_logic_and", "1int"), ("append_logic_xor", "neg1()")]:
        f = l.fn("Composer::" + name)
        f.verus("composer.Composer::" + name, ret="r", requires=["valid_w(*old(self), a)", "valid_w(*old(self), b)"],
                ensures=[f"r.idx() == lg_acc({N} as int, BIT_PAIRS as int, 3)",
                         f"gates(*final(self)) == gates(*old(self)) + logic_rows(BIT_PAIRS as int, {xor}, {N} as int, a.idx(), b.idx())",
                         f"wits(*final(self)).len() == {N} + logic_wits(BIT_PAIRS as int)"] + FRAME)

"""Range gadgets: range_check_even, range_check, component_range(_bits) (C09, C07)."""
import importlib.util, os
def _load(n):
    p = os.path.join(os.path.dirname(__file__), n)
    spec = importlib.util.spec_from_file_location(n[:-3] + "_u", p); m = importlib.util.module_from_spec(spec); spec.loader.exec_module(m); return m

FO = "proof { field_obeys(); } broadcast use field_axioms;"

def overlay(o):
    if "src/composer/bits.rs" not in o.files:
        _load("composer_bits_select.py").overlay(o)
    o.spec_module("bits_specs")
    o.spec_module("range_specs")
    r = o.file("src/composer/range.rs")
    f = r.fn("Composer::range_check_even")
    N = "wits(*old(self)).len()"
    NB = "(num_bits as int)"
    f.verus("composer.Composer::range_check_even", attrs=["#[verifier::loop_isolation(false)]", "#[verifier::spinoff_prover]", "#[verifier::rlimit(80)]"],
            requires=["valid_w(*old(self), witness)", "num_bits % 2 == 0", "num_bits <= 256"],
            ensures=["pis(*final(self)) == pis(*old(self))",
                     f"gates(*final(self)) == gates(*old(self)) + rce_rows({NB}, {N} as int, witness.idx())",
                     f"wits(*final(self)).len() == {N} + rce_wits({NB})",
                     f"wits(*final(self)).subrange(0, {N} as int) == wits(*old(self))"])
    f.at_body_start(FO)
    f.before("let pad =", """proof {
    assert(num_gates == rc_ng(num_bits as int));
    assert(num_quads <= 132);
    assert(num_quads << 1usize == num_quads * 2) by(bit_vector) requires num_quads <= 132;
    assert(forall|y: usize| y >> 1usize == y / 2) by(bit_vector);
}""")
    f.after("let pad =", """proof {
    assert(num_quads == rc_nq(num_bits as int));
    assert(pad == rc_pad(num_bits as int));
    assert(1 <= pad <= num_quads);
}""")
    f.before("let mut accumulators", """proof {
    assert(is_range_base(base));
    assert(base.w(0) == 0 && base.w(1) == 0 && base.w(2) == 0 && base.w(3) == 0);
    assert(rc_partial(constraints@, num_bits as int, wits(*old(self)).len() as int, pad as int));
}""")
    f.before("let bit_index =", """proof {
    assert(forall|y: usize| y <= 200 ==> #[trigger] (y << 1usize) == y * 2) by(bit_vector);
}""")
    f.before("if let Some(c) = constraints.last_mut() { *c =", """proof {
    assert(accumulators@.len() == num_bits / 2);
}""")
    PRE = """proof {
    let nb = num_bits as int; let n0 = wits(*old(self)).len() as int;
    assert(rc_final(constraints@, nb, n0));
}
let ghost cs0 = constraints@;"""
    from vlib.overlay import AnchorLost
    try:
        f.before("constraints.into_iter()", PRE)
        loop_form = False
    except AnchorLost:
        # the same traversal written as a `for` loop (the form D1 produces): annotate it directly
        f.before_loop(1, PRE)
        loop_form = True
    f.loop(0, invariant=[
        "bits@.len() == 256",
        "wits(*self).len() == wits(*old(self)).len() + (i - pad)",
        "wits(*self).subrange(0, wits(*old(self)).len() as int) == wits(*old(self))",
        "gates(*self) == gates(*old(self))", "pis(*self) == pis(*old(self))",
        "accumulators@.len() == i - pad",
        "forall|j: int| 0 <= j < accumulators@.len() ==> (#[trigger] accumulators@[j]).idx() == wits(*old(self)).len() + j",
        "rc_partial(constraints@, num_bits as int, wits(*old(self)).len() as int, i as int)",
    ])
    # a fact about the parameter only: placed before the first statement that can use it, whatever that statement looks like
    f.before("let bits = self[witness]", "proof { assert(num_bits >> 3usize == num_bits / 8) by(bit_vector); }")
    f.cut("""let bit_iter = BitIterator8::new(bits.to_bytes());
        let mut bits: Vec<_> = bit_iter.collect();
        bits.reverse();""", name="cut_le_bits", params="bits: BlsScalar", ret="r: Vec<bool>", tail="bits",
          call="let bits: Vec<bool> = Self::cut_le_bits(bits);",
          ensures=["r@.len() == 256", "forall|k: int| 0 <= k < 256 ==> r@[k] == bit_of(cv(bits), k)"])
    INV = [
        "rc_final(cs0, num_bits as int, wits(*old(self)).len() as int)",
        "0 <= it.index@ <= cs0.len()",
        "it.seq() == cs0",
        "wits(*self).len() == wits(*old(self)).len() + num_bits / 2",
        "wits(*self).subrange(0, wits(*old(self)).len() as int) == wits(*old(self))",
        "pis(*self) == pis(*old(self))",
        "gates(*self) == gates(*old(self)) + rc_rows(num_bits as int, wits(*old(self)).len() as int).subrange(0, it.index@)",
    ]
    if loop_form:
        f.loop_iter_name(1, "it")
        f.loop(1, invariant=INV)
    else:
        f.for_each_to_loop("""constraints
            .into_iter()
            .for_each(|c| self.append_custom_gate(c));""", "c", "constraints", "self.append_custom_gate(c)", iter_name="it", invariant=INV)

    # ---- recompose_bits (host-side helper)
    b = o.file("src/composer/bits.rs")
    f = b.fn("recompose_bits")
    f.verus("composer.recompose_bits", ret="r", requires=["start <= end <= 256"],
            ensures=["cv(r) == md(bits_val(bits@, start as int, end as int))"], attrs=["#[verifier::loop_isolation(false)]"])
    f.loop_iter_name(0, "it")
    f.loop(0, invariant=["cv(value) == md(bits_val(bits@, end - it.index@, end as int))", "0 <= it.index@ <= end - start"])
    f.before("value *= two", "proof { lemma_recompose_step(cv(value), bits@, i as int, end as int); assert(i == end - 1 - it.index@); }")
    f.before("let mut value", "proof { lemma_md_small(0); }")
    f.at_body_start(FO)
    # ---- range_check: even -> chain; odd -> lower/top split
    f = r.fn("Composer::range_check")
    f.verus("composer.Composer::range_check",
            requires=["valid_w(*old(self), value)", "num_bits <= 256"],
            ensures=["pis(*final(self)) == pis(*old(self))",
                     f"gates(*final(self)) == gates(*old(self)) + rcall_rows({NB}, {N} as int, value.idx())",
                     f"wits(*final(self)).len() == {N} + rcall_wits({NB})",
                     f"wits(*final(self)).subrange(0, {N} as int) == wits(*old(self))"])
    f.at_body_start(FO)
    f.after("let lower =", "proof { assert(wits(*self).subrange(0, wits(*old(self)).len() as int) =~= wits(*old(self))); }")
    f.after("self.range_check_even(lower, top)", "proof { assert(wits(*self).subrange(0, wits(*old(self)).len() as int) =~= wits(*old(self))); }")
    f.after("let top_bit =", "proof { assert(wits(*self).subrange(0, wits(*old(self)).len() as int) =~= wits(*old(self))); }")
    f.before_tail("proof { assert(wits(*self).subrange(0, wits(*old(self)).len() as int) =~= wits(*old(self))); }")

    # ---- public entry points
    f = r.fn("Composer::component_range_bits")
    f.verus("composer.Composer::component_range_bits",
            requires=["valid_w(*old(self), witness)"],
            ensures=["pis(*final(self)) == pis(*old(self))",
                     f"gates(*final(self)) == gates(*old(self)) + rcall_rows(BITS as int, {N} as int, witness.idx())",
                     f"wits(*final(self)).len() == {N} + rcall_wits(BITS as int)",
                     f"wits(*final(self)).subrange(0, {N} as int) == wits(*old(self))"])
    f.cut("""const {
            assert!(
                BITS <= 256,
                "BITS must be <= 256: a witness is at most 256 bits wide"
            )
        };""", name="cut_static_assert_bits<const BITS: usize>", params="", call="Self::cut_static_assert_bits::<BITS>();",
          ensures=["BITS <= 256"])
    f = r.fn("Composer::component_range")
    f.verus("composer.Composer::component_range",
            requires=["valid_w(*old(self), witness)", "BIT_PAIRS <= usize::MAX / 2"],
            ensures=["pis(*final(self)) == pis(*old(self))",
                     f"gates(*final(self)) == gates(*old(self)) + rce_rows(if BIT_PAIRS * 2 <= 256 {{ BIT_PAIRS * 2 }} else {{ 256int }}, {N} as int, witness.idx())",
                     f"wits(*final(self)).subrange(0, {N} as int) == wits(*old(self))"])

"""Range gadgets: range_check_even, range_check, component_range(_bits) (C09, C07)."""
import importlib.util, os
def _load(n):
    p = os.path.join(os.path.dirname(__file__), n)
    spec = importlib.util.spec_from_file_location(n[:-3] + "_u", p); m = importlib.util.module_from_spec(spec); spec.loader.exec_module(m); return m

FO = "proof { field_obeys(); } broadcast use field_axioms;"

def overlay(o):
    if "src/composer/bits.rs" not in o.files:
        _load("composer_bits_select.py").overlay(o)
    o.spec_module("range_specs")
    r = o.file("src/composer/range.rs")
    f = r.fn("Composer::range_check_even")
    N = "wits(*old(self)).len()"
    NB = "(num_bits as int)"
    f.verus("composer.Composer::range_check_even", attrs=["#[verifier::loop_isolation(false)]"],
            requires=["valid_w(*old(self), witness)", "num_bits % 2 == 0", "num_bits <= 256", "wits(*old(self)).len() + 256 < usize::MAX"],
            ensures=["pis(*final(self)) == pis(*old(self))",
                     "num_bits == 0 ==> wits(*final(self)) == wits(*old(self))"
                     " && gates(*final(self)) == gates(*old(self)).push(arith_row(0, 1, 0, 0, 0, 0, witness.idx(), 0, 0, 0))",
                     f"num_bits > 0 ==> wits(*final(self)).len() == {N} + num_bits / 2"
                     f" && wits(*final(self)).subrange(0, {N} as int) == wits(*old(self))",
                     f"num_bits > 0 ==> gates(*final(self)) == gates(*old(self)) + rc_rows({NB}, {N} as int)"
                     f".push(arith_row(0, 1, neg1(), 0, 0, 0, ({N} + num_bits / 2 - 1) as nat, witness.idx(), 0, 0))"])
    f.at_body_start(FO)
    f.before("let pad = 1 + (((num_quads << 1) - num_bits) >> 1);", """proof {
    assert(num_gates == rc_ng(num_bits as int));
    assert(num_quads <= 132);
    assert(num_quads << 1usize == num_quads * 2) by(bit_vector) requires num_quads <= 132;
    assert(forall|y: usize| y >> 1usize == y / 2) by(bit_vector);
}""")
    f.after("let pad = 1 + (((num_quads << 1) - num_bits) >> 1);", """proof {
    assert(num_quads == rc_nq(num_bits as int));
    assert(pad == rc_pad(num_bits as int));
    assert(1 <= pad <= num_quads);
}""")
    f.before("let mut accumulators: Vec<Witness> = Vec::new();", """proof {
    assert(is_range_base(base));
    assert(base.w(0) == 0 && base.w(1) == 0 && base.w(2) == 0 && base.w(3) == 0);
    assert(rc_partial(constraints@, num_bits as int, wits(*old(self)).len() as int, pad as int));
}""")
    f.before("let bit_index = (num_quads - i) << 1;", """proof {
    assert(forall|y: usize| y <= 200 ==> #[trigger] (y << 1usize) == y * 2) by(bit_vector);
}""")
    f.before("if let Some(c) = constraints.last_mut() {\n            *c = Constraint::new();", """proof {
    assert(accumulators@.len() == num_bits / 2);
}""")
    f.before("constraints\n            .into_iter()", """proof {
    let nb = num_bits as int; let n0 = wits(*old(self)).len() as int;
    assert(rc_final(constraints@, nb, n0));
}
let ghost cs0 = constraints@;""")
    f.loop(0, invariant=[
        "bits@.len() == 256",
        "wits(*self).len() == wits(*old(self)).len() + (i - pad)",
        "wits(*self).subrange(0, wits(*old(self)).len() as int) == wits(*old(self))",
        "gates(*self) == gates(*old(self))", "pis(*self) == pis(*old(self))",
        "accumulators@.len() == i - pad",
        "forall|j: int| 0 <= j < accumulators@.len() ==> (#[trigger] accumulators@[j]).idx() == wits(*old(self)).len() + j",
        "rc_partial(constraints@, num_bits as int, wits(*old(self)).len() as int, i as int)",
    ])
    f.before("let mut num_gates = num_bits >> 3;", "proof { assert(num_bits >> 3usize == num_bits / 8) by(bit_vector); }")
    f.cut("""let bit_iter = BitIterator8::new(bits.to_bytes());
        let mut bits: Vec<_> = bit_iter.collect();
        bits.reverse();""", name="cut_le_bits", params="bits: BlsScalar", ret="r: Vec<bool>", tail="bits",
          call="let bits: Vec<bool> = Self::cut_le_bits(bits);",
          ensures=["r@.len() == 256", "forall|k: int| 0 <= k < 256 ==> r@[k] == bit_of(cv(bits), k)"])
    f.for_each_to_loop("""constraints
            .into_iter()
            .for_each(|c| self.append_custom_gate(c));""", "c", "constraints", "self.append_custom_gate(c)", iter_name="it", invariant=[
        "rc_final(cs0, num_bits as int, wits(*old(self)).len() as int)",
        "0 <= it.index@ <= cs0.len()",
        "it.seq() == cs0",
        "wits(*self).len() == wits(*old(self)).len() + num_bits / 2",
        "wits(*self).subrange(0, wits(*old(self)).len() as int) == wits(*old(self))",
        "pis(*self) == pis(*old(self))",
        "gates(*self) == gates(*old(self)) + rc_rows(num_bits as int, wits(*old(self)).len() as int).subrange(0, it.index@)",
    ])

"""Truncation gadgets: assert_canonical_truncation, bind_truncation_split, component_truncate (C11, C07, C10)."""
import importlib.util, os
def _load(n):
    p = os.path.join(os.path.dirname(__file__), n)
    spec = importlib.util.spec_from_file_location(n[:-3] + "_u", p); m = importlib.util.module_from_spec(spec); spec.loader.exec_module(m); return m

FO = "proof { field_obeys(); } broadcast use field_axioms;"
N = "wits(*old(self)).len()"
FRAME = [f"wits(*final(self)).subrange(0, {N} as int) == wits(*old(self))", "pis(*final(self)) == pis(*old(self))"]
KEEP = "proof { assert(wits(*self).subrange(0, wits(*old(self)).len() as int) =~= wits(*old(self))); }"

def overlay(o):
    if "src/composer/range.rs" not in o.files:
        _load("range.py").overlay(o)
    o.spec_module("truncate_specs")
    t = o.file("src/composer/truncate.rs")
    f = t.fn("Composer::assert_canonical_truncation")
    f.verus("composer.Composer::assert_canonical_truncation", attrs=["#[verifier::spinoff_prover]", "#[verifier::rlimit(60)]"],
            requires=["valid_w(*old(self), high)", "valid_w(*old(self), low)", "num_bits <= 255"],
            ensures=[f"gates(*final(self)) == gates(*old(self)) + act_rows(num_bits as int, {N} as int, high.idx(), low.idx())",
                     f"wits(*final(self)).len() == {N} + act_wits(num_bits as int)"] + FRAME)
    f.at_body_start(FO)
    f.after("let high_bits =", """let ghost g0 = gates(*self); let ghost n0 = wits(*self).len() as int; let ghost nb = num_bits as int; let ghost hb = 255 - nb;""")
    f.after("let r_high =", """proof {
    assert((-1int) % R() == R() - 1) by(compute);
    assert(modulus_bits@ =~= le_bits(R() - 1));
    assert(cv(r_low) == spec_r_low(nb) && cv(r_high) == spec_r_high(nb));
}""")
    f.after("let diff =", """proof {
    lemma_md_range(bits_val(le_bits(R() - 1), nb, 256));
    assert(gates(*self) == g0.push(arith_row(0, neg1(), 0, neg1(), 0, spec_r_high(nb), high.idx(), 0, n0 as nat, 0)));
    assert(diff.idx() == n0);
}""")
    f.before("let diff_inverse =", KEEP + """
let ghost g1 = gates(*self); let ghost n1 = wits(*self).len() as int;
proof { assert(n1 == n0 + 1 + rcall_wits(hb)); }""")
    f.after("let r_low_minus_low =", KEEP)
    f.after("let guard =", KEEP + """
proof {
    lemma_md_range(bits_val(le_bits(R() - 1), 0, nb));
    assert(inverse.idx() == n1 && product.idx() == n1 + 1 && is_top.idx() == n1 + 2 && r_low_minus_low.idx() == n1 + 3 && guard.idx() == n1 + 4);
    assert(gates(*self) == g1
        .push(arith_row(1, 0, 0, neg1(), 0, 0, n0 as nat, n1 as nat, (n1 + 1) as nat, 0))
        .push(arith_row(0, neg1(), 0, neg1(), 0, 1, (n1 + 1) as nat, 0, (n1 + 2) as nat, 0))
        .push(arith_row(1, 0, 0, 0, 0, 0, n0 as nat, (n1 + 2) as nat, 0, 0))
        .push(arith_row(0, neg1(), 0, neg1(), 0, spec_r_low(nb), low.idx(), 0, (n1 + 3) as nat, 0))
        .push(arith_row(1, 0, 0, neg1(), 0, 0, (n1 + 2) as nat, (n1 + 3) as nat, (n1 + 4) as nat, 0)));
}""")
    f.before_tail(KEEP + """
proof { assert(gates(*self) =~= g0 + act_rows(nb, n0, high.idx(), low.idx())); }""")

    # ---- bind_truncation_split
    f = t.fn("Composer::bind_truncation_split")
    f.verus("composer.Composer::bind_truncation_split", attrs=["#[verifier::spinoff_prover]", "#[verifier::rlimit(60)]"],
            requires=["valid_w(*old(self), input)", "valid_w(*old(self), low)", "num_bits <= 255"],
            ensures=[f"gates(*final(self)) == gates(*old(self)) + bts_rows(num_bits as int, {N} as int, input.idx(), low.idx())",
                     f"wits(*final(self)).len() == {N} + bts_wits(num_bits as int)"] + FRAME)
    f.at_body_start(FO)
    f.after("let high_bits =", """let ghost g0 = gates(*self); let ghost n0 = wits(*self).len() as int; let ghost nb = num_bits as int; let ghost hb = 255 - nb;""")
    f.after("let high =", KEEP)
    f.after("self.range_check(high, high_bits)", KEEP)
    f.after("let recomposed =", KEEP + """
proof { assert(high.idx() == n0 && recomposed.idx() == n0 + 1 + rcall_wits(hb)); }""")
    f.after("self.assert_equal(recomposed, input)", KEEP)
    f.before_tail(KEEP + """
proof { assert(gates(*self) =~= g0 + bts_rows(nb, n0, input.idx(), low.idx())); }""")
    # ---- component_truncate::<N>
    f = t.fn("Composer::component_truncate")
    f.verus("composer.Composer::component_truncate", ret="r", attrs=["#[verifier::spinoff_prover]", "#[verifier::rlimit(60)]"],
            requires=["valid_w(*old(self), witness)"],
            ensures=[f"r.idx() == {N}",
                     f"gates(*final(self)) == gates(*old(self)) + trunc_rows(N as int, {N} as int, witness.idx())",
                     f"wits(*final(self)).len() == {N} + trunc_wits(N as int)"] + FRAME)
    f.at_body_start(FO)
    f.cut("""const {
            assert!(
                N <= 254,
                "N must be <= 254: truncation operates on at most 254 bits"
            )
        };""", name="cut_static_assert_trunc<const N: usize>", params="", call="Self::cut_static_assert_trunc::<N>();", ensures=["N <= 254"])
    f.before("let low_value =", "let ghost g0 = gates(*self); let ghost n0 = wits(*self).len() as int;")
    f.after("let low =", KEEP)
    f.after("self.range_check(low, N)", KEEP)
    f.before_tail(KEEP + """
proof { assert(gates(*self) =~= g0 + trunc_rows(N as int, n0, witness.idx())); }""")

"""Polynomial / FFT kernels, the small part within reach (C19): util::powers_of."""
def overlay(o):
    o.spec_module("base"); o.spec_module("field"); o.spec_module("modarith"); o.spec_module("kernels_specs")
    u = o.file("src/util.rs")
    f = u.fn("powers_of")
    f.verus("kernels.powers_of", ret="r", attrs=["#[verifier::loop_isolation(false)]"],
            requires=["max_degree < usize::MAX"],
            ensures=["r@.len() == max_degree + 1",
                     "forall|i: int| 0 <= i <= max_degree ==> cv(#[trigger] r@[i]) == fpow(cv(*scalar), i as nat)"])
    f.at_body_start("proof { field_obeys(); } broadcast use field_axioms;")
    f.loop(0, invariant=["powers@.len() == i", "forall|j: int| 0 <= j < i ==> cv(#[trigger] powers@[j]) == fpow(cv(*scalar), j as nat)"])

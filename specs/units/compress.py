"""Compressed-circuit reader: packed_size_limit, PackedCircuitReader::{take, unpack_array_len, is_empty} (C15, C17)."""
W = "callee wrapper (body = the replaced call, contract assumed)"

def overlay(o):
    o.spec_module("base")
    o.spec_module("cuts")
    e = o.file("src/error.rs")
    if not any(r.get("kind", "").startswith("verus!{} around enum Error") for r in e.records):
        e.wrap_item("enum", "Error")
    c = o.file("src/composer/compress.rs")
    c.wrap_item("struct", "PackedCircuitReader")
    c.wrap_const_closure("CompressedCircuit::PACKED_FIXED_BYTES")
    c.wrap_const_closure("CompressedCircuit::PACKED_BYTES_PER_CONSTRAINT")
    f = c.fn("PackedCircuitReader::new")
    f.verus("compress.PackedCircuitReader::new", ret="r", ensures=["r.remaining@ == packed@"])
    f = c.fn("PackedCircuitReader::is_empty")
    f.verus("compress.PackedCircuitReader::is_empty", ret="r", ensures=["r == (self.remaining@.len() == 0)"])
    f = c.fn("PackedCircuitReader::take")
    f.verus("compress.PackedCircuitReader::take", ret="r",
            ensures=["len <= old(self).remaining@.len() ==> r.is_ok() && r.unwrap()@ == old(self).remaining@.subrange(0, len as int)"
                     " && final(self).remaining@ == old(self).remaining@.subrange(len as int, old(self).remaining@.len() as int)",
                     "len > old(self).remaining@.len() ==> r.is_err() && final(self).remaining@ == old(self).remaining@"])

    f = c.fn("PackedCircuitReader::unpack_array_len")
    f.verus("compress.PackedCircuitReader::unpack_array_len", ret="r",
            ensures=["old(self).remaining@.len() == 0 ==> r.is_err()",
                     # fixarray
                     "old(self).remaining@.len() >= 1 && 0x90 <= old(self).remaining@[0] <= 0x9f ==> r.is_ok() && r.unwrap() == (old(self).remaining@[0] & 0x0f) as usize"
                     " && final(self).remaining@ == old(self).remaining@.subrange(1, old(self).remaining@.len() as int)",
                     # array 16 / array 32: the length is the BIG-endian integer of the next 2 / 4 bytes (MessagePack), which are consumed
                     "old(self).remaining@.len() >= 3 && old(self).remaining@[0] == 0xdc ==> r.is_ok() && r.unwrap() as int == old(self).remaining@[1] as int * 256 + old(self).remaining@[2] as int"
                     " && final(self).remaining@ == old(self).remaining@.subrange(3, old(self).remaining@.len() as int)",
                     "old(self).remaining@.len() >= 5 && old(self).remaining@[0] == 0xdd ==> r.is_ok() && r.unwrap() as int == old(self).remaining@[1] as int * 16777216 + old(self).remaining@[2] as int * 65536"
                     " + old(self).remaining@[3] as int * 256 + old(self).remaining@[4] as int && final(self).remaining@ == old(self).remaining@.subrange(5, old(self).remaining@.len() as int)",
                     # anything that is not an array tag is rejected
                     "old(self).remaining@.len() >= 1 && !(0x90 <= old(self).remaining@[0] <= 0x9f) && old(self).remaining@[0] != 0xdc && old(self).remaining@[0] != 0xdd ==> r.is_err()",
                     # the reader never grows
                     "final(self).remaining@.len() <= old(self).remaining@.len()"])
    f.replace("u16::from_be_bytes([bytes[0], bytes[1]])", "v_u16_from_be_bytes([bytes[0], bytes[1]])", rule=W)
    f.replace("""usize::try_from(u32::from_be_bytes([
                    bytes[0], bytes[1], bytes[2], bytes[3],
                ]))
                .map_err(|_| Error::InvalidCompressedCircuit)""", "v_u32_be_to_usize([bytes[0], bytes[1], bytes[2], bytes[3]])", rule=W)
    f = c.fn("CompressedCircuit::packed_size_limit")
    f.verus("compress.CompressedCircuit::packed_size_limit", ret="r",
            ensures=["max_constraints * 857 + 30 <= usize::MAX ==> r.is_ok() && r.unwrap() == max_constraints * 857 + 30",
                     "max_constraints * 857 + 30 > usize::MAX ==> r.is_err()"])
    f.replace("|size| size.checked_add(Self::PACKED_FIXED_BYTES)",
              "|size: usize| -> (r: Option<usize>) ensures r == (if size + 30 <= usize::MAX { Some((size + 30) as usize) } else { None::<usize> }) { size.checked_add(Self::PACKED_FIXED_BYTES) }",
              rule="D2 (closure header annotation: parameter type + postcondition)")

"""Spec-level semantic lemmas (C11): the canonical split enforced by the truncation rows - soundness and completeness, 1 <= N <= 254."""
def overlay(o):
    o.spec_module("gadget_lemmas")
    o.spec_module("truncate_lemmas")

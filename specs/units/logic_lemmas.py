"""Spec-level semantic lemmas (C10): quad semantics of the logic identity, accumulator chain, returned value."""
def overlay(o):
    o.spec_module("base")
    o.spec_module("field")
    o.spec_module("modarith")
    o.spec_module("logic_lemmas")

"""Checked decoders: totality (no panic) and bounds (C17), framing (C16)."""
W = "callee wrapper (body = the replaced call, contract assumed)"

def header_rewrites(f):
    f.replace_all('<[u8; 8]>::try_from(&bytes[..8]).expect("checked len")', "v_arr8(&bytes[..8])", rule=W)
    f.replace_all("u64::from_be_bytes(", "v_u64_from_be_bytes(", rule=W)

def checked_add_closure(f, var):
    """D2: annotate `|len| len.checked_add(VAR)` with parameter type and the postcondition of checked_add"""
    f.replace(f"|len| len.checked_add({var})",
              f"|len: usize| -> (r: Option<usize>) ensures r == (if len + {var} <= usize::MAX {{ Some((len + {var}) as usize) }} else {{ None::<usize> }}) {{ len.checked_add({var}) }}",
              rule="D2 (closure header annotation: parameter type + postcondition)")

def overlay(o):
    o.spec_module("base")
    o.spec_module("field")
    o.spec_module("opaque_pv")
    o.spec_module("cuts")
    o.spec_module("cuts_decoders")
    e = o.file("src/error.rs")
    e.wrap_item("enum", "Error")
    v = o.file("src/compiler/verifier.rs")
    f = v.fn("Verifier::new")
    f.verus("decoders.Verifier::new", ret="r", external_body=True, ensures=["true"])
    f = v.fn("Verifier::try_from_bytes")
    f.verus("decoders.Verifier::try_from_bytes", ret="r", ensures=["true"])
    header_rewrites(f)
    f.replace("bytes.as_ref()", "v_as_ref_bytes(&bytes)", rule=W)
    f.replace("VerifierKey::from_slice(verifier_key)?", "v_verifier_key_from_slice(verifier_key)?", rule=W)
    f.replace("OpeningKey::from_slice(opening_key)?", "v_opening_key_from_slice(opening_key)?", rule=W)
    f.replace("""public_input_indexes
            .chunks_exact(8)
            .map(|c| <[u8; 8]>::try_from(c).expect("checked len"))
            .map(u64::from_be_bytes)
            .map(|n| n as usize)
            .collect()""", "v_be_u64_list(public_input_indexes)", rule=W)
    checked_add_closure(f, "opening_key_len")
    checked_add_closure(f, "public_input_indexes_bytes_len")

    p = o.file("src/compiler/prover.rs")
    f = p.fn("Prover::new")
    f.verus("decoders.Prover::new", ret="r", external_body=True, ensures=["true"])
    f = p.fn("Prover::try_from_bytes")
    f.verus("decoders.Prover::try_from_bytes", ret="r", ensures=["true"])
    header_rewrites(f)
    f.replace("bytes.as_ref()", "v_as_ref_bytes(&bytes)", rule=W)
    checked_add_closure(f, "commit_key_len")
    checked_add_closure(f, "verifier_key_len")
    f.replace("constraints.checked_next_power_of_two() != Some(size)", "v_npot_ne(constraints, size)", rule=W)
    f.replace_all("dusk_bytes::Error::InvalidData.into()", "v_invalid_data()", rule=W)
    f.replace("ProverKey::from_slice(prover_key)?", "v_prover_key_from_slice(prover_key)?", rule=W)
    f.replace("prover_key.n != size", "v_prover_key_n(&prover_key) != size", rule=W)
    f.replace("CommitKey::from_raw_var_bytes(commit_key)?", "v_commit_key_from_raw(commit_key)?", rule=W)
    f.replace("VerifierKey::from_slice(verifier_key)?", "v_verifier_key_from_slice(verifier_key)?", rule=W)

def overlay(o):
    o.spec_module("base"); o.spec_module("field"); o.spec_module("modarith")

"""Constraint builder, Witness, Gate, Composer leaves and the basic gates (C07, C08)."""

CS = "src/composer/constraint_system/"

def types(o):
    o.spec_module("base")
    o.spec_module("field")
    o.spec_module("modarith")
    o.spec_module("composer_specs")
    w = o.file(CS + "witness.rs")
    w.wrap_item("struct", "Witness")
    w.append("""::vstd::prelude::verus!{
impl Witness {
    /// ghost view of the private field
    pub closed spec fn idx(self) -> nat { self.index as nat }
    pub broadcast proof fn idx_inj(a: Witness, b: Witness)
        requires #[trigger] a.idx() == #[trigger] b.idx()
        ensures a == b
    {}
}
}""", note="ghost view Witness::idx (spec only)")
    g = o.file("src/composer/gate.rs")
    g.wrap_item("struct", "Gate")
    w.wrap_const_exec("Witness::ONE", ["Witness::ONE.idx() == 1"], "composer.Witness::ONE")
    w.wrap_const_exec("Witness::ZERO", ["Witness::ZERO.idx() == 0"], "composer.Witness::ZERO")
    m = o.file("src/composer.rs")
    m.wrap_const_exec("Composer::ONE", ["Composer::ONE.idx() == 1"], "composer.Composer::ONE")
    m.wrap_const_exec("Composer::ZERO", ["Composer::ZERO.idx() == 0"], "composer.Composer::ZERO")
    c = o.file(CS + "constraint.rs")
    c.wrap_item("const", "Constraint::COEFFICIENTS")
    c.wrap_item("const", "Constraint::WITNESSES")
    c.wrap_item("enum", "Selector")
    c.wrap_item("enum", "WiredWitness")
    c.wrap_item("struct", "Constraint")
    return w, g, c

def overlay(o):
    w, g, c = types(o)
    f = w.fn("Witness::new")
    f.verus("composer.Witness::new", ret="r", ensures=["r.idx() == index"])
    f = w.fn("Witness::index")
    f.verus("composer.Witness::index", ret="r", ensures=["r == self.idx()"])
    constraint(o, c)
    composer(o, o.file("src/composer.rs"))

CONSTRAINT_GHOST = """::vstd::prelude::verus!{
pub(crate) open spec fn sel_idx(r: Selector) -> int {
    match r {
        Selector::Multiplication => 0, Selector::Left => 1, Selector::Right => 2, Selector::Output => 3,
        Selector::Fourth => 4, Selector::Constant => 5, Selector::PublicInput => 6, Selector::Arithmetic => 7,
        Selector::Range => 8, Selector::Logic => 9, Selector::GroupAddFixedBase => 10, Selector::GroupAddVariableBase => 11,
    }
}
pub(crate) open spec fn wire_idx(w: WiredWitness) -> int {
    match w { WiredWitness::A => 0, WiredWitness::B => 1, WiredWitness::C => 2, WiredWitness::D => 3 }
}
impl Constraint {
    /// ghost views of the private fields
    pub closed spec fn coeffs(self) -> Seq<BlsScalar> { self.coefficients@ }
    pub closed spec fn wires(self) -> Seq<Witness> { self.witnesses@ }
    pub closed spec fn has_pi(self) -> bool { self.has_public_input }
    pub open spec fn wf(self) -> bool { self.coeffs().len() == 12 && self.wires().len() == 4 }
    /// canonical value of coefficient k
    pub open spec fn q(self, k: int) -> int { cv(self.coeffs()[k]) }
    pub open spec fn w(self, k: int) -> nat { self.wires()[k].idx() }
}
}"""

def constraint(o, c):
    c.append(CONSTRAINT_GHOST, note="ghost views Constraint::{coeffs,wires,has_pi}, sel_idx, wire_idx (spec only)")
    f = c.fn("Constraint::new")
    f.verus("composer.Constraint::new", ret="r",
            ensures=["r.wf()", "!r.has_pi()"] + [f"r.q({k}) == 0" for k in range(12)] + [f"r.w({k}) == 0" for k in range(4)])
    f = c.fn("Constraint::set")
    f.demut_self()
    f.verus("composer.Constraint::set", ret="res",
            requires=["self.wf()", "<T as IntoSpec<BlsScalar>>::obeys_into_spec()"],
            ensures=["res.wf()", "res.coeffs() == self.coeffs().update(sel_idx(r), s.into_spec())",
                     "res.wires() == self.wires()", "res.has_pi() == self.has_pi()"])

    OB = "<T as IntoSpec<BlsScalar>>::obeys_into_spec()"
    f = c.fn("Constraint::set_witness")
    f.verus("composer.Constraint::set_witness", requires=["old(self).wf()"],
            ensures=["final(self).wf()", "final(self).wires() == old(self).wires().update(wire_idx(index), w)",
                     "final(self).coeffs() == old(self).coeffs()", "final(self).has_pi() == old(self).has_pi()"])
    f = c.fn("Constraint::coeff")
    f.verus("composer.Constraint::coeff", ret="res", requires=["self.wf()"], ensures=["*res == self.coeffs()[sel_idx(r)]"])
    f = c.fn("Constraint::witness")
    f.verus("composer.Constraint::witness", ret="res", requires=["self.wf()"], ensures=["res == self.wires()[wire_idx(w)]"])
    for name, k in [("mult", 0), ("left", 1), ("right", 2), ("output", 3), ("fourth", 4), ("constant", 5)]:
        f = c.fn("Constraint::" + name)
        f.verus("composer.Constraint::" + name, ret="res", requires=["self.wf()", OB],
                ensures=["res.wf()", f"res.coeffs() == self.coeffs().update({k}, s.into_spec())",
                         "res.wires() == self.wires()", "res.has_pi() == self.has_pi()"])
    f = c.fn("Constraint::public")
    f.demut_self()
    f.verus("composer.Constraint::public", ret="res", requires=["self.wf()", OB],
            ensures=["res.wf()", "res.coeffs() == self.coeffs().update(6, s.into_spec())",
                     "res.wires() == self.wires()", "res.has_pi()"])
    for name, k in [("a", 0), ("b", 1), ("c", 2), ("d", 3)]:
        f = c.fn("Constraint::" + name)
        f.demut_self()
        f.verus("composer.Constraint::" + name, ret="res", requires=["self.wf()"],
                ensures=["res.wf()", f"res.wires() == self.wires().update({k}, w)",
                         "res.coeffs() == self.coeffs()", "res.has_pi() == self.has_pi()"])
    f = c.fn("Constraint::has_public_input")
    f.verus("composer.Constraint::has_public_input", ret="res", ensures=["res == self.has_pi()"])

    # `impl Default for Constraint { fn default() -> Self { Self::new() } }` stays outside verus!{} (wrapping the trait
    # impl perturbs Verus' encoding of `[x; N]` in `new`).  Its contract (== that of `new`) is ASSUMED here and
    # discharged by the R unit `composer.Constraint::default` (body is exactly the call `Self::new()`).
    c.append("""::vstd::prelude::verus!{
pub assume_specification[ <Constraint as Default>::default ]() -> (r: Constraint)
    ensures r.wf(), !r.has_pi(), r.q(0) == 0, r.q(1) == 0, r.q(2) == 0, r.q(3) == 0, r.q(4) == 0, r.q(5) == 0, r.q(6) == 0, r.q(7) == 0, r.q(8) == 0, r.q(9) == 0, r.q(10) == 0, r.q(11) == 0, r.w(0) == 0, r.w(1) == 0, r.w(2) == 0, r.w(3) == 0;
}""", note="assumed contract of <Constraint as Default>::default (== Constraint::new; discharged by R unit)")
    o.assumed.append({"unit": "composer.Constraint::default", "fn": "<Constraint as Default>::default", "file": c.rel,
                      "requires": [], "ensures": ["same as Constraint::new (discharged by ringcheck unit composer.Constraint::default)"]})
    f = c.fn("Constraint::from_external")
    f.verus("composer.Constraint::from_external", ret="r", requires=["constraint.wf()"],
            ensures=["r.wf()", "r.wires() == constraint.wires()", "r.has_pi() == constraint.has_pi()"]
                    + [f"r.coeffs()[{k}] == constraint.coeffs()[{k}]" for k in range(7)] + [f"r.q({k}) == 0" for k in range(7, 12)])
    f.after("let mut s =", "let ghost s0 = s;")
    f.before_tail("""proof {
    assert(forall|k: int| 7 <= k < 12 ==> s.coefficients@[k] == s0.coefficients@[k]);
}""")
    f.replace("const EXTERNAL: usize = Selector::Arithmetic as usize;",
              "exec const EXTERNAL: usize ensures EXTERNAL == 7 { Selector::Arithmetic as usize }", rule="D8 (const => exec const, initialiser verbatim, value verified)")

    for name, sets in [("arithmetic", {7: 1}), ("range", {8: 1}), ("logic", {5: 1, 9: 1}), ("logic_xor", {5: "neg1()", 9: "neg1()"}),
                       ("group_add_fixed_base", {10: 1}), ("group_add_variable_base", {11: 1})]:
        f = c.fn("Constraint::" + name)
        ens = ["r.wf()", "r.wires() == s.wires()", "r.has_pi() == s.has_pi()"]
        for k in range(12):
            if k in sets:
                ens.append(f"r.q({k}) == {sets[k]}")
            elif k < 7:
                ens.append(f"r.coeffs()[{k}] == s.coeffs()[{k}]")
            else:
                ens.append(f"r.q({k}) == 0")
        f.verus("composer.Constraint::" + name, ret="r", requires=["s.wf()"], ensures=ens)
        f.at_body_start("proof { field_obeys(); } broadcast use field_axioms;")


UNCH = ["gates(*final(self)) == gates(*old(self))", "wits(*final(self)) == wits(*old(self))", "pis(*final(self)) == pis(*old(self))"]
OBW = "<W as IntoSpec<BlsScalar>>::obeys_into_spec()"

def composer(o, m):
    m.append("""::vstd::prelude::verus!{
/// ASSUMED leaf contract: `composer[w]` reads the witness table; precondition: the witness was allocated here
impl vstd::std_specs::core::IndexSpecImpl<Witness> for Composer {
    open spec fn index_req(&self, index: &Witness) -> bool { valid_w(*self, *index) }
}
pub assume_specification[ <Composer as core::ops::Index<Witness>>::index ](c: &Composer, w: Witness) -> (r: &<Composer as core::ops::Index<Witness>>::Output)
    ensures cv(*r) == wits(*c)[w.idx() as int];
}""", note="assumed contract of <Composer as Index<Witness>>::index")
    o.assumed.append({"unit": "composer.Composer::index", "fn": "<Composer as Index<Witness>>::index", "file": m.rel,
                      "requires": ["valid_w(*c, w)"], "ensures": ["cv(*r) == wits(*c)[w.idx()]"]})
    f = m.fn("Composer::append_witness_internal")
    f.verus("composer.Composer::append_witness_internal", ret="r", external_body=True,
            ensures=["wits(*final(self)) == wits(*old(self)).push(cv(witness))", "r.idx() == wits(*old(self)).len()",
                     "gates(*final(self)) == gates(*old(self))", "pis(*final(self)) == pis(*old(self))"])
    f = m.fn("Composer::append_custom_gate_internal")
    f.verus("composer.Composer::append_custom_gate_internal", external_body=True,
            requires=["constraint.wf()"],
            ensures=["gates(*final(self)) == gates(*old(self)).push(gate_of(constraint))", "wits(*final(self)) == wits(*old(self))",
                     "pis(*final(self)) == pis_after(pis(*old(self)), gates(*old(self)).len(), constraint)"])
    f = m.fn("Composer::constraints")
    f.verus("composer.Composer::constraints", ret="r", external_body=True, ensures=["r == gates(*self).len()"])
    # ---- append_witness
    f = m.fn("Composer::append_witness")
    f.verus("composer.Composer::append_witness", ret="r", requires=[OBW],
            ensures=["wits(*final(self)) == wits(*old(self)).push(cv(witness.into_spec()))", "r.idx() == wits(*old(self)).len()",
                     "gates(*final(self)) == gates(*old(self))", "pis(*final(self)) == pis(*old(self))"])
    f.cut("""self.runtime().event(RuntimeEvent::WitnessAppended {
            #[cfg(feature = "debug")]
            w: witness,
            #[cfg(feature = "debug")]
            v,
        });""", name="cut_event_witness_appended", params="&mut self, witness: Witness", call="self.cut_event_witness_appended(witness);",
          ensures=UNCH)
    f = m.fn("Composer::append_custom_gate")
    f.verus("composer.Composer::append_custom_gate", requires=["constraint.wf()"],
            ensures=["gates(*final(self)) == gates(*old(self)).push(gate_of(constraint))", "wits(*final(self)) == wits(*old(self))",
                     "pis(*final(self)) == pis_after(pis(*old(self)), gates(*old(self)).len(), constraint)"])
    f.cut("""self.runtime().event(RuntimeEvent::ConstraintAppended {
            #[cfg(feature = "debug")]
            c: constraint,
        });""", name="cut_event_constraint_appended", params="&mut self, constraint: Constraint", call="self.cut_event_constraint_appended(constraint);",
          ensures=UNCH)
    f = m.fn("Composer::append_gate")
    f.verus("composer.Composer::append_gate", requires=["constraint.wf()"],
            ensures=["gates(*final(self)) == gates(*old(self)).push(GateV { q_arith: 1, ..gate_ext(constraint) })",
                     "wits(*final(self)) == wits(*old(self))",
                     "pis(*final(self)) == pis_after(pis(*old(self)), gates(*old(self)).len(), constraint)"])

    # ---- append_evaluated_output
    f = m.fn("Composer::append_evaluated_output")
    f.verus("composer.Composer::append_evaluated_output", ret="r",
            requires=["valid_constraint(*old(self), s)"],
            ensures=[
                # q_O == 0: no output witness; the row is appended as given
                "s.q(3) == 0 ==> r.is_none() && wits(*final(self)) == wits(*old(self))",
                "s.q(3) == 0 ==> gates(*final(self)) == gates(*old(self)).push(GateV { q_arith: 1, ..gate_ext(s) })",
                # q_O != 0: exactly one fresh witness c with  q_O * c + x == 0 (mod R), wired into the row
                "s.q(3) != 0 ==> r.is_some() && r.unwrap().idx() == wits(*old(self)).len()",
                "s.q(3) != 0 ==> wits(*final(self)).len() == wits(*old(self)).len() + 1"
                " && wits(*final(self)).subrange(0, wits(*old(self)).len() as int) == wits(*old(self))",
                "s.q(3) != 0 ==> (s.q(3) * wits(*final(self))[wits(*old(self)).len() as int] + eo_x(*old(self), s)) % R() == 0",
                "s.q(3) != 0 ==> gates(*final(self)) == gates(*old(self)).push(GateV { q_arith: 1, c: wits(*old(self)).len(), ..gate_ext(s) })",
                # q_O == -1 (gate_add / gate_mul): the output witness holds x itself
                "s.q(3) == neg1() ==> wits(*final(self)) == wits(*old(self)).push(eo_x(*old(self), s))",
                "pis(*final(self)) == pis_after(pis(*old(self)), gates(*old(self)).len(), s)",
            ])
    f.at_body_start("proof { field_obeys(); } broadcast use field_axioms;")
    f.after("let x =", """proof {
    lemma_eo(s.q(0), s.q(1), s.q(2), s.q(4), s.q(5), s.q(6), cv(a), cv(b), cv(d));
    assert(cv(x) == eo_x(*self, s));
}""")
    f.replace("y.invert().map(|y| x * (-y))",
              "match y.invert() { Some(y) => { proof { lemma_out_general(s.q(3), cv(y), cv(x)); } Some(x * (-y)) }, None => None }",
              rule="D9 (Option::map(closure) => its defining match) + proof hint")
    f.after("let c =", """proof {
    lemma_out_one(cv(x));
    lemma_out_minus_one(cv(x));
    lemma_md_small(cv(x));
    assert(s.q(3) != 0 ==> c.is_some() && md(s.q(3) * cv(c.unwrap()) + cv(x)) == 0);
    assert(s.q(3) == 0 ==> c.is_none());
}""")
    f.before_tail("""proof {
    if s.q(3) == neg1() {
        let n = wits(*old(self)).len() as int;
        lemma_md_range(s.q(0)); 
        lemma_out_unique_minus_one(wits(*self)[n], eo_x(*old(self), s));
        assert(wits(*self) =~= wits(*old(self)).push(eo_x(*old(self), s)));
    }
}""")
    f.replace("const ONE: BlsScalar = BlsScalar::one();", "exec const ONE: BlsScalar ensures cv(ONE) == 1 { BlsScalar::one() }",
              rule="D8 (const => exec const, initialiser verbatim, value verified)")
    f.cut_scalar_const("MINUS_ONE", -1, "neg1()")
    f.replace("let output = c.map(|c| self.append_witness(c));",
              "let output = match c { Some(c) => Some(self.append_witness(c)), None => None };",
              rule="D9 (Option::map with a &mut-capturing closure => its defining match)")

    ROWPI = "pis(*final(self)) == pis(*old(self))"
    # ---- gate_add / gate_mul: force q_O = -1, so the returned witness is  x  itself
    for name in ["gate_add", "gate_mul"]:
        f = m.fn("Composer::" + name)
        f.verus("composer.Composer::" + name, ret="r", requires=["valid_constraint(*old(self), s)"],
                ensures=["r.idx() == wits(*old(self)).len()",
                         "wits(*final(self)) == wits(*old(self)).push(eo_x(*old(self), s))",
                         "gates(*final(self)) == gates(*old(self)).push(GateV { q_arith: 1, q_o: neg1(), c: wits(*old(self)).len(), ..gate_ext(s) })",
                         "pis(*final(self)) == pis_after(pis(*old(self)), gates(*old(self)).len(), s)"])
        f.at_body_start("proof { field_obeys(); } broadcast use field_axioms;")
    # ---- assert_equal(a, b):  a - b = 0
    f = m.fn("Composer::assert_equal")
    f.verus("composer.Composer::assert_equal", requires=[],
            ensures=["gates(*final(self)) == gates(*old(self)).push(arith_row(0, 1, neg1(), 0, 0, 0, a.idx(), b.idx(), 0, 0))",
                     "wits(*final(self)) == wits(*old(self))", ROWPI])
    f.at_body_start("proof { field_obeys(); } broadcast use field_axioms;")
    # ---- assert_equal_constant(a, k, pi):  -a + k (+ pi) = 0
    f = m.fn("Composer::assert_equal_constant")
    f.verus("composer.Composer::assert_equal_constant", requires=["<C as IntoSpec<BlsScalar>>::obeys_into_spec()"],
            ensures=["gates(*final(self)) == gates(*old(self)).push(arith_row(0, neg1(), 0, 0, 0, cv(constant.into_spec()), a.idx(), 0, 0, 0))",
                     "wits(*final(self)) == wits(*old(self))",
                     "pis(*final(self)) == (if public.is_some() { pis(*old(self)).insert(gates(*old(self)).len(), cv(public.unwrap())) } else { pis(*old(self)) })"])
    f.at_body_start("proof { field_obeys(); } broadcast use field_axioms;")
    f.replace("public.map(|p| constraint.public(p)).unwrap_or(constraint)",
              "match public { Some(p) => constraint.public(p), None => constraint }",
              rule="D9 (Option::map(closure).unwrap_or(d) => its defining match)")
    # ---- append_constant(k): fresh witness with value k, pinned by a row
    f = m.fn("Composer::append_constant")
    f.verus("composer.Composer::append_constant", ret="r", requires=["<C as IntoSpec<BlsScalar>>::obeys_into_spec()"],
            ensures=["r.idx() == wits(*old(self)).len()", "wits(*final(self)) == wits(*old(self)).push(cv(constant.into_spec()))",
                     "gates(*final(self)) == gates(*old(self)).push(arith_row(0, neg1(), 0, 0, 0, cv(constant.into_spec()), wits(*old(self)).len(), 0, 0, 0))",
                     ROWPI])
    f.at_body_start("proof { field_obeys(); } broadcast use field_axioms;")
    # ---- append_public(v): fresh witness with value v, row  -a + PI = 0  with PI = v registered at this row
    f = m.fn("Composer::append_public")
    f.verus("composer.Composer::append_public", ret="r", requires=["<P as IntoSpec<BlsScalar>>::obeys_into_spec()"],
            ensures=["r.idx() == wits(*old(self)).len()", "wits(*final(self)) == wits(*old(self)).push(cv(public.into_spec()))",
                     "gates(*final(self)) == gates(*old(self)).push(arith_row(0, neg1(), 0, 0, 0, 0, wits(*old(self)).len(), 0, 0, 0))",
                     "pis(*final(self)) == pis(*old(self)).insert(gates(*old(self)).len(), cv(public.into_spec()))"])
    f.at_body_start("proof { field_obeys(); } broadcast use field_axioms;")

def overlay(o):
    o.spec_module("base")
    o.spec_module("field")
    f = o.file("src/proof_system/widget/range/proverkey.rs")
    fn = f.fn("delta")
    fn.verus("probe.delta", ret="r", ensures=["cv(r) == (cv(f) * ((cv(f) - 1) % R()) % R() * ((cv(f) - 2) % R()) % R() * ((cv(f) - 3) % R())) % R()"])
    fn.at_body_start("proof { field_obeys(); broadcast use field_axioms; }")

"""Spec-level semantic lemmas (C08): rows satisfiable <=> documented relation; uniqueness of returned witnesses."""
def overlay(o):
    o.spec_module("gadget_lemmas")

"""Capacity chain: CommitKey::{max_degree,truncate}, PublicParameters::{max_degree,trim},
Compiler::max_constraints (C01, C15, C20)."""

def overlay(o):
    o.spec_module("base")
    o.spec_module("capacity_specs")
    e = o.file("src/error.rs")
    e.wrap_item("enum", "Error")
    k = o.file("src/commitment_scheme/kzg10/key.rs")
    k.wrap_item("struct", "CommitKey")
    f = k.fn("CommitKey::max_degree")
    f.verus("capacity.CommitKey::max_degree", ret="r",
            requires=["self.powers_of_g@.len() >= 1"],
            ensures=["r as int == self.powers_of_g@.len() - 1"])
    f = k.fn("CommitKey::truncate")
    f.verus("capacity.CommitKey::truncate", ret="r",
            requires=["self.powers_of_g@.len() >= 1",
                      "truncated_degree == 1 ==> self.powers_of_g@.len() >= 3"],
            ensures=["truncated_degree == 0 ==> r == Err::<CommitKey, Error>(Error::TruncatedDegreeIsZero)",
                     "truncated_degree > self.powers_of_g@.len() - 1 ==> r == Err::<CommitKey, Error>(Error::TruncatedDegreeTooLarge)",
                     "0 < truncated_degree <= self.powers_of_g@.len() - 1 ==> r.is_ok() && r.unwrap().powers_of_g@ == self.powers_of_g@.subrange(0, (if truncated_degree == 1 { 2int } else { truncated_degree as int }) + 1)"])
    f = k.fn("CommitKey::check_commit_degree_is_within_bounds")
    f.verus("capacity.CommitKey::check_commit_degree_is_within_bounds", ret="r",
            requires=["self.powers_of_g@.len() >= 1"],
            ensures=["poly_degree > self.powers_of_g@.len() - 1 ==> r == Err::<(), Error>(Error::PolynomialDegreeTooLarge)",
                     "poly_degree <= self.powers_of_g@.len() - 1 ==> r.is_ok()"])
    s = o.file("src/commitment_scheme/kzg10/srs.rs")
    s.wrap_item("struct", "PublicParameters")
    f = s.fn("PublicParameters::max_degree")
    s.wrap_item("const", "PublicParameters::ADDED_BLINDING_DEGREE")
    f.verus("capacity.PublicParameters::max_degree", ret="r", narrow_vis=True,
            requires=["self.commit_key.powers_of_g@.len() >= 1"],
            ensures=["r as int == self.commit_key.powers_of_g@.len() - 1"])
    f = s.fn("PublicParameters::trim")
    f.verus("capacity.PublicParameters::trim", ret="r",
            requires=["self.commit_key.powers_of_g@.len() >= 1", "truncated_degree <= usize::MAX - 6"],
            ensures=[
                # trim(n) succeeds exactly when n + 6 <= max_degree; the trimmed key then has n + 7 powers (degree n + 6)
                "truncated_degree + 6 > self.commit_key.powers_of_g@.len() - 1 ==> r.is_err()",
                "truncated_degree + 6 <= self.commit_key.powers_of_g@.len() - 1 ==> r.is_ok()"
                " && r.unwrap().0.powers_of_g@ == self.commit_key.powers_of_g@.subrange(0, truncated_degree + 7)"])
    c = o.file("src/compiler.rs")
    c.wrap_item("struct", "Compiler")
    # `Compiler::CIRCUIT_SIZE_PADDING` cannot be put in verus!{} here: compiler.rs declares `mod verifier;`
    # which shadows Verus' `verifier::` attribute namespace in the macro expansion of a const.  D4 wrapper
    # (body = the constant) + its contract discharged by rustc CTFE.
    c.append("""::vstd::prelude::verus!{
impl Compiler {
#[verifier::external_body]
fn v_circuit_size_padding() -> (r: usize) ensures r == 6 { Self::CIRCUIT_SIZE_PADDING }
}
}""", note="D4 wrapper v_circuit_size_padding() for Compiler::CIRCUIT_SIZE_PADDING")
    c.const_assert("capacity.Compiler", "CIRCUIT_SIZE_PADDING", "Compiler::CIRCUIT_SIZE_PADDING == 6")
    f = c.fn("Compiler::max_constraints")
    f.verus("capacity.Compiler::max_constraints", ret="r",
            requires=["pp.commit_key.powers_of_g@.len() >= 1"],
            ensures=["r as int == spec_max_constraints(pp.commit_key.powers_of_g@.len() - 1)"])
    f.replace("Self::CIRCUIT_SIZE_PADDING", "Self::v_circuit_size_padding()", rule="D4")
    f.before_tail("""proof {
    if available != 0 {
        let k: u32 = (usize::BITS - 1 - spec_usize_lz(available)) as u32;
        // guarded by the facts `leading_zeros`' contract provides at its call: a body that no longer calls it leaves the
        // hint vacuous and is judged by the postcondition alone (a failing postcondition, not a broken hint)
        if spec_usize_lz(available) < usize::BITS && vstd::arithmetic::power2::pow2(k as nat) <= available
            && (available as int) < 2 * vstd::arithmetic::power2::pow2(k as nat) {
            lemma_pow2_floor_bracket(available as int, k as nat);
            lemma_usize_shl_one(k);
        }
    }
}""")

    # ---- direct route: n = npot(c + 6); trim(n)
    o.spec_module("composer_specs_min")
    o.spec_module("opaque_pv")
    f = c.fn("Compiler::preprocess")
    f.verus("capacity.Compiler::preprocess", ret="r", external_body=True, ensures=["true"])
    f = c.fn("Compiler::compile_with_composer")
    f.verus("capacity.Compiler::compile_with_composer", ret="r",
            requires=["pp.commit_key.powers_of_g@.len() >= 1", "ngates(*composer) <= 0x3fff_ffff_ffff_fff0"],
            ensures=["spec_npot(ngates(*composer) + 6) + 6 > pp.commit_key.powers_of_g@.len() - 1 ==> r.is_err()"])
    f.replace("Self::CIRCUIT_SIZE_PADDING", "Self::v_circuit_size_padding()", rule="D4")
    f.replace("composer.constraints()", "v_constraints(composer)", rule="callee wrapper (Composer::constraints, contract assumed: == number of rows)")
    f.before("let n =", """proof {
    assert(is_pow2(0x4000_0000_0000_0000int)) by(compute);
    lemma_npot_upper(ngates(*composer) + 6, 0x4000_0000_0000_0000int);
}""")

"""Spec-level semantic lemma (C14): canonical JubJub scalar <=> the two range checks of assert_canonical_jubjub_scalar."""
def overlay(o):
    o.spec_module("base")
    o.spec_module("field")
    o.spec_module("modarith")
    o.spec_module("fixed_base_lemmas")

"""component_boolean, component_select*, (C07, C08)"""
import importlib.util, os
def _base():
    p = os.path.join(os.path.dirname(__file__), "composer_base.py")
    spec = importlib.util.spec_from_file_location("composer_base_u", p); m = importlib.util.module_from_spec(spec); spec.loader.exec_module(m); return m

FO = "proof { field_obeys(); } broadcast use field_axioms;"
N = "wits(*old(self)).len()"
G0 = "gates(*old(self))"
W0 = "wits(*old(self))"

def overlay(o):
    if "src/composer.rs" not in o.files:
        _base().overlay(o)
    b = o.file("src/composer/bits.rs")
    f = b.fn("Composer::component_boolean")
    f.verus("composer.Composer::component_boolean",
            ensures=[f"gates(*final(self)) == {G0}.push(arith_row(1, 0, 0, neg1(), 0, 0, a.idx(), a.idx(), a.idx(), 0))",
                     f"wits(*final(self)) == {W0}", "pis(*final(self)) == pis(*old(self))"])
    f.at_body_start(FO)
    s = o.file("src/composer/select.rs")
    f = s.fn("Composer::component_select")
    wb, wa, wbb = f"{W0}[bit.idx() as int]", f"{W0}[a.idx() as int]", f"{W0}[b.idx() as int]"
    v0 = f"(({wb}) * ({wa})) % R()"
    v1 = f"(neg1() * ({wb}) + 1) % R()"
    v2 = f"(({v1}) * ({wbb})) % R()"
    v3 = f"(({v2}) + ({v0})) % R()"
    f.verus("composer.Composer::component_select", ret="r",
            requires=["valid_w(*old(self), bit)", "valid_w(*old(self), a)", "valid_w(*old(self), b)"],
            ensures=[f"r.idx() == {N} + 3",
                     f"wits(*final(self)) == {W0}.push({v0}).push({v1}).push({v2}).push({v3})",
                     f"gates(*final(self)) == {G0}"
                     f".push(arith_row(1, 0, 0, neg1(), 0, 0, bit.idx(), a.idx(), {N}, 0))"
                     f".push(arith_row(0, neg1(), 0, neg1(), 0, 1, bit.idx(), 0, {N} + 1, 0))"
                     f".push(arith_row(1, 0, 0, neg1(), 0, 0, {N} + 1, b.idx(), {N} + 2, 0))"
                     f".push(arith_row(0, 1, 1, neg1(), 0, 0, {N} + 2, {N}, {N} + 3, 0))",
                     "pis(*final(self)) == pis(*old(self))"])
    f.at_body_start(FO)
    f.before("let bit_times_a =", "proof { lemma_eo_x_mul(*self, constraint); }")
    f.after("let bit_times_a =", f"proof {{ assert(wits(*self) == {W0}.push({v0})); }}")
    f.before("let one_min_bit =", "proof { lemma_eo_x_lin(*self, constraint); }")
    f.after("let one_min_bit =", f"proof {{ assert(wits(*self) == {W0}.push({v0}).push({v1})); }}")
    f.after("let one_min_bit_b =", f"proof {{ assert(wits(*self) == {W0}.push({v0}).push({v1}).push({v2})); }}")
    f.before("let one_min_bit_b =", "proof { lemma_eo_x_mul(*self, constraint); }")
    f.before_tail("proof { lemma_eo_x_add(*self, constraint); }")
    f = s.fn("Composer::component_select_zero")
    f.verus("composer.Composer::component_select_zero", ret="r",
            requires=["valid_w(*old(self), bit)", "valid_w(*old(self), value)"],
            ensures=[f"r.idx() == {N}", f"wits(*final(self)) == {W0}.push((({W0}[bit.idx() as int]) * ({W0}[value.idx() as int])) % R())",
                     f"gates(*final(self)) == {G0}.push(arith_row(1, 0, 0, neg1(), 0, 0, bit.idx(), value.idx(), {N}, 0))",
                     "pis(*final(self)) == pis(*old(self))"])
    f.at_body_start(FO)
    f.before_tail("proof { lemma_eo_x_mul(*self, constraint); }")
    f = s.fn("Composer::component_select_one")
    f.verus("composer.Composer::component_select_one", ret="r",
            requires=["valid_w(*old(self), bit)", "valid_w(*old(self), value)"],
            ensures=[f"r.idx() == {N}",
                     f"wits(*final(self)) == {W0}.push(((1 - {W0}[bit.idx() as int]) % R() + (({W0}[bit.idx() as int]) * ({W0}[value.idx() as int])) % R()) % R())",
                     f"gates(*final(self)) == {G0}.push(arith_row(1, neg1(), 0, neg1(), 0, 1, bit.idx(), value.idx(), {N}, 0))",
                     "pis(*final(self)) == pis(*old(self))"])
    f.at_body_start(FO)

"""Spec-level semantic lemmas (C09): interval soundness (even 2..=254, odd 1..=253) and completeness of the honest chain."""
def overlay(o):
    o.spec_module("gadget_lemmas")
    o.spec_module("range_lemmas")

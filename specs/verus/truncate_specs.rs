//! Layout of the truncation gadgets (specification side; from the documented construction: range-checked high part,
//! recomposition row, closing equality, canonical guard with is-zero gadget and guarded low bound).
use vstd::prelude::*;
use vstd::arithmetic::power2::*;
use crate::verif_specs::field::*;
use crate::verif_specs::modarith::*;
use crate::verif_specs::composer_specs::*;
use crate::verif_specs::bits_specs::*;
use crate::verif_specs::range_specs::*;
verus! {

/// R - 1 = r_high * 2^nb + r_low, read off the 256 little-endian bits of R - 1
pub open spec fn spec_r_low(nb: int) -> int { md(bits_val(le_bits(R() - 1), 0, nb)) }
pub open spec fn spec_r_high(nb: int) -> int { md(bits_val(le_bits(R() - 1), nb, 256)) }

pub open spec fn act_wits(nb: int) -> int { 1 + rcall_wits(255 - nb) + 5 + rcall_wits(nb) }

/// rows of `assert_canonical_truncation(high, low, nb)`, fresh witnesses allocated from n0
pub open spec fn act_rows(nb: int, n0: int, high: nat, low: nat) -> Seq<GateV> {
    let hb = 255 - nb;
    let diff = n0 as nat;
    let n1 = n0 + 1 + rcall_wits(hb);
    let inverse = n1 as nat;
    let product = (n1 + 1) as nat;
    let is_top = (n1 + 2) as nat;
    let rlml = (n1 + 3) as nat;
    let guard = (n1 + 4) as nat;
    seq![arith_row(0, neg1(), 0, neg1(), 0, spec_r_high(nb), high, 0, diff, 0)]      // diff = r_high - high
        + rcall_rows(hb, n0 + 1, diff)                                         // diff in [0, 2^hb)
        + seq![
            arith_row(1, 0, 0, neg1(), 0, 0, diff, inverse, product, 0),       // product = diff * inverse
            arith_row(0, neg1(), 0, neg1(), 0, 1, product, 0, is_top, 0),      // is_top = 1 - product
            arith_row(1, 0, 0, 0, 0, 0, diff, is_top, 0, 0),                   // diff * is_top = 0
            arith_row(0, neg1(), 0, neg1(), 0, spec_r_low(nb), low, 0, rlml, 0),    // r_low - low
            arith_row(1, 0, 0, neg1(), 0, 0, is_top, rlml, guard, 0),          // guard = is_top * (r_low - low)
        ]
        + rcall_rows(nb, n1 + 5, guard)                                        // guard in [0, 2^nb)
}

pub open spec fn bts_wits(nb: int) -> int { 1 + rcall_wits(255 - nb) + 1 + act_wits(nb) }

/// rows of `bind_truncation_split(input, low, nb)`
pub open spec fn bts_rows(nb: int, n0: int, input: nat, low: nat) -> Seq<GateV> {
    let hb = 255 - nb;
    let high = n0 as nat;
    let rec = (n0 + 1 + rcall_wits(hb)) as nat;
    rcall_rows(hb, n0 + 1, high)                                                          // high in [0, 2^hb)
        .push(arith_row(0, (pow2(nb as nat) as int) % R(), 1, neg1(), 0, 0, high, low, rec, 0))   // rec = 2^nb high + low
        .push(arith_row(0, 1, neg1(), 0, 0, 0, rec, input, 0, 0))                          // rec == input
        + act_rows(nb, n0 + 1 + rcall_wits(hb) + 1, high, low)
}

pub open spec fn trunc_wits(nb: int) -> int { 1 + rcall_wits(nb) + bts_wits(nb) }

/// rows of `component_truncate::<N>(w)`; the returned witness is n0
pub open spec fn trunc_rows(nb: int, n0: int, w: nat) -> Seq<GateV> {
    rcall_rows(nb, n0 + 1, n0 as nat) + bts_rows(nb, n0 + 1 + rcall_wits(nb), w, n0 as nat)
}

} // verus!

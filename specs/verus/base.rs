//! Shared specification vocabulary, part 1: external types of the dependencies.
//! Everything here is an ASSUMPTION about a dependency (opaque types only; no facts).
use vstd::prelude::*;

verus! {

#[verifier::external_type_specification]
#[verifier::external_body]
pub struct ExBlsScalar(dusk_bls12_381::BlsScalar);

#[verifier::external_type_specification]
#[verifier::external_body]
pub struct ExG1Affine(dusk_bls12_381::G1Affine);

#[verifier::external_type_specification]
#[verifier::external_body]
pub struct ExG2Affine(dusk_bls12_381::G2Affine);

#[verifier::external_type_specification]
#[verifier::external_body]
pub struct ExG2Prepared(dusk_bls12_381::G2Prepared);

#[verifier::external_type_specification]
#[verifier::external_body]
pub struct ExDuskBytesError(dusk_bytes::Error);

} // verus!

verus! {

#[verifier::external_type_specification]
#[verifier::external_body]
pub struct ExOpeningKey(crate::commitment_scheme::OpeningKey);

/// ASSUMED contract of `usize::leading_zeros` (std): position of the highest set bit.
pub uninterp spec fn spec_usize_lz(x: usize) -> u32;

pub assume_specification [usize::leading_zeros] (x: usize) -> (r: u32)
    ensures
        r == spec_usize_lz(x),
        r <= usize::BITS,
        x == 0 ==> r == usize::BITS,
        x != 0 ==> r < usize::BITS && vstd::arithmetic::power2::pow2((usize::BITS - 1 - r) as nat) <= x
            && (x as int) < 2 * vstd::arithmetic::power2::pow2((usize::BITS - 1 - r) as nat),
;

/// ASSUMED contract of `usize::div_ceil` (std): ceiling division; panics on a zero divisor (precondition).  Not called by the crate at
/// the pinned commit; present so that a change which starts to use it is decided instead of stopping the verifier.
pub assume_specification [usize::div_ceil] (a: usize, b: usize) -> (r: usize)
    requires
        b != 0,
    ensures
        r as int == (a as int + b as int - 1) / (b as int),
;

/// ASSUMED contract of `usize::trailing_zeros` (std): position of the lowest set bit.  Not called by the crate at the pinned
/// commit; present so that a change which starts to use it is DECIDED against the contracts instead of stopping the verifier.
pub uninterp spec fn spec_usize_tz(x: usize) -> u32;

pub assume_specification [usize::trailing_zeros] (x: usize) -> (r: u32)
    ensures
        r == spec_usize_tz(x),
        r <= usize::BITS,
        x == 0 ==> r == usize::BITS,
        x != 0 ==> r < usize::BITS && (x as int) % (vstd::arithmetic::power2::pow2(r as nat) as int) == 0
            && ((x as int) / (vstd::arithmetic::power2::pow2(r as nat) as int)) % 2 == 1,
;

} // verus!

verus! {
/// ASSUMPTION: 64-bit target (the only one the crate is built for in this sandbox).
global size_of usize == 8;
}

verus! {
/// ASSUMED contract of `<[T]>::to_vec` (alloc).  Stated as sequence equality: every element type it is used
/// with in this crate (u8, BlsScalar, G1Affine) is `Copy`, for which `clone` is a bitwise copy.
pub assume_specification<T: Clone>[ <[T]>::to_vec ](s: &[T]) -> (r: Vec<T>)
    ensures r@ == s@;
}

verus! {
/// `Composer` is opaque to Verus (it contains a hashbrown map whose allocator bound cannot be named):
/// three ghost views, related to the real fields only by the ASSUMED contracts of the leaf methods
/// `append_witness_internal`, `append_custom_gate_internal`, `Index<Witness>`, `constraints`.
#[verifier::external_type_specification]
#[verifier::external_body]
pub struct ExComposer(crate::composer::Composer);
}

verus! {
/// ASSUMED contract of `core::cmp::min` (std), via vstd's Ord specification vocabulary
pub assume_specification<T: Ord>[ core::cmp::min ](a: T, b: T) -> (r: T)
    ensures
        <T as vstd::std_specs::cmp::OrdSpec>::obeys_cmp_spec() ==>
            r == (if vstd::std_specs::cmp::OrdSpec::cmp_spec(&a, &b) == core::cmp::Ordering::Greater { b } else { a });
}

verus! {
/// derived `Clone` of OpeningKey (no contract needed: the value is opaque)
pub assume_specification[ <crate::commitment_scheme::OpeningKey as Clone>::clone ](k: &crate::commitment_scheme::OpeningKey) -> (r: crate::commitment_scheme::OpeningKey);
}

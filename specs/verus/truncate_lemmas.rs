//! C11 semantic lemmas (canonical split), proved in Verus over the integers mod R (CANON model; the only axiom is that R is prime).
//! `trunc_rows_sat` states what the rows emitted by `bind_truncation_split` + `assert_canonical_truncation` enforce on canonical wire values:
//! the range checks through the C09 interval lemma (range_lemmas.rs), the arithmetic rows through the C08 row lemmas (gadget_lemmas.rs); the
//! ROW LAYOUT itself is the layout contract of src/composer/truncate.rs (Verus units truncate.py, ring instances truncate.*).
//!   soundness    lemma_truncation_sound:    satisfied rows  ==>  low == x mod 2^N and high == x div 2^N, whatever the internal wires hold
//!   completeness lemma_truncation_complete: for every canonical x the honest assignment satisfies the rows
//! for every 1 <= N <= 254.  (N = 0: `low < 2^0` forces low == 0 and high == x directly.)
//! Bit decomposition (component_decomposition::<N>, 1 <= N <= 254): lemma_decomposition_sound - satisfied rows force x < 2^N and the bit wires to be
//! THE binary digits of x (uniqueness); lemma_decomposition_complete - the digits of every x < 2^N satisfy the rows.  For N = 255, 256 the sum can wrap
//! (no `< r` guard, as documented) and no lemma is claimed.
use vstd::prelude::*;
use vstd::arithmetic::div_mod::*;
use vstd::arithmetic::mul::*;
use crate::verif_specs::field::*;
use crate::verif_specs::modarith::*;
use crate::verif_specs::gadget_lemmas::*;
verus! {

// ---------------------------------------------------------------- powers of two
pub open spec fn p2(k: int) -> int decreases k { if k <= 0 { 1 } else { 2 * p2(k - 1) } }

pub proof fn lemma_p2_pos(k: int) ensures p2(k) >= 1 decreases k { if k > 0 { lemma_p2_pos(k - 1); } }
pub proof fn lemma_p2_mono(a: int, b: int) requires a <= b ensures p2(a) <= p2(b) decreases b - a
{
    if a < b { lemma_p2_mono(a, b - 1); lemma_p2_pos(b - 1); if b <= 0 { } }
}
pub proof fn lemma_p2_add(a: int, b: int) requires a >= 0, b >= 0 ensures p2(a + b) == p2(a) * p2(b) decreases b
{
    if b > 0 {
        lemma_p2_add(a, b - 1);
        assert(p2(a + b) == 2 * p2(a + b - 1));
        assert(p2(b) == 2 * p2(b - 1));
        lemma_mul_is_associative(p2(a), 2, p2(b - 1));
        assert(p2(a) * (2 * p2(b - 1)) == 2 * (p2(a) * p2(b - 1))) by(nonlinear_arith);
    } else {
        assert(p2(b) == 1);
    }
}
pub proof fn lemma_p2_254_255()
    ensures p2(254) < R(), R() < p2(255), p2(255) == 2 * p2(254),
{
    assert(p2(254) == 0x4000000000000000000000000000000000000000000000000000000000000000int) by(compute);
    assert(p2(255) == 2 * p2(254));
}

// ---------------------------------------------------------------- the split of r - 1 at bit N
pub open spec fn r_high(n: int) -> int { (R() - 1) / p2(n) }
pub open spec fn r_low(n: int) -> int { (R() - 1) % p2(n) }

pub proof fn lemma_r_split(n: int)
    requires 0 <= n <= 254
    ensures R() - 1 == r_high(n) * p2(n) + r_low(n), 0 <= r_low(n) < p2(n), 0 <= r_high(n), r_high(n) < p2(255 - n)
{
    lemma_p2_pos(n);
    lemma_fundamental_div_mod(R() - 1, p2(n));
    lemma_mod_bound(R() - 1, p2(n));
    assert(p2(n) * r_high(n) == r_high(n) * p2(n)) by(nonlinear_arith);
    lemma_div_pos_is_pos(R() - 1, p2(n));
    // r_high < 2^(255-n): otherwise r_high * 2^n >= 2^255 > R - 1
    lemma_p2_254_255();
    lemma_p2_add(255 - n, n);
    if r_high(n) >= p2(255 - n) {
        assert(r_high(n) * p2(n) >= p2(255 - n) * p2(n)) by(nonlinear_arith) requires r_high(n) >= p2(255 - n), p2(n) >= 1;
        assert(false);
    }
}

// ---------------------------------------------------------------- what the truncation rows enforce (canonical values)
/// the relations enforced by bind_truncation_split + assert_canonical_truncation on canonical values (see the layout contracts
/// truncate.* : range checks by the C09 interval lemma, arithmetic rows by the C08 lemmas)
pub open spec fn trunc_rows_sat(n: int, x: int, high: int, low: int, diff: int, inv: int, prod: int, is_top: int, rml: int, guard: int) -> bool {
    &&& 0 <= x < R() && 0 <= high < R() && 0 <= low < R() && 0 <= diff < R() && 0 <= inv < R() && 0 <= prod < R() && 0 <= is_top < R()
        && 0 <= rml < R() && 0 <= guard < R()
    &&& low < p2(n)                                   // range_check(low, N)
    &&& high < p2(255 - n)                            // range_check(high, 255 - N)
    &&& md(p2(n) * high + low) == x                   // gate_add + assert_equal
    &&& diff == md(r_high(n) - high)                  // gate_add
    &&& diff < p2(255 - n)                            // range_check(diff, 255 - N)
    &&& prod == md(diff * inv)                        // gate_mul
    &&& is_top == md(1 - prod)                        // gate_add
    &&& md(diff * is_top) == 0                        // append_gate
    &&& rml == md(r_low(n) - low)                     // gate_add
    &&& guard == md(is_top * rml)                     // gate_mul
    &&& guard < p2(n)                                 // range_check(guard, N)
}

proof fn lemma_high_le_rhigh(n: int, high: int, diff: int)
    requires 1 <= n <= 254, 0 <= high < p2(255 - n), diff == md(r_high(n) - high), diff < p2(255 - n)
    ensures high <= r_high(n)
{
    lemma_r_split(n);
    lemma_p2_254_255();
    if high > r_high(n) {
        let d = r_high(n) - high;            // in (-2^(255-n), 0)
        lemma_p2_mono(255 - n, 254);
        assert(d + R() >= 0 && d + R() < R());
        lemma_md_small(d + R());
        lemma_mod_add_multiples_vanish(d, R());
        assert(md(d) == d + R());
        // d + R >= R - 2^(255-n) + 1 + r_high
        if n >= 2 {
            lemma_p2_mono(255 - n, 253);
            assert(p2(254) == 2 * p2(253));
            assert(d + R() >= R() - p2(253));
            assert(p2(255 - n) <= p2(253));
            assert(false);
        } else {
            // n == 1: r_high = (R - 1) / 2 exactly, high < 2^254
            assert(p2(0) == 1);
            assert(p2(1) == 2 * p2(0));
            assert(p2(1) == 2);
            assert(r_high(1) == (R() - 1) / 2);
            assert(p2(254) == 0x4000000000000000000000000000000000000000000000000000000000000000int) by(compute);
            assert(false);
        }
    }
}

proof fn lemma_is_top(diff: int, inv: int, prod: int, is_top: int)
    requires 0 <= diff < R(), prod == md(diff * inv), is_top == md(1 - prod), md(diff * is_top) == 0
    ensures diff == 0 ==> is_top == 1, diff != 0 ==> is_top == 0
{
    lemma_md_range(1 - prod);
    if diff == 0 {
        assert(diff * inv == 0) by(nonlinear_arith) requires diff == 0;
        assert(prod == 0);
        lemma_md_small(1);
    } else {
        axiom_r_prime(diff, is_top);
        lemma_md_small(diff);
        lemma_md_small(is_top);
    }
}

proof fn lemma_low_le_rlow(n: int, low: int, rml: int)
    requires 0 <= n <= 254, 0 <= low < p2(n), rml == md(r_low(n) - low), rml < p2(n)
    ensures low <= r_low(n)
{
    lemma_r_split(n);
    lemma_p2_254_255();
    if low > r_low(n) {
        let d = r_low(n) - low;
        lemma_p2_mono(n, 254);
        assert(d + R() >= 0 && d + R() < R());
        lemma_md_small(d + R());
        lemma_mod_add_multiples_vanish(d, R());
        assert(md(d) == d + R());
        if n <= 253 {
            lemma_p2_mono(n, 253);
            assert(p2(254) == 2 * p2(253));
            assert(false);
        } else {
            // n == 254: r_low = R - 1 - 2^254
            assert(p2(254) == 0x4000000000000000000000000000000000000000000000000000000000000000int) by(compute);
            assert((R() - 1) % 0x4000000000000000000000000000000000000000000000000000000000000000int
                   == R() - 1 - 0x4000000000000000000000000000000000000000000000000000000000000000int) by(compute);
            assert(false);
        }
    }
}

/// C11 (soundness of the canonical split): whatever the prover puts on the internal wires, satisfied rows force
/// low == x mod 2^N and high == x div 2^N for the canonical value x of the input, for every 1 <= N <= 254
pub proof fn lemma_truncation_sound(n: int, x: int, high: int, low: int, diff: int, inv: int, prod: int, is_top: int, rml: int, guard: int)
    requires 1 <= n <= 254, trunc_rows_sat(n, x, high, low, diff, inv, prod, is_top, rml, guard)
    ensures x == p2(n) * high + low, low == x % p2(n), high == x / p2(n)
{
    lemma_r_split(n);
    lemma_p2_pos(n);
    lemma_high_le_rhigh(n, high, diff);
    lemma_is_top(diff, inv, prod, is_top);
    if high == r_high(n) {
        lemma_md_small(0);
        assert(diff == 0);
        assert(is_top == 1);
        assert(is_top * rml == rml) by(nonlinear_arith) requires is_top == 1;
        lemma_md_small(rml);
        assert(guard == rml);
        lemma_low_le_rlow(n, low, rml);
    }
    // (high, low) <=lex (r_high, r_low)  ==>  2^N high + low <= R - 1
    assert(p2(n) * high + low <= R() - 1) by(nonlinear_arith)
        requires high <= r_high(n), high == r_high(n) ==> low <= r_low(n), 0 <= low < p2(n), R() - 1 == r_high(n) * p2(n) + r_low(n), 0 <= r_low(n), p2(n) >= 1, high >= 0;
    assert(p2(n) * high >= 0) by(nonlinear_arith) requires p2(n) >= 1, high >= 0;
    lemma_md_small(p2(n) * high + low);
    lemma_fundamental_div_mod_converse(x, p2(n), high, low);
}

/// C11 (completeness): for EVERY canonical input x the honest assignment satisfies the rows (inv: any inverse of diff when diff != 0,
/// which exists because R is prime)
pub proof fn lemma_truncation_complete(n: int, x: int, inv: int)
    requires 1 <= n <= 254, 0 <= x < R(), 0 <= inv < R(),
             (r_high(n) - x / p2(n)) != 0 ==> md((r_high(n) - x / p2(n)) * inv) == 1,
    ensures ({
        let high = x / p2(n); let low = x % p2(n); let diff = r_high(n) - high;
        let prod = if diff == 0 { 0int } else { 1int }; let is_top = if diff == 0 { 1int } else { 0int };
        let rml = md(r_low(n) - low); let guard = if diff == 0 { rml } else { 0int };
        trunc_rows_sat(n, x, high, low, diff, inv, prod, is_top, rml, guard)
    })
{
    let high = x / p2(n); let low = x % p2(n); let diff = r_high(n) - high;
    let prod = if diff == 0 { 0int } else { 1int }; let is_top = if diff == 0 { 1int } else { 0int };
    let rml = md(r_low(n) - low); let guard = if diff == 0 { rml } else { 0int };
    lemma_r_split(n);
    lemma_p2_pos(n);
    lemma_p2_254_255();
    lemma_fundamental_div_mod(x, p2(n));
    lemma_mod_bound(x, p2(n));
    lemma_div_pos_is_pos(x, p2(n));
    assert(p2(n) * high == high * p2(n)) by(nonlinear_arith);
    // high <= r_high (x <= R - 1) and high < 2^(255 - n)
    lemma_div_is_ordered(x, R() - 1, p2(n));
    assert(high <= r_high(n));
    assert(0 <= diff < p2(255 - n));
    lemma_p2_mono(255 - n, 254);
    lemma_md_small(diff);
    lemma_md_small(x);
    lemma_md_range(r_low(n) - low);
    lemma_md_small(0); lemma_md_small(1);
    if diff == 0 {
        assert(diff * inv == 0) by(nonlinear_arith) requires diff == 0;
        assert(diff * is_top == 0) by(nonlinear_arith) requires diff == 0;
        assert(is_top * rml == rml) by(nonlinear_arith) requires is_top == 1;
        lemma_md_small(rml);
        // high == r_high and x <= R - 1  ==>  low <= r_low
        assert(low <= r_low(n)) by(nonlinear_arith)
            requires x == p2(n) * high + low, R() - 1 == r_high(n) * p2(n) + r_low(n), high == r_high(n), x <= R() - 1;
        lemma_md_small(r_low(n) - low);
        assert(guard < p2(n));
    } else {
        assert(diff * is_top == 0) by(nonlinear_arith) requires is_top == 0;
        assert(is_top * rml == 0) by(nonlinear_arith) requires is_top == 0;
        assert(1 - prod == 0);
    }
    lemma_p2_mono(n, 254);
}

// ---------------------------------------------------------------- bit decomposition
/// little-endian value of the first k bits
pub open spec fn dec_val(b: Seq<int>, k: int) -> int decreases k { if k <= 0 { 0 } else { dec_val(b, k - 1) + b[k - 1] * p2(k - 1) } }

pub open spec fn dec_all_boolean(b: Seq<int>, n: int) -> bool { forall|i: int| 0 <= i < n ==> (#[trigger] b[i] == 0 || b[i] == 1) }

/// what component_decomposition::<N> enforces on canonical values: every bit wire satisfies b*(b-1) == 0 (mod r), the running sum of
/// b_i 2^i (mod r) is bound to the input by the closing equality
pub open spec fn decomp_rows_sat(n: int, x: int, b: Seq<int>) -> bool {
    &&& b.len() == n && 0 <= x < R()
    &&& forall|i: int| 0 <= i < n ==> 0 <= #[trigger] b[i] < R() && md(b[i] * (b[i] - 1)) == 0
    &&& md(dec_val(b, n)) == x
}

proof fn lemma_boolean_wire(v: int)
    requires 0 <= v < R(), md(v * (v - 1)) == 0
    ensures v == 0 || v == 1
{
    axiom_r_prime(v, v - 1);
    lemma_md_small(v);
    if v >= 1 { lemma_md_small(v - 1); }
}

proof fn lemma_dec_val_bound(b: Seq<int>, k: int)
    requires 0 <= k <= b.len(), dec_all_boolean(b, k)
    ensures 0 <= dec_val(b, k) < p2(k)
    decreases k
{
    if k > 0 {
        lemma_dec_val_bound(b, k - 1);
        assert(b[k - 1] == 0 || b[k - 1] == 1);
        lemma_p2_pos(k - 1);
        assert(b[k - 1] * p2(k - 1) <= p2(k - 1)) by(nonlinear_arith) requires b[k - 1] == 0 || b[k - 1] == 1, p2(k - 1) >= 1;
        assert(b[k - 1] * p2(k - 1) >= 0) by(nonlinear_arith) requires b[k - 1] == 0 || b[k - 1] == 1, p2(k - 1) >= 1;
    }
}

/// two boolean sequences with the same value agree bit by bit
proof fn lemma_bits_unique(a: Seq<int>, b: Seq<int>, k: int)
    requires 0 <= k <= a.len(), k <= b.len(), dec_all_boolean(a, k), dec_all_boolean(b, k), dec_val(a, k) == dec_val(b, k)
    ensures forall|i: int| 0 <= i < k ==> a[i] == b[i]
    decreases k
{
    if k > 0 {
        lemma_dec_val_bound(a, k - 1);
        lemma_dec_val_bound(b, k - 1);
        lemma_p2_pos(k - 1);
        assert(a[k - 1] == 0 || a[k - 1] == 1);
        assert(b[k - 1] == 0 || b[k - 1] == 1);
        // the top bit is decided by whether the value reaches 2^(k-1)
        if a[k - 1] != b[k - 1] {
            assert(a[k - 1] * p2(k - 1) + dec_val(a, k - 1) != b[k - 1] * p2(k - 1) + dec_val(b, k - 1)) by(nonlinear_arith)
                requires a[k - 1] == 0 || a[k - 1] == 1, b[k - 1] == 0 || b[k - 1] == 1, a[k - 1] != b[k - 1],
                         0 <= dec_val(a, k - 1) < p2(k - 1), 0 <= dec_val(b, k - 1) < p2(k - 1);
            assert(false);
        }
        lemma_bits_unique(a, b, k - 1);
    }
}

/// the binary digits of x
pub open spec fn dec_digit(x: int, i: int) -> int { (x / p2(i)) % 2 }

proof fn lemma_digits_val(x: int, k: int)
    requires 0 <= x, 0 <= k
    ensures dec_val(Seq::new(k as nat, |i: int| dec_digit(x, i)), k) == x % p2(k)
    decreases k
{
    let s = Seq::new(k as nat, |i: int| dec_digit(x, i));
    if k > 0 {
        let s1 = Seq::new((k - 1) as nat, |i: int| dec_digit(x, i));
        lemma_digits_val(x, k - 1);
        lemma_dec_val_prefix(s, s1, k - 1);
        lemma_p2_pos(k - 1);
        // x % 2^k == x % 2^(k-1) + ((x / 2^(k-1)) % 2) * 2^(k-1)
        lemma_mod_breakdown(x, p2(k - 1), 2);
        assert(p2(k) == 2 * p2(k - 1));
        assert(p2(k - 1) * 2 == p2(k));
        assert(s[k - 1] == dec_digit(x, k - 1));
        assert(p2(k - 1) * ((x / p2(k - 1)) % 2) == ((x / p2(k - 1)) % 2) * p2(k - 1)) by(nonlinear_arith);
    } else {
        assert(p2(0) == 1);
        lemma_mod_of_one(x);
    }
}

proof fn lemma_mod_of_one(x: int) ensures x % 1 == 0 { lemma_fundamental_div_mod(x, 1); lemma_mod_bound(x, 1); }

proof fn lemma_dec_val_prefix(a: Seq<int>, b: Seq<int>, k: int)
    requires 0 <= k <= a.len(), k <= b.len(), forall|i: int| 0 <= i < k ==> a[i] == b[i]
    ensures dec_val(a, k) == dec_val(b, k)
    decreases k
{
    if k > 0 { lemma_dec_val_prefix(a, b, k - 1); }
}

/// C11 (decomposition, soundness + uniqueness): for 1 <= N <= 254 satisfied rows force x < 2^N and the bit wires to be THE binary digits of x
pub proof fn lemma_decomposition_sound(n: int, x: int, b: Seq<int>)
    requires 1 <= n <= 254, decomp_rows_sat(n, x, b)
    ensures x < p2(n), x == dec_val(b, n), forall|i: int| 0 <= i < n ==> b[i] == dec_digit(x, i)
{
    assert forall|i: int| 0 <= i < n implies (#[trigger] b[i] == 0 || b[i] == 1) by { lemma_boolean_wire(b[i]); }
    lemma_dec_val_bound(b, n);
    lemma_p2_mono(n, 254);
    lemma_p2_254_255();
    lemma_md_small(dec_val(b, n));
    // the digits of x form a boolean sequence with the same value: uniqueness
    let d = Seq::new(n as nat, |i: int| dec_digit(x, i));
    lemma_digits_val(x, n);
    lemma_p2_pos(n);
    lemma_small_mod(x as nat, p2(n) as nat);
    assert forall|i: int| 0 <= i < n implies (#[trigger] d[i] == 0 || d[i] == 1) by { lemma_mod_bound(x / p2(i), 2); }
    lemma_bits_unique(b, d, n);
}

/// C11 (decomposition, completeness): every canonical x < 2^N has the satisfying assignment "its binary digits"
pub proof fn lemma_decomposition_complete(n: int, x: int)
    requires 1 <= n <= 254, 0 <= x < p2(n)
    ensures decomp_rows_sat(n, x, Seq::new(n as nat, |i: int| dec_digit(x, i)))
{
    let d = Seq::new(n as nat, |i: int| dec_digit(x, i));
    lemma_digits_val(x, n);
    lemma_p2_pos(n);
    lemma_small_mod(x as nat, p2(n) as nat);
    lemma_p2_mono(n, 254);
    lemma_p2_254_255();
    lemma_md_small(x);
    assert forall|i: int| 0 <= i < n implies 0 <= #[trigger] d[i] < R() && md(d[i] * (d[i] - 1)) == 0 by {
        lemma_mod_bound(x / p2(i), 2);
        assert(d[i] == 0 || d[i] == 1);
        assert(d[i] * (d[i] - 1) == 0) by(nonlinear_arith) requires d[i] == 0 || d[i] == 1;
        lemma_md_small(0);
    }
}
} // verus!

//! Abstract views of the constraint system.
use vstd::prelude::*;
use dusk_bls12_381::BlsScalar;
use crate::verif_specs::field::*;
use crate::composer::{Constraint, Gate, Witness, Composer};

verus! {

/// one row of the circuit description: selector values (canonical ints) and the four wire indices
pub struct GateV {
    pub q_m: int, pub q_l: int, pub q_r: int, pub q_o: int, pub q_f: int, pub q_c: int,
    pub q_arith: int, pub q_range: int, pub q_logic: int, pub q_fixed: int, pub q_var: int,
    pub a: nat, pub b: nat, pub c: nat, pub d: nat,
}

pub(crate) open spec fn gate_view(g: Gate) -> GateV {
    GateV {
        q_m: cv(g.q_m), q_l: cv(g.q_l), q_r: cv(g.q_r), q_o: cv(g.q_o), q_f: cv(g.q_f), q_c: cv(g.q_c),
        q_arith: cv(g.q_arith), q_range: cv(g.q_range), q_logic: cv(g.q_logic),
        q_fixed: cv(g.q_fixed_group_add), q_var: cv(g.q_variable_group_add),
        a: g.a.idx(), b: g.b.idx(), c: g.c.idx(), d: g.d.idx(),
    }
}

/// the row a `Constraint` denotes when appended as is (all 11 gate selectors, 4 wires)
pub open spec fn gate_of(c: Constraint) -> GateV {
    GateV {
        q_m: c.q(0), q_l: c.q(1), q_r: c.q(2), q_o: c.q(3), q_f: c.q(4), q_c: c.q(5),
        q_arith: c.q(7), q_range: c.q(8), q_logic: c.q(9), q_fixed: c.q(10), q_var: c.q(11),
        a: c.w(0), b: c.w(1), c: c.w(2), d: c.w(3),
    }
}

/// the externally settable part of a constraint (internal selectors dropped)
pub open spec fn gate_ext(c: Constraint) -> GateV {
    GateV {
        q_m: c.q(0), q_l: c.q(1), q_r: c.q(2), q_o: c.q(3), q_f: c.q(4), q_c: c.q(5),
        q_arith: 0, q_range: 0, q_logic: 0, q_fixed: 0, q_var: 0,
        a: c.w(0), b: c.w(1), c: c.w(2), d: c.w(3),
    }
}

pub open spec fn arith_row(q_m: int, q_l: int, q_r: int, q_o: int, q_f: int, q_c: int, a: nat, b: nat, c: nat, d: nat) -> GateV {
    GateV { q_m, q_l, q_r, q_o, q_f, q_c, q_arith: 1, q_range: 0, q_logic: 0, q_fixed: 0, q_var: 0, a, b, c, d }
}

pub open spec fn neg1() -> int { R() - 1 }

// ---- ghost views of the (opaque) Composer
/// rows of the description
pub uninterp spec fn gates(c: Composer) -> Seq<GateV>;
/// canonical witness values, by witness index
pub uninterp spec fn wits(c: Composer) -> Seq<int>;
/// sparse public inputs: row -> canonical value
pub uninterp spec fn pis(c: Composer) -> Map<nat, int>;

pub open spec fn valid_w(c: Composer, w: Witness) -> bool { w.idx() < wits(c).len() }

pub open spec fn valid_constraint(c: Composer, s: Constraint) -> bool {
    s.wf() && s.w(0) < wits(c).len() && s.w(1) < wits(c).len() && s.w(2) < wits(c).len() && s.w(3) < wits(c).len()
}

/// the composer was built by `Composer::initialized`: witnesses 0 and 1 hold the constants 0 and 1
pub open spec fn c_init(c: Composer) -> bool {
    wits(c).len() >= 2 && wits(c)[0] == 0 && wits(c)[1] == 1
}

/// public-input map after appending constraint `s` as row `n`
pub open spec fn pis_after(p: Map<nat, int>, n: nat, s: Constraint) -> Map<nat, int> {
    if s.has_pi() { p.insert(n, s.q(6)) } else { p }
}

} // verus!

verus! {
/// value a gate forces on its output wire:  q_M ab + q_L a + q_R b + q_F d + q_C + PI  (mod R)
pub open spec fn eo_x(c: Composer, s: Constraint) -> int {
    let a = wits(c)[s.w(0) as int];
    let b = wits(c)[s.w(1) as int];
    let d = wits(c)[s.w(3) as int];
    (s.q(0) * a * b + s.q(1) * a + s.q(2) * b + s.q(4) * d + s.q(5) + s.q(6)) % R()
}
}

verus! {
/// pure product row: q_M = 1, everything else 0
pub proof fn lemma_eo_x_mul(c: Composer, s: Constraint)
    requires s.q(0) == 1, s.q(1) == 0, s.q(2) == 0, s.q(4) == 0, s.q(5) == 0, s.q(6) == 0
    ensures eo_x(c, s) == (wits(c)[s.w(0) as int] * wits(c)[s.w(1) as int]) % R()
{
    let a = wits(c)[s.w(0) as int];
    let b = wits(c)[s.w(1) as int];
    let d = wits(c)[s.w(3) as int];
    assert(1 * a * b + 0 * a + 0 * b + 0 * d + 0 + 0 == a * b) by(nonlinear_arith);
}

/// linear row: q_M = 0
pub proof fn lemma_eo_x_lin(c: Composer, s: Constraint)
    requires s.q(0) == 0
    ensures eo_x(c, s) == (s.q(1) * wits(c)[s.w(0) as int] + s.q(2) * wits(c)[s.w(1) as int] + s.q(4) * wits(c)[s.w(3) as int] + s.q(5) + s.q(6)) % R()
{
    let a = wits(c)[s.w(0) as int];
    let b = wits(c)[s.w(1) as int];
    assert(0 * a * b == 0) by(nonlinear_arith);
}
}

verus! {
/// sum row: q_L = q_R = 1, everything else 0
pub proof fn lemma_eo_x_add(c: Composer, s: Constraint)
    requires s.q(0) == 0, s.q(1) == 1, s.q(2) == 1, s.q(4) == 0, s.q(5) == 0, s.q(6) == 0
    ensures eo_x(c, s) == (wits(c)[s.w(0) as int] + wits(c)[s.w(1) as int]) % R()
{
    let a = wits(c)[s.w(0) as int];
    let b = wits(c)[s.w(1) as int];
    let d = wits(c)[s.w(3) as int];
    assert(0 * a * b + 1 * a + 1 * b + 0 * d + 0 + 0 == a + b) by(nonlinear_arith);
}
}

//! C10 semantic lemmas, proved in Verus: (1) lemma_quad_semantics - for quads qa, qb, qd in 0..3 and w = qa*qb the logic identity
//! (delta_xor_and of the widget; ring unit logic.delta_xor_and shows the real fn IS this polynomial) vanishes exactly for qd = qa AND qb (q_c = +1)
//! resp. qa XOR qb (q_c = -1): 128 cases, and quad_op is the bitwise operation on 2-bit values (bit_vector); (2) lemma_logic_chain - by induction over
//! the rows of append_logic_component::<p>, p <= 127, satisfied rows force the three accumulators to be exact base-4 numbers below 4^p with
//! d_p == op4(a_p, b_p) digit-wise; (3) lemma_logic_component_value - together with the canonical truncation of the inputs (C11 lemma) the returned
//! witness is the bitwise AND / XOR of the low 2p bits of both inputs and no other value satisfies the rows.  Layout: Verus unit
//! composer.Composer::append_logic_component (all p), ring instances.
use vstd::prelude::*;
use vstd::arithmetic::div_mod::*;
use vstd::arithmetic::mul::*;
use crate::verif_specs::field::*;
use crate::verif_specs::modarith::*;
verus! {

pub open spec fn lpow4(k: int) -> int decreases k { if k <= 0 { 1 } else { 4 * lpow4(k - 1) } }
proof fn lemma_lpow4_mono(a: int, b: int) requires 0 <= a <= b ensures 1 <= lpow4(a) <= lpow4(b) decreases b
{ if a < b { lemma_lpow4_mono(a, b - 1); } else if a > 0 { lemma_lpow4_mono(a - 1, a - 1); } }
proof fn lemma_lpow4_127() ensures lpow4(127) < R()
{ assert(lpow4(127) == 0x4000000000000000000000000000000000000000000000000000000000000000int) by(compute); }

// ---------------------------------------------------------------- the logic identity on one quad
/// delta_xor_and of src/proof_system/widget/logic (ring unit logic.delta_xor_and: the real fn equals this polynomial), over the integers
pub open spec fn logic_op_int(qa: int, qb: int, w: int, qd: int, s: int) -> int {
    let f = w * (w * (4 * w - 18 * (qa + qb) + 81) + 18 * (qa * qa + qb * qb) - 81 * (qa + qb) + 83);
    let e = 3 * (qa + qb + qd) - 2 * f;
    let b = s * (9 * qd - 3 * (qa + qb));
    b + e
}

/// bitwise AND (s = 1) / XOR (s = -1) of two 2-bit values
pub open spec fn quad_op(s: int, qa: int, qb: int) -> int {
    if s == 1 {
        if qa == 0 || qb == 0 { 0 } else if qa == 3 { qb } else if qb == 3 { qa } else if qa == qb { qa } else { 0 }
    } else {
        if qa == qb { 0 } else if qa == 0 { qb } else if qb == 0 { qa } else if qa + qb == 3 { 3 } else if qa + qb == 4 { 2 } else { 1 }
    }
}

proof fn lemma_quad_op_is_bitwise(qa: u8, qb: u8)
    requires qa < 4, qb < 4
    ensures quad_op(1, qa as int, qb as int) == (qa & qb) as int, quad_op(-1, qa as int, qb as int) == (qa ^ qb) as int
{
    assert(qa < 4 && qb < 4 ==> (qa == 0 || qb == 0 ==> qa & qb == 0) && (qa == 3 ==> qa & qb == qb) && (qb == 3 ==> qa & qb == qa) && (qa == qb ==> qa & qb == qa)
        && ((qa == 1 && qb == 2) || (qa == 2 && qb == 1) ==> qa & qb == 0)) by(bit_vector);
    assert(qa < 4 && qb < 4 ==> (qa == qb ==> qa ^ qb == 0) && (qa == 0 ==> qa ^ qb == qb) && (qb == 0 ==> qa ^ qb == qa)
        && (qa != qb && qa != 0 && qb != 0 && qa + qb == 3 ==> qa ^ qb == 3) && (qa != qb && qa + qb == 4 ==> qa ^ qb == 2)
        && (qa != qb && qa != 0 && qb != 0 && qa + qb == 5 ==> qa ^ qb == 1)) by(bit_vector);
}

/// the 128 cases: for quads qa, qb, qd in 0..3 and w = qa qb the identity vanishes exactly for qd = qa OP qb (the values are below 10^4 in
/// absolute value, so "== 0 mod r" is "== 0")
pub proof fn lemma_quad_semantics(s: int, qa: int, qb: int, qd: int)
    requires s == 1 || s == -1, 0 <= qa <= 3, 0 <= qb <= 3, 0 <= qd <= 3
    ensures (logic_op_int(qa, qb, qa * qb, qd, s) == 0) <==> (qd == quad_op(s, qa, qb)),
            -100000 < logic_op_int(qa, qb, qa * qb, qd, s) < 100000
{
    if s == 1 && qa == 0 && qb == 0 { assert(logic_op_int(qa, qb, qa * qb, 0, s) == 0 && logic_op_int(qa, qb, qa * qb, 1, s) == 12 && logic_op_int(qa, qb, qa * qb, 2, s) == 24 && logic_op_int(qa, qb, qa * qb, 3, s) == 36) by(nonlinear_arith) requires s == 1, qa == 0, qb == 0; }
    if s == 1 && qa == 0 && qb == 1 { assert(logic_op_int(qa, qb, qa * qb, 0, s) == 0 && logic_op_int(qa, qb, qa * qb, 1, s) == 12 && logic_op_int(qa, qb, qa * qb, 2, s) == 24 && logic_op_int(qa, qb, qa * qb, 3, s) == 36) by(nonlinear_arith) requires s == 1, qa == 0, qb == 1; }
    if s == 1 && qa == 0 && qb == 2 { assert(logic_op_int(qa, qb, qa * qb, 0, s) == 0 && logic_op_int(qa, qb, qa * qb, 1, s) == 12 && logic_op_int(qa, qb, qa * qb, 2, s) == 24 && logic_op_int(qa, qb, qa * qb, 3, s) == 36) by(nonlinear_arith) requires s == 1, qa == 0, qb == 2; }
    if s == 1 && qa == 0 && qb == 3 { assert(logic_op_int(qa, qb, qa * qb, 0, s) == 0 && logic_op_int(qa, qb, qa * qb, 1, s) == 12 && logic_op_int(qa, qb, qa * qb, 2, s) == 24 && logic_op_int(qa, qb, qa * qb, 3, s) == 36) by(nonlinear_arith) requires s == 1, qa == 0, qb == 3; }
    if s == 1 && qa == 1 && qb == 0 { assert(logic_op_int(qa, qb, qa * qb, 0, s) == 0 && logic_op_int(qa, qb, qa * qb, 1, s) == 12 && logic_op_int(qa, qb, qa * qb, 2, s) == 24 && logic_op_int(qa, qb, qa * qb, 3, s) == 36) by(nonlinear_arith) requires s == 1, qa == 1, qb == 0; }
    if s == 1 && qa == 1 && qb == 1 { assert(logic_op_int(qa, qb, qa * qb, 0, s) == -12 && logic_op_int(qa, qb, qa * qb, 1, s) == 0 && logic_op_int(qa, qb, qa * qb, 2, s) == 12 && logic_op_int(qa, qb, qa * qb, 3, s) == 24) by(nonlinear_arith) requires s == 1, qa == 1, qb == 1; }
    if s == 1 && qa == 1 && qb == 2 { assert(logic_op_int(qa, qb, qa * qb, 0, s) == 0 && logic_op_int(qa, qb, qa * qb, 1, s) == 12 && logic_op_int(qa, qb, qa * qb, 2, s) == 24 && logic_op_int(qa, qb, qa * qb, 3, s) == 36) by(nonlinear_arith) requires s == 1, qa == 1, qb == 2; }
    if s == 1 && qa == 1 && qb == 3 { assert(logic_op_int(qa, qb, qa * qb, 0, s) == -12 && logic_op_int(qa, qb, qa * qb, 1, s) == 0 && logic_op_int(qa, qb, qa * qb, 2, s) == 12 && logic_op_int(qa, qb, qa * qb, 3, s) == 24) by(nonlinear_arith) requires s == 1, qa == 1, qb == 3; }
    if s == 1 && qa == 2 && qb == 0 { assert(logic_op_int(qa, qb, qa * qb, 0, s) == 0 && logic_op_int(qa, qb, qa * qb, 1, s) == 12 && logic_op_int(qa, qb, qa * qb, 2, s) == 24 && logic_op_int(qa, qb, qa * qb, 3, s) == 36) by(nonlinear_arith) requires s == 1, qa == 2, qb == 0; }
    if s == 1 && qa == 2 && qb == 1 { assert(logic_op_int(qa, qb, qa * qb, 0, s) == 0 && logic_op_int(qa, qb, qa * qb, 1, s) == 12 && logic_op_int(qa, qb, qa * qb, 2, s) == 24 && logic_op_int(qa, qb, qa * qb, 3, s) == 36) by(nonlinear_arith) requires s == 1, qa == 2, qb == 1; }
    if s == 1 && qa == 2 && qb == 2 { assert(logic_op_int(qa, qb, qa * qb, 0, s) == -24 && logic_op_int(qa, qb, qa * qb, 1, s) == -12 && logic_op_int(qa, qb, qa * qb, 2, s) == 0 && logic_op_int(qa, qb, qa * qb, 3, s) == 12) by(nonlinear_arith) requires s == 1, qa == 2, qb == 2; }
    if s == 1 && qa == 2 && qb == 3 { assert(logic_op_int(qa, qb, qa * qb, 0, s) == -24 && logic_op_int(qa, qb, qa * qb, 1, s) == -12 && logic_op_int(qa, qb, qa * qb, 2, s) == 0 && logic_op_int(qa, qb, qa * qb, 3, s) == 12) by(nonlinear_arith) requires s == 1, qa == 2, qb == 3; }
    if s == 1 && qa == 3 && qb == 0 { assert(logic_op_int(qa, qb, qa * qb, 0, s) == 0 && logic_op_int(qa, qb, qa * qb, 1, s) == 12 && logic_op_int(qa, qb, qa * qb, 2, s) == 24 && logic_op_int(qa, qb, qa * qb, 3, s) == 36) by(nonlinear_arith) requires s == 1, qa == 3, qb == 0; }
    if s == 1 && qa == 3 && qb == 1 { assert(logic_op_int(qa, qb, qa * qb, 0, s) == -12 && logic_op_int(qa, qb, qa * qb, 1, s) == 0 && logic_op_int(qa, qb, qa * qb, 2, s) == 12 && logic_op_int(qa, qb, qa * qb, 3, s) == 24) by(nonlinear_arith) requires s == 1, qa == 3, qb == 1; }
    if s == 1 && qa == 3 && qb == 2 { assert(logic_op_int(qa, qb, qa * qb, 0, s) == -24 && logic_op_int(qa, qb, qa * qb, 1, s) == -12 && logic_op_int(qa, qb, qa * qb, 2, s) == 0 && logic_op_int(qa, qb, qa * qb, 3, s) == 12) by(nonlinear_arith) requires s == 1, qa == 3, qb == 2; }
    if s == 1 && qa == 3 && qb == 3 { assert(logic_op_int(qa, qb, qa * qb, 0, s) == -36 && logic_op_int(qa, qb, qa * qb, 1, s) == -24 && logic_op_int(qa, qb, qa * qb, 2, s) == -12 && logic_op_int(qa, qb, qa * qb, 3, s) == 0) by(nonlinear_arith) requires s == 1, qa == 3, qb == 3; }
    if s == -1 && qa == 0 && qb == 0 { assert(logic_op_int(qa, qb, qa * qb, 0, s) == 0 && logic_op_int(qa, qb, qa * qb, 1, s) == -6 && logic_op_int(qa, qb, qa * qb, 2, s) == -12 && logic_op_int(qa, qb, qa * qb, 3, s) == -18) by(nonlinear_arith) requires s == -1, qa == 0, qb == 0; }
    if s == -1 && qa == 0 && qb == 1 { assert(logic_op_int(qa, qb, qa * qb, 0, s) == 6 && logic_op_int(qa, qb, qa * qb, 1, s) == 0 && logic_op_int(qa, qb, qa * qb, 2, s) == -6 && logic_op_int(qa, qb, qa * qb, 3, s) == -12) by(nonlinear_arith) requires s == -1, qa == 0, qb == 1; }
    if s == -1 && qa == 0 && qb == 2 { assert(logic_op_int(qa, qb, qa * qb, 0, s) == 12 && logic_op_int(qa, qb, qa * qb, 1, s) == 6 && logic_op_int(qa, qb, qa * qb, 2, s) == 0 && logic_op_int(qa, qb, qa * qb, 3, s) == -6) by(nonlinear_arith) requires s == -1, qa == 0, qb == 2; }
    if s == -1 && qa == 0 && qb == 3 { assert(logic_op_int(qa, qb, qa * qb, 0, s) == 18 && logic_op_int(qa, qb, qa * qb, 1, s) == 12 && logic_op_int(qa, qb, qa * qb, 2, s) == 6 && logic_op_int(qa, qb, qa * qb, 3, s) == 0) by(nonlinear_arith) requires s == -1, qa == 0, qb == 3; }
    if s == -1 && qa == 1 && qb == 0 { assert(logic_op_int(qa, qb, qa * qb, 0, s) == 6 && logic_op_int(qa, qb, qa * qb, 1, s) == 0 && logic_op_int(qa, qb, qa * qb, 2, s) == -6 && logic_op_int(qa, qb, qa * qb, 3, s) == -12) by(nonlinear_arith) requires s == -1, qa == 1, qb == 0; }
    if s == -1 && qa == 1 && qb == 1 { assert(logic_op_int(qa, qb, qa * qb, 0, s) == 0 && logic_op_int(qa, qb, qa * qb, 1, s) == -6 && logic_op_int(qa, qb, qa * qb, 2, s) == -12 && logic_op_int(qa, qb, qa * qb, 3, s) == -18) by(nonlinear_arith) requires s == -1, qa == 1, qb == 1; }
    if s == -1 && qa == 1 && qb == 2 { assert(logic_op_int(qa, qb, qa * qb, 0, s) == 18 && logic_op_int(qa, qb, qa * qb, 1, s) == 12 && logic_op_int(qa, qb, qa * qb, 2, s) == 6 && logic_op_int(qa, qb, qa * qb, 3, s) == 0) by(nonlinear_arith) requires s == -1, qa == 1, qb == 2; }
    if s == -1 && qa == 1 && qb == 3 { assert(logic_op_int(qa, qb, qa * qb, 0, s) == 12 && logic_op_int(qa, qb, qa * qb, 1, s) == 6 && logic_op_int(qa, qb, qa * qb, 2, s) == 0 && logic_op_int(qa, qb, qa * qb, 3, s) == -6) by(nonlinear_arith) requires s == -1, qa == 1, qb == 3; }
    if s == -1 && qa == 2 && qb == 0 { assert(logic_op_int(qa, qb, qa * qb, 0, s) == 12 && logic_op_int(qa, qb, qa * qb, 1, s) == 6 && logic_op_int(qa, qb, qa * qb, 2, s) == 0 && logic_op_int(qa, qb, qa * qb, 3, s) == -6) by(nonlinear_arith) requires s == -1, qa == 2, qb == 0; }
    if s == -1 && qa == 2 && qb == 1 { assert(logic_op_int(qa, qb, qa * qb, 0, s) == 18 && logic_op_int(qa, qb, qa * qb, 1, s) == 12 && logic_op_int(qa, qb, qa * qb, 2, s) == 6 && logic_op_int(qa, qb, qa * qb, 3, s) == 0) by(nonlinear_arith) requires s == -1, qa == 2, qb == 1; }
    if s == -1 && qa == 2 && qb == 2 { assert(logic_op_int(qa, qb, qa * qb, 0, s) == 0 && logic_op_int(qa, qb, qa * qb, 1, s) == -6 && logic_op_int(qa, qb, qa * qb, 2, s) == -12 && logic_op_int(qa, qb, qa * qb, 3, s) == -18) by(nonlinear_arith) requires s == -1, qa == 2, qb == 2; }
    if s == -1 && qa == 2 && qb == 3 { assert(logic_op_int(qa, qb, qa * qb, 0, s) == 6 && logic_op_int(qa, qb, qa * qb, 1, s) == 0 && logic_op_int(qa, qb, qa * qb, 2, s) == -6 && logic_op_int(qa, qb, qa * qb, 3, s) == -12) by(nonlinear_arith) requires s == -1, qa == 2, qb == 3; }
    if s == -1 && qa == 3 && qb == 0 { assert(logic_op_int(qa, qb, qa * qb, 0, s) == 18 && logic_op_int(qa, qb, qa * qb, 1, s) == 12 && logic_op_int(qa, qb, qa * qb, 2, s) == 6 && logic_op_int(qa, qb, qa * qb, 3, s) == 0) by(nonlinear_arith) requires s == -1, qa == 3, qb == 0; }
    if s == -1 && qa == 3 && qb == 1 { assert(logic_op_int(qa, qb, qa * qb, 0, s) == 12 && logic_op_int(qa, qb, qa * qb, 1, s) == 6 && logic_op_int(qa, qb, qa * qb, 2, s) == 0 && logic_op_int(qa, qb, qa * qb, 3, s) == -6) by(nonlinear_arith) requires s == -1, qa == 3, qb == 1; }
    if s == -1 && qa == 3 && qb == 2 { assert(logic_op_int(qa, qb, qa * qb, 0, s) == 6 && logic_op_int(qa, qb, qa * qb, 1, s) == 0 && logic_op_int(qa, qb, qa * qb, 2, s) == -6 && logic_op_int(qa, qb, qa * qb, 3, s) == -12) by(nonlinear_arith) requires s == -1, qa == 3, qb == 2; }
    if s == -1 && qa == 3 && qb == 3 { assert(logic_op_int(qa, qb, qa * qb, 0, s) == 0 && logic_op_int(qa, qb, qa * qb, 1, s) == -6 && logic_op_int(qa, qb, qa * qb, 2, s) == -12 && logic_op_int(qa, qb, qa * qb, 3, s) == -18) by(nonlinear_arith) requires s == -1, qa == 3, qb == 3; }
}

// ---------------------------------------------------------------- the accumulator chain
/// digit-wise (base 4) AND / XOR of the low k quads: the bitwise operation on 2k-bit values (quad_op is the bitwise op on 2 bits)
pub open spec fn op4(s: int, a: int, b: int, k: int) -> int decreases k {
    if k <= 0 { 0 } else { 4 * op4(s, a / 4, b / 4, k - 1) + quad_op(s, a % 4, b % 4) }
}

pub open spec fn lg_quad_of(cur: int, next: int) -> int { md(next - 4 * cur) }

/// what ONE selected logic row enforces on canonical values (logic_id of specs/ring/protocol.py, ring units logic.*, once the separation
/// challenge separates its five terms): the three accumulator steps are quads, the product wire is their product, the op identity vanishes
pub open spec fn logic_step_sat(s: int, a0: int, a1: int, b0: int, b1: int, d0: int, d1: int, w: int) -> bool {
    let qa = lg_quad_of(a0, a1); let qb = lg_quad_of(b0, b1); let qd = lg_quad_of(d0, d1);
    &&& 0 <= qa <= 3 && 0 <= qb <= 3 && 0 <= qd <= 3
    &&& w == qa * qb
    &&& md(logic_op_int(qa, qb, w, qd, s)) == 0
}

/// rows 0..p of append_logic_component::<p>: accumulators start at the constant 0 and every step satisfies the row identity
pub open spec fn logic_chain_sat(s: int, p: int, a: Seq<int>, b: Seq<int>, d: Seq<int>, w: Seq<int>) -> bool {
    &&& a.len() == p + 1 && b.len() == p + 1 && d.len() == p + 1 && w.len() == p
    &&& a[0] == 0 && b[0] == 0 && d[0] == 0
    &&& forall|i: int| 0 <= i <= p ==> 0 <= #[trigger] a[i] < R() && 0 <= b[i] < R() && 0 <= d[i] < R()
    &&& forall|i: int| 0 <= i < p ==> logic_step_sat(s, #[trigger] a[i], a[i + 1], b[i], b[i + 1], d[i], d[i + 1], w[i])
}

proof fn lemma_step_exact(cur: int, next: int, k: int)
    requires 0 <= cur < lpow4(k), 0 <= k <= 126, 0 <= next < R(), 0 <= lg_quad_of(cur, next) <= 3
    ensures next == 4 * cur + lg_quad_of(cur, next), next < lpow4(k + 1)
{
    lemma_lpow4_mono(k + 1, 127);
    lemma_lpow4_127();
    assert(lpow4(k + 1) == 4 * lpow4(k));
    if next - 4 * cur >= 0 {
        lemma_md_small(next - 4 * cur);
    } else {
        lemma_md_small(next - 4 * cur + R());
        lemma_mod_add_multiples_vanish(next - 4 * cur, R());
        assert(4 * cur + 3 < R());
        assert(false);
    }
}

proof fn lemma_op4_step(s: int, a: int, b: int, qa: int, qb: int, k: int)
    requires 0 <= a, 0 <= b, 0 <= qa <= 3, 0 <= qb <= 3, k >= 0
    ensures op4(s, 4 * a + qa, 4 * b + qb, k + 1) == 4 * op4(s, a, b, k) + quad_op(s, qa, qb)
{
    lemma_fundamental_div_mod_converse(4 * a + qa, 4, a, qa);
    lemma_fundamental_div_mod_converse(4 * b + qb, 4, b, qb);
}

proof fn lemma_quad_op_range(s: int, qa: int, qb: int)
    requires s == 1 || s == -1, 0 <= qa <= 3, 0 <= qb <= 3
    ensures 0 <= quad_op(s, qa, qb) <= 3
{}

/// C10 (accumulators): for p <= 127 the satisfied chain forces, as INTEGERS, a_p, b_p < 4^p and d_p == the quad-wise AND / XOR of a_p and b_p
pub proof fn lemma_logic_chain(s: int, p: int, a: Seq<int>, b: Seq<int>, d: Seq<int>, w: Seq<int>, i: int)
    requires s == 1 || s == -1, 0 <= p <= 127, logic_chain_sat(s, p, a, b, d, w), 0 <= i <= p
    ensures 0 <= a[i] < lpow4(i), 0 <= b[i] < lpow4(i), 0 <= d[i] < lpow4(i), d[i] == op4(s, a[i], b[i], i)
    decreases i
{
    if i > 0 {
        lemma_logic_chain(s, p, a, b, d, w, i - 1);
        let j = i - 1;
        assert(logic_step_sat(s, a[j], a[j + 1], b[j], b[j + 1], d[j], d[j + 1], w[j]));
        let qa = lg_quad_of(a[j], a[i]); let qb = lg_quad_of(b[j], b[i]); let qd = lg_quad_of(d[j], d[i]);
        lemma_step_exact(a[j], a[i], j);
        lemma_step_exact(b[j], b[i], j);
        lemma_step_exact(d[j], d[i], j);
        lemma_quad_semantics(s, qa, qb, qd);
        // the identity's value is small: == 0 mod r means == 0
        let v = logic_op_int(qa, qb, qa * qb, qd, s);
        if v >= 0 { lemma_md_small(v); } else { lemma_md_small(v + R()); lemma_mod_add_multiples_vanish(v, R()); }
        assert(v == 0);
        assert(qd == quad_op(s, qa, qb));
        lemma_op4_step(s, a[j], b[j], qa, qb, j);
    } else {
        assert(lpow4(0) == 1);
    }
}

/// C10 (returned value): with the accumulators pinned to the canonical low 2p bits of the inputs (bind_truncated_input; C11 lemma
/// lemma_truncation_sound: a_p == xa mod 2^(2p), b_p == xb mod 2^(2p)) the returned witness d_p is the quad-wise, i.e. bitwise, AND / XOR of
/// those low bits - and nothing else satisfies the rows
pub proof fn lemma_logic_component_value(s: int, p: int, a: Seq<int>, b: Seq<int>, d: Seq<int>, w: Seq<int>, xa_low: int, xb_low: int)
    requires s == 1 || s == -1, 0 <= p <= 127, logic_chain_sat(s, p, a, b, d, w), a[p] == xa_low, b[p] == xb_low
    ensures d[p] == op4(s, xa_low, xb_low, p), 0 <= d[p] < lpow4(p)
{
    lemma_logic_chain(s, p, a, b, d, w, p);
}
} // verus!

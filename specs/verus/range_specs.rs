//! Layout of the base-4 range gadget (specification side, written from the property text and the documented layout:
//! "each gate holds 4 quads; wires fill D, C, B, A; last gate reserved for the final accumulator; closing equality").
use vstd::prelude::*;
use vstd::arithmetic::power2::*;
use crate::verif_specs::field::*;
use crate::verif_specs::composer_specs::*;
use crate::composer::{Constraint, Witness, Composer};
verus! {
/// bit k of the canonical value
pub open spec fn bit_of(v: int, k: int) -> bool { (v / (pow2(k as nat) as int)) % 2 == 1 }

/// number of selected (range) rows for an even width nb
pub open spec fn rc_ng(nb: int) -> int { (nb + 7) / 8 }
/// quads held by those rows
pub open spec fn rc_nq(nb: int) -> int { 4 * rc_ng(nb) }
/// left padding: the first accumulator sits at position `pad`
pub open spec fn rc_pad(nb: int) -> int { 1 + rc_nq(nb) - nb / 2 }

/// witness index wired at chain position i (0 = unused, i.e. the constant-zero witness), accumulators allocated from n0;
/// only positions < upto have been wired so far
pub open spec fn rc_acc_upto(nb: int, n0: int, i: int, upto: int) -> nat {
    if rc_pad(nb) <= i && i < upto { (n0 + i - rc_pad(nb)) as nat } else { 0 }
}
pub open spec fn rc_acc(nb: int, n0: int, i: int) -> nat { rc_acc_upto(nb, n0, i, rc_nq(nb) + 1) }

pub open spec fn range_row(a: nat, b: nat, c: nat, d: nat) -> GateV {
    GateV { q_m: 0, q_l: 0, q_r: 0, q_o: 0, q_f: 0, q_c: 0, q_arith: 0, q_range: 1, q_logic: 0, q_fixed: 0, q_var: 0, a, b, c, d }
}
pub open spec fn zero_row(a: nat, b: nat, c: nat, d: nat) -> GateV {
    GateV { q_m: 0, q_l: 0, q_r: 0, q_o: 0, q_f: 0, q_c: 0, q_arith: 0, q_range: 0, q_logic: 0, q_fixed: 0, q_var: 0, a, b, c, d }
}

/// row t of the gadget: rows 0..ng-1 are selected and hold positions 4t+3 (A), 4t+2 (B), 4t+1 (C), 4t (D);
/// row ng is unselected and carries the final accumulator on D (read as `d_next` by row ng-1)
pub open spec fn rc_row(nb: int, n0: int, t: int) -> GateV {
    if t < rc_ng(nb) {
        range_row(rc_acc(nb, n0, 4 * t + 3), rc_acc(nb, n0, 4 * t + 2), rc_acc(nb, n0, 4 * t + 1), rc_acc(nb, n0, 4 * t))
    } else {
        zero_row(0, 0, 0, rc_acc(nb, n0, rc_nq(nb)))
    }
}
pub open spec fn rc_rows(nb: int, n0: int) -> Seq<GateV> {
    Seq::new((rc_ng(nb) + 1) as nat, |t: int| rc_row(nb, n0, t))
}

pub open spec fn is_range_base(c: Constraint) -> bool {
    c.wf() && !c.has_pi() && c.q(0) == 0 && c.q(1) == 0 && c.q(2) == 0 && c.q(3) == 0 && c.q(4) == 0 && c.q(5) == 0
        && c.q(7) == 0 && c.q(8) == 1 && c.q(9) == 0 && c.q(10) == 0 && c.q(11) == 0
}
pub open spec fn is_zero_base(c: Constraint) -> bool {
    c.wf() && !c.has_pi() && c.q(0) == 0 && c.q(1) == 0 && c.q(2) == 0 && c.q(3) == 0 && c.q(4) == 0 && c.q(5) == 0
        && c.q(7) == 0 && c.q(8) == 0 && c.q(9) == 0 && c.q(10) == 0 && c.q(11) == 0
}

/// state of the local `constraints` vector while the accumulators are being wired (positions < upto done)
pub open spec fn rc_partial(cs: Seq<Constraint>, nb: int, n0: int, upto: int) -> bool {
    cs.len() == rc_ng(nb) + 1
    && forall|t: int| 0 <= t < cs.len() ==> is_range_base(#[trigger] cs[t])
        && cs[t].w(0) == rc_acc_upto(nb, n0, 4 * t + 3, upto) && cs[t].w(1) == rc_acc_upto(nb, n0, 4 * t + 2, upto)
        && cs[t].w(2) == rc_acc_upto(nb, n0, 4 * t + 1, upto) && cs[t].w(3) == rc_acc_upto(nb, n0, 4 * t, upto)
}

/// final state of `constraints` right before the rows are appended
pub open spec fn rc_final(cs: Seq<Constraint>, nb: int, n0: int) -> bool {
    cs.len() == rc_ng(nb) + 1
    && forall|t: int| 0 <= t < cs.len() ==> (#[trigger] cs[t]).wf() && !cs[t].has_pi() && gate_of(cs[t]) == rc_row(nb, n0, t)
}

/// all rows `range_check_even(w, nb)` appends (nb even), accumulators allocated from n0, w = index of the checked witness
pub open spec fn rce_rows(nb: int, n0: int, w: nat) -> Seq<GateV> {
    if nb == 0 {
        seq![arith_row(0, 1, 0, 0, 0, 0, w, 0, 0, 0)]
    } else {
        rc_rows(nb, n0).push(arith_row(0, 1, neg1(), 0, 0, 0, (n0 + nb / 2 - 1) as nat, w, 0, 0))
    }
}
/// witnesses allocated by range_check_even
pub open spec fn rce_wits(nb: int) -> int { nb / 2 }

/// all rows `range_check(v, nb)` appends, any nb <= 256: even widths go straight to the base-4 chain; odd widths split
/// v = lower + 2^(nb-1) * top with lower checked on nb-1 bits and top boolean
pub open spec fn rcall_rows(nb: int, n0: int, v: nat) -> Seq<GateV> {
    if nb % 2 == 0 {
        rce_rows(nb, n0, v)
    } else {
        let lower = n0 as nat;
        let top = (n0 + 1 + rce_wits(nb - 1)) as nat;
        let rec = (top + 1) as nat;
        rce_rows(nb - 1, n0 + 1, lower)
            .push(arith_row(1, 0, 0, neg1(), 0, 0, top, top, top, 0))
            .push(arith_row(0, 1, (pow2((nb - 1) as nat) as int) % R(), neg1(), 0, 0, lower, top, rec, 0))
            .push(arith_row(0, 1, neg1(), 0, 0, 0, rec, v, 0, 0))
    }
}
pub open spec fn rcall_wits(nb: int) -> int { if nb % 2 == 0 { rce_wits(nb) } else { rce_wits(nb - 1) + 3 } }

/// C09: "both entry points emit identical gates for equal widths": component_range::<P> (rows rce_rows(min(2P,256)))
/// and component_range_bits::<2P> (rows rcall_rows(2P)) agree whenever 2P <= 256.
pub proof fn lemma_entry_points_agree(p: int, n0: int, w: nat)
    requires 0 <= p, 2 * p <= 256
    ensures rcall_rows(2 * p, n0, w) == rce_rows(if 2 * p <= 256 { 2 * p } else { 256 }, n0, w)
{
}
}

//! Semantic lemmas (C08): the rows a component emits are satisfiable exactly when its documented relation holds,
//! and every returned witness is uniquely determined.  Pure specification-level mathematics over `GateV` rows and a
//! witness assignment `w: Seq<int>` of canonical values; the only axiom is that R is prime (no zero divisors).
use vstd::prelude::*;
use vstd::arithmetic::div_mod::*;
use vstd::arithmetic::mul::*;
use crate::verif_specs::field::*;
use crate::verif_specs::modarith::*;
use crate::verif_specs::composer_specs::*;
verus! {

/// AXIOM: R (the BLS12-381 scalar-field modulus) is prime, hence Z/R has no zero divisors.
pub axiom fn axiom_r_prime(a: int, b: int)
    requires md(a * b) == 0
    ensures md(a) == 0 || md(b) == 0;

/// canonical assignment: every wire value lies in [0, R)
pub open spec fn canonical(w: Seq<int>) -> bool {
    forall|i: int| 0 <= i < w.len() ==> 0 <= #[trigger] w[i] < R()
}

/// left-hand side of the arithmetic identity of a row (before reduction)
pub open spec fn arith_lhs(g: GateV, w: Seq<int>, pi: int) -> int {
    g.q_m * w[g.a as int] * w[g.b as int] + g.q_l * w[g.a as int] + g.q_r * w[g.b as int] + g.q_o * w[g.c as int]
        + g.q_f * w[g.d as int] + g.q_c + pi
}

/// the arithmetic widget's row identity  q_arith * (q_M ab + q_L a + q_R b + q_O c + q_F d + q_C + PI) = 0  (specs/ring/protocol.py: arith_id)
pub open spec fn arith_sat(g: GateV, w: Seq<int>, pi: int) -> bool {
    md(g.q_arith * arith_lhs(g, w, pi)) == 0
}

pub open spec fn wires_ok(g: GateV, w: Seq<int>) -> bool {
    g.a < w.len() && g.b < w.len() && g.c < w.len() && g.d < w.len()
}

proof fn lemma_md_zero_iff_eq(x: int, y: int)
    requires 0 <= x < R(), 0 <= y < R()
    ensures md(x - y) == 0 <==> x == y
{
    if x > y {
        lemma_md_small(x - y);
    } else if x < y {
        lemma_md_small(x - y + R());
        lemma_mod_add_multiples_vanish(x - y, R());
    } else {
        lemma_md_small(0);
    }
}

/// component_boolean(a): row (q_M = 1, q_O = -1, a = b = c)  <=>  w[a] in {0, 1}
pub proof fn lemma_boolean_row(a: nat, w: Seq<int>)
    requires canonical(w), a < w.len(), 0 < w.len()
    ensures arith_sat(arith_row(1, 0, 0, neg1(), 0, 0, a, a, a, 0), w, 0) <==> (w[a as int] == 0 || w[a as int] == 1)
{
    let x = w[a as int];
    let g = arith_row(1, 0, 0, neg1(), 0, 0, a, a, a, 0);
    assert(1 * arith_lhs(g, w, 0) == x * (x - 1) + R() * x) by(nonlinear_arith)
        requires arith_lhs(g, w, 0) == 1 * x * x + 0 * x + 0 * x + (R() - 1) * x + 0 * w[0] + 0 + 0;
    lemma_md_multiple(x);
    lemma_md_add(x * (x - 1), R() * x);
    assert(md(x * (x - 1) + R() * x) == md(x * (x - 1) + md(R() * x)));
    assert(md(1 * arith_lhs(g, w, 0)) == md(x * (x - 1)));
    if md(x * (x - 1)) == 0 {
        axiom_r_prime(x, x - 1);
        lemma_md_small(x);
        lemma_md_zero_iff_eq(x, 1);
    }
    if x == 0 || x == 1 {
        assert(x * (x - 1) == 0) by(nonlinear_arith) requires x == 0 || x == 1;
        lemma_md_small(0);
    }
}

/// assert_equal(a, b): row (q_L = 1, q_R = -1)  <=>  w[a] == w[b]
pub proof fn lemma_assert_equal_row(a: nat, b: nat, w: Seq<int>)
    requires canonical(w), a < w.len(), b < w.len(), 0 < w.len()
    ensures arith_sat(arith_row(0, 1, neg1(), 0, 0, 0, a, b, 0, 0), w, 0) <==> w[a as int] == w[b as int]
{
    let x = w[a as int];
    let y = w[b as int];
    let g = arith_row(0, 1, neg1(), 0, 0, 0, a, b, 0, 0);
    assert(1 * arith_lhs(g, w, 0) == (x - y) + R() * y) by(nonlinear_arith)
        requires arith_lhs(g, w, 0) == 0 * x * y + 1 * x + (R() - 1) * y + 0 * w[0] + 0 * w[0] + 0 + 0;
    lemma_md_multiple(y);
    lemma_md_add(x - y, R() * y);
    assert(md((x - y) + R() * y) == md((x - y) + md(R() * y)));
    lemma_md_zero_iff_eq(x, y);
}

/// assert_equal_constant(a, k, pi): row (q_L = -1, q_C = k, PI = pi)  <=>  w[a] == (k + pi) mod R
pub proof fn lemma_assert_equal_constant_row(a: nat, k: int, pi: int, w: Seq<int>)
    requires canonical(w), a < w.len(), 0 < w.len()
    ensures arith_sat(arith_row(0, neg1(), 0, 0, 0, k, a, 0, 0, 0), w, pi) <==> w[a as int] == md(k + pi)
{
    let x = w[a as int];
    let g = arith_row(0, neg1(), 0, 0, 0, k, a, 0, 0, 0);
    assert(1 * arith_lhs(g, w, pi) == (k + pi - x) + R() * x) by(nonlinear_arith)
        requires arith_lhs(g, w, pi) == 0 * x * w[0] + (R() - 1) * x + 0 * w[0] + 0 * w[0] + 0 * w[0] + k + pi;
    lemma_md_multiple(x);
    lemma_md_add(k + pi - x, R() * x);
    assert(md((k + pi - x) + R() * x) == md((k + pi - x) + md(R() * x)));
    lemma_md_sub(k + pi, x);
    lemma_md_range(k + pi);
    lemma_md_small(x);
    assert(md(k + pi - x) == md(md(k + pi) - x));
    lemma_md_zero_iff_eq(md(k + pi), x);
}

/// uniqueness of an output wire: with q_O != 0 (mod R) two assignments that satisfy the same row and agree on a, b, d
/// agree on c  ("every witness the gate returns is uniquely determined by its inputs")
pub proof fn lemma_output_unique(g: GateV, w1: Seq<int>, w2: Seq<int>, pi: int)
    requires
        canonical(w1), canonical(w2), wires_ok(g, w1), wires_ok(g, w2),
        g.q_arith == 1, md(g.q_o) != 0,
        w1[g.a as int] == w2[g.a as int], w1[g.b as int] == w2[g.b as int], w1[g.d as int] == w2[g.d as int],
        arith_sat(g, w1, pi), arith_sat(g, w2, pi),
    ensures w1[g.c as int] == w2[g.c as int]
{
    let c1 = w1[g.c as int];
    let c2 = w2[g.c as int];
    let l1 = arith_lhs(g, w1, pi);
    let l2 = arith_lhs(g, w2, pi);
    assert(l1 - l2 == g.q_o * (c1 - c2)) by(nonlinear_arith)
        requires
            l1 == g.q_m * w1[g.a as int] * w1[g.b as int] + g.q_l * w1[g.a as int] + g.q_r * w1[g.b as int] + g.q_o * c1 + g.q_f * w1[g.d as int] + g.q_c + pi,
            l2 == g.q_m * w2[g.a as int] * w2[g.b as int] + g.q_l * w2[g.a as int] + g.q_r * w2[g.b as int] + g.q_o * c2 + g.q_f * w2[g.d as int] + g.q_c + pi,
            w1[g.a as int] == w2[g.a as int], w1[g.b as int] == w2[g.b as int], w1[g.d as int] == w2[g.d as int];
    assert(1 * l1 == l1 && 1 * l2 == l2);
    lemma_md_sub(l1, l2);
    assert(md(l1 - l2) == md(md(l1) - md(l2)));
    lemma_md_small(0);
    assert(md(g.q_o * (c1 - c2)) == 0);
    axiom_r_prime(g.q_o, c1 - c2);
    lemma_md_zero_iff_eq(c1, c2);
}

/// gate_add / gate_mul (q_O = -1): the row holds  <=>  the output wire carries  x = q_M ab + q_L a + q_R b + q_F d + q_C + PI
pub proof fn lemma_gate_output_value(g: GateV, w: Seq<int>, pi: int)
    requires canonical(w), wires_ok(g, w), g.q_arith == 1, g.q_o == neg1()
    ensures arith_sat(g, w, pi) <==> w[g.c as int] == md(g.q_m * w[g.a as int] * w[g.b as int] + g.q_l * w[g.a as int]
        + g.q_r * w[g.b as int] + g.q_f * w[g.d as int] + g.q_c + pi)
{
    let c = w[g.c as int];
    let x = g.q_m * w[g.a as int] * w[g.b as int] + g.q_l * w[g.a as int] + g.q_r * w[g.b as int] + g.q_f * w[g.d as int] + g.q_c + pi;
    assert(1 * arith_lhs(g, w, pi) == (x - c) + R() * c) by(nonlinear_arith)
        requires arith_lhs(g, w, pi) == x + (R() - 1) * c;
    lemma_md_multiple(c);
    lemma_md_add(x - c, R() * c);
    assert(md((x - c) + R() * c) == md((x - c) + md(R() * c)));
    lemma_md_sub(x, c);
    lemma_md_range(x);
    lemma_md_small(c);
    assert(md(x - c) == md(md(x) - c));
    lemma_md_zero_iff_eq(md(x), c);
}


/// component_select(bit, a, b): the four rows force  out == bit*a + (1 - bit)*b  (mod R)  -- for ANY value of `bit`
/// (the component does not constrain the bit; for bit in {0,1} this is the selection b / a)
pub proof fn lemma_select_rows(bit: nat, a: nat, b: nat, n: nat, w: Seq<int>)
    requires
        canonical(w), bit < w.len(), a < w.len(), b < w.len(), n + 3 < w.len(), 0 < w.len(),
        arith_sat(arith_row(1, 0, 0, neg1(), 0, 0, bit, a, n, 0), w, 0),
        arith_sat(arith_row(0, neg1(), 0, neg1(), 0, 1, bit, 0, (n + 1) as nat, 0), w, 0),
        arith_sat(arith_row(1, 0, 0, neg1(), 0, 0, (n + 1) as nat, b, (n + 2) as nat, 0), w, 0),
        arith_sat(arith_row(0, 1, 1, neg1(), 0, 0, (n + 2) as nat, n, (n + 3) as nat, 0), w, 0),
    ensures
        w[n as int + 3] == md(w[bit as int] * w[a as int] + (1 - w[bit as int]) * w[b as int])
{
    let vb = w[bit as int]; let va = w[a as int]; let vbb = w[b as int];
    let z = w[0];
    lemma_gate_output_value(arith_row(1, 0, 0, neg1(), 0, 0, bit, a, n, 0), w, 0);
    lemma_gate_output_value(arith_row(0, neg1(), 0, neg1(), 0, 1, bit, 0, (n + 1) as nat, 0), w, 0);
    lemma_gate_output_value(arith_row(1, 0, 0, neg1(), 0, 0, (n + 1) as nat, b, (n + 2) as nat, 0), w, 0);
    lemma_gate_output_value(arith_row(0, 1, 1, neg1(), 0, 0, (n + 2) as nat, n, (n + 3) as nat, 0), w, 0);
    let t0 = w[n as int]; let t1 = w[n as int + 1]; let t2 = w[n as int + 2]; let t3 = w[n as int + 3];
    assert(t0 == md(vb * va)) by {
        assert(1 * vb * va + 0 * vb + 0 * va + 0 * z + 0 + 0 == vb * va) by(nonlinear_arith);
    }
    assert(t1 == md(1 - vb)) by {
        assert(0 * vb * z + (R() - 1) * vb + 0 * z + 0 * z + 1 + 0 == (1 - vb) + R() * vb) by(nonlinear_arith);
        lemma_md_multiple(vb);
        lemma_md_add(1 - vb, R() * vb);
    }
    assert(t2 == md(t1 * vbb)) by {
        assert(1 * t1 * vbb + 0 * t1 + 0 * vbb + 0 * z + 0 + 0 == t1 * vbb) by(nonlinear_arith);
    }
    assert(t3 == md(t2 + t0)) by {
        assert(0 * t2 * t0 + 1 * t2 + 1 * t0 + 0 * z + 0 + 0 == t2 + t0) by(nonlinear_arith);
    }
    // t2 = (1 - vb) * vbb  mod R ;  t3 = t2 + t0
    lemma_md_mul(1 - vb, vbb);
    assert(t2 == md((1 - vb) * vbb));
    lemma_md_add((1 - vb) * vbb, vb * va);
    assert(t3 == md((1 - vb) * vbb + vb * va));
}

/// component_select_one(bit, v): one row  <=>  out == 1 - bit + bit*v ;  component_select_zero(bit, v): out == bit*v
pub proof fn lemma_select_one_zero_rows(bit: nat, v: nat, c: nat, w: Seq<int>)
    requires canonical(w), bit < w.len(), v < w.len(), c < w.len(), 0 < w.len()
    ensures
        arith_sat(arith_row(1, neg1(), 0, neg1(), 0, 1, bit, v, c, 0), w, 0) <==> w[c as int] == md(1 - w[bit as int] + w[bit as int] * w[v as int]),
        arith_sat(arith_row(1, 0, 0, neg1(), 0, 0, bit, v, c, 0), w, 0) <==> w[c as int] == md(w[bit as int] * w[v as int]),
{
    let vb = w[bit as int]; let vv = w[v as int]; let z = w[0];
    lemma_gate_output_value(arith_row(1, neg1(), 0, neg1(), 0, 1, bit, v, c, 0), w, 0);
    lemma_gate_output_value(arith_row(1, 0, 0, neg1(), 0, 0, bit, v, c, 0), w, 0);
    assert(1 * vb * vv + (R() - 1) * vb + 0 * vv + 0 * z + 1 + 0 == (1 - vb + vb * vv) + R() * vb) by(nonlinear_arith);
    lemma_md_multiple(vb);
    lemma_md_add(1 - vb + vb * vv, R() * vb);
    assert(1 * vb * vv + 0 * vb + 0 * vv + 0 * z + 0 + 0 == vb * vv) by(nonlinear_arith);
}

} // verus!

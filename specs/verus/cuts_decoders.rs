//! Callee wrappers: functions of the dependencies / std that Verus cannot name or specify directly.  Each wrapper's
//! BODY IS THE CALL IT REPLACES; it is `external_body`, i.e. its contract is an ASSUMPTION about the callee.
use vstd::prelude::*;
use crate::error::Error;

verus! {
#[verifier::external_type_specification]
#[verifier::external_body]
pub struct ExVerifierKey(crate::proof_system::widget::VerifierKey);

#[verifier::external_type_specification]
#[verifier::external_body]
pub struct ExProverKey(crate::proof_system::ProverKey);

#[verifier::external_type_specification]
#[verifier::external_body]
pub struct ExCommitKey2(crate::commitment_scheme::CommitKey);

/// `VerifierKey::from_slice(b)?` (dusk-bytes checked decoder of 15 compressed points + n): total on every slice
#[verifier::external_body]
pub fn v_verifier_key_from_slice(b: &[u8]) -> (r: Result<crate::proof_system::widget::VerifierKey, Error>) {
    use dusk_bytes::DeserializableSlice;
    Ok(crate::proof_system::widget::VerifierKey::from_slice(b)?)
}

/// `OpeningKey::from_slice(b)?`: total on every slice
#[verifier::external_body]
pub fn v_opening_key_from_slice(b: &[u8]) -> (r: Result<crate::commitment_scheme::OpeningKey, Error>) {
    use dusk_bytes::DeserializableSlice;
    Ok(crate::commitment_scheme::OpeningKey::from_slice(b)?)
}

/// `ProverKey::from_slice(b)?` (crate decoder, its own unit is C17.ProverKey::from_slice): total on every slice
#[verifier::external_body]
pub fn v_prover_key_from_slice(b: &[u8]) -> (r: Result<crate::proof_system::ProverKey, Error>) {
    Ok(crate::proof_system::ProverKey::from_slice(b)?)
}

/// `prover_key.n` (field of the opaque ProverKey)
#[verifier::external_body]
pub fn v_prover_key_n(pk: &crate::proof_system::ProverKey) -> (r: usize) {
    pk.n
}

/// `dusk_bytes::Error::InvalidData.into()`
#[verifier::external_body]
pub fn v_invalid_data() -> (r: Error) {
    dusk_bytes::Error::InvalidData.into()
}

/// `CommitKey::from_raw_var_bytes(b)?`
#[verifier::external_body]
pub fn v_commit_key_from_raw(b: &[u8]) -> (r: Result<crate::commitment_scheme::CommitKey, Error>) {
    Ok(crate::commitment_scheme::CommitKey::from_raw_var_bytes(b)?)
}

} // verus!

//! Minimal view of Composer for the capacity chain (row count only).
use vstd::prelude::*;
use crate::composer::Composer;
verus! {
pub uninterp spec fn ngates(c: Composer) -> int;

/// `composer.constraints()` (leaf, ASSUMED: the number of appended rows; non-negative)
#[verifier::external_body]
pub fn v_constraints(c: &Composer) -> (r: usize)
    ensures r as int == ngates(*c)
{
    c.constraints()
}
}

use vstd::prelude::*;
use vstd::arithmetic::power2::*;
verus! {

/// largest power of two <= a (for a >= 1)
pub open spec fn pow2_floor(a: int) -> int
    decreases a
{
    if a <= 1 { 1 } else { 2 * pow2_floor(a / 2) }
}

pub open spec fn spec_max_constraints(max_degree: int) -> int {
    let available = if max_degree >= 6 { max_degree - 6 } else { 0 };
    let dom = if available == 0 { 0 } else { pow2_floor(available) };
    if dom >= 6 { dom - 6 } else { 0 }
}

pub proof fn lemma_pow2_floor_bracket(a: int, k: nat)
    requires
        pow2(k) <= a < 2 * pow2(k),
    ensures
        pow2_floor(a) == pow2(k),
    decreases k
{
    lemma2_to64();
    if k == 0 {
        assert(pow2(0) == 1);
        assert(a == 1);
    } else {
        lemma_pow2_unfold(k);
        assert(pow2(k) == 2 * pow2((k - 1) as nat));
        assert(a >= 2);
        lemma_pow2_floor_bracket(a / 2, (k - 1) as nat);
    }
}

pub proof fn lemma_usize_shl_one(k: u32)
    requires k < 64
    ensures (1usize << k) as int == pow2(k as nat)
{
    lemma_pow2_strictly_increases(k as nat, 64);
    lemma2_to64();
    assert(1 * pow2(k as nat) <= u64::MAX);
    vstd::bits::lemma_u64_shl_is_mul(1u64, k as u64);
    assert((1usize << k) as u64 == (1u64 << (k as u64))) by(bit_vector)
        requires k < 64;
}

} // verus!

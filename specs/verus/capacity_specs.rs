use vstd::prelude::*;
use vstd::arithmetic::power2::*;
verus! {

/// largest power of two <= a (for a >= 1)
pub open spec fn pow2_floor(a: int) -> int
    decreases a
{
    if a <= 1 { 1 } else { 2 * pow2_floor(a / 2) }
}

pub open spec fn spec_max_constraints(max_degree: int) -> int {
    let available = if max_degree >= 6 { max_degree - 6 } else { 0 };
    let dom = if available == 0 { 0 } else { pow2_floor(available) };
    if dom >= 6 { dom - 6 } else { 0 }
}

pub proof fn lemma_pow2_floor_bracket(a: int, k: nat)
    requires
        pow2(k) <= a < 2 * pow2(k),
    ensures
        pow2_floor(a) == pow2(k),
    decreases k
{
    lemma2_to64();
    if k == 0 {
        assert(pow2(0) == 1);
        assert(a == 1);
    } else {
        lemma_pow2_unfold(k);
        assert(pow2(k) == 2 * pow2((k - 1) as nat));
        assert(a >= 2);
        lemma_pow2_floor_bracket(a / 2, (k - 1) as nat);
    }
}

pub proof fn lemma_usize_shl_one(k: u32)
    requires k < 64
    ensures (1usize << k) as int == pow2(k as nat)
{
    lemma_pow2_strictly_increases(k as nat, 64);
    lemma2_to64();
    assert(1 * pow2(k as nat) <= u64::MAX);
    vstd::bits::lemma_u64_shl_is_mul(1u64, k as u64);
    assert((1usize << k) as u64 == (1u64 << (k as u64))) by(bit_vector)
        requires k < 64;
}


/// smallest power of two >= x  (the value of `usize::next_power_of_two`, absent overflow)
pub open spec fn spec_npot(x: int) -> int
    decreases x
{
    if x <= 1 { 1 } else { 2 * spec_npot((x + 1) / 2) }
}

pub open spec fn is_pow2(x: int) -> bool
    decreases x
{
    x == 1 || (x > 1 && x % 2 == 0 && is_pow2(x / 2))
}

pub proof fn lemma_npot_basic(x: int)
    ensures spec_npot(x) >= x, spec_npot(x) >= 1, is_pow2(spec_npot(x))
    decreases x
{
    if x > 1 {
        lemma_npot_basic((x + 1) / 2);
        let h = spec_npot((x + 1) / 2);
        assert((2 * h) / 2 == h);
        assert((2 * h) % 2 == 0);
    }
}

/// minimality: every power of two >= x is >= npot(x)
pub proof fn lemma_npot_min(x: int, q: int)
    requires is_pow2(q), q >= x
    ensures spec_npot(x) <= q
    decreases x
{
    if x > 1 {
        assert(q > 1);
        lemma_npot_min((x + 1) / 2, q / 2);
    }
}

pub proof fn lemma_pow2_floor_basic(a: int)
    requires a >= 1
    ensures is_pow2(pow2_floor(a)), pow2_floor(a) <= a, a < 2 * pow2_floor(a)
    decreases a
{
    if a > 1 {
        lemma_pow2_floor_basic(a / 2);
        let h = pow2_floor(a / 2);
        assert((2 * h) / 2 == h);
        assert((2 * h) % 2 == 0);
    }
}

/// maximality: every power of two <= a is <= pow2_floor(a)
pub proof fn lemma_pow2_floor_max(a: int, q: int)
    requires a >= 1, is_pow2(q), q <= a
    ensures q <= pow2_floor(a)
    decreases a
{
    lemma_pow2_floor_basic(a);
    if a > 1 && q > 1 {
        assert(q % 2 == 0 && is_pow2(q / 2));
        assert(q / 2 <= a / 2);
        lemma_pow2_floor_max(a / 2, q / 2);
        assert(q == 2 * (q / 2));
    }
}

/// C15: the compressed route (c <= max_constraints(pp)) and the direct route (trim(npot(c + 6)) succeeds, i.e.
/// npot(c + 6) + 6 <= max_degree) accept exactly the same constraint counts c >= 1, for every SRS capacity.
pub proof fn lemma_max_constraints_exact(c: int, max_degree: int)
    requires c >= 1, max_degree >= 0
    ensures (c <= spec_max_constraints(max_degree)) <==> (spec_npot(c + 6) + 6 <= max_degree)
{
    let a = if max_degree >= 6 { max_degree - 6 } else { 0 };
    lemma_npot_basic(c + 6);
    if a == 0 {
        assert(spec_max_constraints(max_degree) == 0);
    } else {
        lemma_pow2_floor_basic(a);
        let p = pow2_floor(a);
        if c <= spec_max_constraints(max_degree) {
            assert(p >= 7);
            lemma_npot_min(c + 6, p);
        }
        if spec_npot(c + 6) + 6 <= max_degree {
            lemma_pow2_floor_max(a, spec_npot(c + 6));
        }
    }
}


/// ASSUMED contract of `usize::next_power_of_two` (std): smallest power of two >= x; must not overflow
pub assume_specification[ usize::next_power_of_two ](x: usize) -> (r: usize)
    requires spec_npot(x as int) <= usize::MAX
    ensures r as int == spec_npot(x as int);

pub proof fn lemma_npot_upper(x: int, bound: int)
    requires is_pow2(bound), x <= bound
    ensures spec_npot(x) <= bound
{
    lemma_npot_min(x, bound);
}
} // verus!

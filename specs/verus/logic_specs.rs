//! Layout of the AND/XOR gadget (specification side; from the documented table: first row (0,0,w1,0), then rows
//! (a_i, b_i, w_{i+1}, d_i), last row (a_n, b_n, 0, d_n) unselected, then the two truncation bindings).
use vstd::prelude::*;
use crate::verif_specs::field::*;
use crate::verif_specs::composer_specs::*;
use crate::verif_specs::range_specs::*;
use crate::verif_specs::truncate_specs::*;
use crate::composer::Constraint;
verus! {

/// selected logic row: q_c = q_logic = s with s = 1 (AND) or -1 (XOR)
pub open spec fn logic_row(s: int, a: nat, b: nat, c: nat, d: nat) -> GateV {
    GateV { q_m: 0, q_l: 0, q_r: 0, q_o: 0, q_f: 0, q_c: s, q_arith: 0, q_range: 0, q_logic: s, q_fixed: 0, q_var: 0, a, b, c, d }
}

/// witness index of accumulator k (0 = left, 1 = right, 3 = out) after i quads; before the first quad it is the constant 0
pub open spec fn lg_acc(n0: int, i: int, k: int) -> nat {
    if i <= 0 { 0 } else { (n0 + 4 * (i - 1) + k) as nat }
}

/// row i (0 <= i < p): accumulators after i quads on A, B, D; the product wire of quad i on C
pub open spec fn lg_row(s: int, n0: int, i: int) -> GateV {
    logic_row(s, lg_acc(n0, i, 0), lg_acc(n0, i, 1), (n0 + 4 * i + 2) as nat, lg_acc(n0, i, 3))
}

pub open spec fn lg_rows_prefix(s: int, n0: int, upto: int) -> Seq<GateV> {
    Seq::new(upto as nat, |i: int| lg_row(s, n0, i))
}

/// the p selected rows followed by the unselected carrier row
pub open spec fn lg_rows(p: int, s: int, n0: int) -> Seq<GateV> {
    lg_rows_prefix(s, n0, p).push(zero_row(lg_acc(n0, p, 0), lg_acc(n0, p, 1), 0, lg_acc(n0, p, 3)))
}

pub open spec fn logic_wits(p: int) -> int { if p == 0 { 0 } else { 4 * p + 2 * bts_wits(2 * p) } }

/// everything `append_logic_component::<p>(a, b, xor)` appends
pub open spec fn logic_rows(p: int, s: int, n0: int, a: nat, b: nat) -> Seq<GateV> {
    if p == 0 {
        lg_rows(p, s, n0)
    } else {
        lg_rows(p, s, n0)
            + bts_rows(2 * p, n0 + 4 * p, a, lg_acc(n0, p, 0))
            + bts_rows(2 * p, n0 + 4 * p + bts_wits(2 * p), b, lg_acc(n0, p, 1))
    }
}

pub open spec fn is_logic_base(c: Constraint, s: int) -> bool {
    c.wf() && !c.has_pi() && c.q(0) == 0 && c.q(1) == 0 && c.q(2) == 0 && c.q(3) == 0 && c.q(4) == 0 && c.q(5) == s
        && c.q(7) == 0 && c.q(8) == 0 && c.q(9) == s && c.q(10) == 0 && c.q(11) == 0
}

} // verus!

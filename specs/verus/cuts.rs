//! Callee wrappers: functions of the dependencies / std that Verus cannot name or specify directly.  Each wrapper's
//! BODY IS THE CALL IT REPLACES; it is `external_body`, i.e. its contract is an ASSUMPTION about the callee.
use vstd::prelude::*;
use crate::error::Error;

verus! {
/// `u64::from_be_bytes` (std; total)
#[verifier::external_body]
pub fn v_u64_from_be_bytes(b: [u8; 8]) -> (r: u64) {
    u64::from_be_bytes(b)
}

/// `<[u8; 8]>::try_from(s).expect(..)`: panics unless the slice has exactly 8 bytes -> precondition
#[verifier::external_body]
pub fn v_arr8(s: &[u8]) -> (r: [u8; 8])
    requires s@.len() == 8
{
    <[u8; 8]>::try_from(s).expect("checked len")
}

/// the big-endian u64 list decoder `chunks_exact(8).map(try_from).map(from_be_bytes).map(as usize).collect()`:
/// total on every slice, one element per 8 input bytes
#[verifier::external_body]
pub fn v_be_u64_list(b: &[u8]) -> (r: Vec<usize>)
    ensures r@.len() == b@.len() / 8
{
    b.chunks_exact(8)
        .map(|c| <[u8; 8]>::try_from(c).expect("checked len"))
        .map(u64::from_be_bytes)
        .map(|n| n as usize)
        .collect()
}

/// `bytes.as_ref()` for `B: AsRef<[u8]>` (no contract: an arbitrary byte slice)
#[verifier::external_body]
pub fn v_as_ref_bytes<B: AsRef<[u8]>>(b: &B) -> (r: &[u8]) {
    b.as_ref()
}

/// `u16::from_be_bytes` (std; total)
#[verifier::external_body]
pub fn v_u16_from_be_bytes(b: [u8; 2]) -> (r: u16)
    ensures r as int == b[0] as int * 256 + b[1] as int
{
    u16::from_be_bytes(b)
}

/// `usize::try_from(u32::from_be_bytes(b)).map_err(|_| Error::InvalidCompressedCircuit)` (total)
#[verifier::external_body]
pub fn v_u32_be_to_usize(b: [u8; 4]) -> (r: Result<usize, Error>)
    ensures r == Ok::<usize, Error>((b[0] as int * 16777216 + b[1] as int * 65536 + b[2] as int * 256 + b[3] as int) as usize)
{
    usize::try_from(u32::from_be_bytes(b)).map_err(|_| Error::InvalidCompressedCircuit)
}

/// `x.checked_next_power_of_two() != Some(y)` (std)
#[verifier::external_body]
pub fn v_npot_ne(x: usize, y: usize) -> (r: bool) {
    x.checked_next_power_of_two() != Some(y)
}

} // verus!

//! C14 semantic lemma (canonical scalar), proved in Verus: the two 252-bit range checks around (r_j - 1) - s that
//! `assert_canonical_jubjub_scalar` emits are satisfiable exactly for s below the JubJub subgroup order r_j (the range checks themselves
//! by the C09 interval lemma; r_j = 0x0e7db4ea...f72cb7 as in dusk-jubjub 0.15.2 fr).  Layout: ring unit fixed_base.assert_canonical_jubjub_scalar.
use vstd::prelude::*;
use vstd::arithmetic::div_mod::*;
use crate::verif_specs::field::*;
use crate::verif_specs::modarith::*;
verus! {

/// order of the JubJub prime-order subgroup (dusk-jubjub Fr modulus)
pub open spec fn RJ() -> int { 6554484396890773809930967563523245729705921265872317281365359162392183254199int }
pub open spec fn P252() -> int { 0x1000000000000000000000000000000000000000000000000000000000000000int }

/// what assert_canonical_jubjub_scalar's rows enforce on canonical values: s < 2^252, dist = (r_j - 1) - s (mod R), dist < 2^252
pub open spec fn jj_rows_sat(s: int, dist: int) -> bool {
    0 <= s < R() && 0 <= dist < R() && s < P252() && dist == md((RJ() - 1) - s) && dist < P252()
}

/// C14 (canonical scalar): the rows are satisfiable exactly for canonical JubJub scalars, and then dist is forced
pub proof fn lemma_canonical_jubjub_scalar_sound(s: int, dist: int)
    requires jj_rows_sat(s, dist)
    ensures s < RJ()
{
    if s >= RJ() {
        let d = (RJ() - 1) - s;        // negative, > -2^252
        lemma_md_small(d + R());
        lemma_mod_add_multiples_vanish(d, R());
        assert(md(d) == d + R());
        assert(d + R() >= R() - P252());
        assert(false);
    }
}

pub proof fn lemma_canonical_jubjub_scalar_complete(s: int)
    requires 0 <= s < RJ()
    ensures jj_rows_sat(s, (RJ() - 1) - s)
{
    lemma_md_small((RJ() - 1) - s);
}
} // verus!

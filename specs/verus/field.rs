//! CANON model of the BLS12-381 scalar field as seen through `dusk_bls12_381::BlsScalar`.
//! Everything in this file is an ASSUMED contract of the dependency (derived from its source): the canonical value
//! `cv(x)` in [0, R), the ring operations mod R, `From<u64>`, equality.  R prime is stated separately (axiom_r_prime)
//! and only used by the gadget lemmas.
use vstd::prelude::*;
use vstd::std_specs::ops::*;
use vstd::std_specs::convert::*;
use vstd::std_specs::cmp::*;
use dusk_bls12_381::BlsScalar;

verus! {

pub open spec fn R() -> int {
    52435875175126190479447740508185965837690552500527637822603658699938581184513int
}

/// canonical value of a scalar
pub uninterp spec fn cv(x: BlsScalar) -> int;

/// the scalar with a given canonical value
pub uninterp spec fn sc(v: int) -> BlsScalar;

pub broadcast axiom fn ax_cv_range(x: BlsScalar)
    ensures 0 <= #[trigger] cv(x) < R();

/// canonical representation is unique (the dependency keeps Montgomery limbs fully reduced)
pub broadcast axiom fn ax_cv_inj(x: BlsScalar, y: BlsScalar)
    requires cv(x) == cv(y)
    ensures #[trigger] cv(x) == #[trigger] cv(y) ==> x == y;

pub broadcast axiom fn ax_sc(v: int)
    ensures cv(#[trigger] sc(v)) == v % R();

// ---- operators: all by-value / by-reference combinations provided by the dependency
pub broadcast axiom fn ax_add_vv_req(a: BlsScalar, b: BlsScalar)
    ensures #[trigger] a.add_req(b);
pub broadcast axiom fn ax_add_vv(a: BlsScalar, b: BlsScalar)
    ensures cv(#[trigger] a.add_spec(b)) == (cv(a) + cv(b)) % R();
pub broadcast axiom fn ax_add_rr_req(a: &BlsScalar, b: &BlsScalar)
    ensures #[trigger] a.add_req(b);
pub broadcast axiom fn ax_add_rr(a: &BlsScalar, b: &BlsScalar)
    ensures cv(#[trigger] a.add_spec(b)) == (cv(*a) + cv(*b)) % R();
pub broadcast axiom fn ax_add_vr_req(a: BlsScalar, b: &BlsScalar)
    ensures #[trigger] a.add_req(b);
pub broadcast axiom fn ax_add_vr(a: BlsScalar, b: &BlsScalar)
    ensures cv(#[trigger] a.add_spec(b)) == (cv(a) + cv(*b)) % R();
pub broadcast axiom fn ax_add_rv_req(a: &BlsScalar, b: BlsScalar)
    ensures #[trigger] a.add_req(b);
pub broadcast axiom fn ax_add_rv(a: &BlsScalar, b: BlsScalar)
    ensures cv(#[trigger] a.add_spec(b)) == (cv(*a) + cv(b)) % R();
pub broadcast axiom fn ax_sub_vv_req(a: BlsScalar, b: BlsScalar)
    ensures #[trigger] a.sub_req(b);
pub broadcast axiom fn ax_sub_vv(a: BlsScalar, b: BlsScalar)
    ensures cv(#[trigger] a.sub_spec(b)) == (cv(a) - cv(b)) % R();
pub broadcast axiom fn ax_sub_rr_req(a: &BlsScalar, b: &BlsScalar)
    ensures #[trigger] a.sub_req(b);
pub broadcast axiom fn ax_sub_rr(a: &BlsScalar, b: &BlsScalar)
    ensures cv(#[trigger] a.sub_spec(b)) == (cv(*a) - cv(*b)) % R();
pub broadcast axiom fn ax_sub_vr_req(a: BlsScalar, b: &BlsScalar)
    ensures #[trigger] a.sub_req(b);
pub broadcast axiom fn ax_sub_vr(a: BlsScalar, b: &BlsScalar)
    ensures cv(#[trigger] a.sub_spec(b)) == (cv(a) - cv(*b)) % R();
pub broadcast axiom fn ax_sub_rv_req(a: &BlsScalar, b: BlsScalar)
    ensures #[trigger] a.sub_req(b);
pub broadcast axiom fn ax_sub_rv(a: &BlsScalar, b: BlsScalar)
    ensures cv(#[trigger] a.sub_spec(b)) == (cv(*a) - cv(b)) % R();
pub broadcast axiom fn ax_mul_vv_req(a: BlsScalar, b: BlsScalar)
    ensures #[trigger] a.mul_req(b);
pub broadcast axiom fn ax_mul_vv(a: BlsScalar, b: BlsScalar)
    ensures cv(#[trigger] a.mul_spec(b)) == (cv(a) * cv(b)) % R();
pub broadcast axiom fn ax_mul_rr_req(a: &BlsScalar, b: &BlsScalar)
    ensures #[trigger] a.mul_req(b);
pub broadcast axiom fn ax_mul_rr(a: &BlsScalar, b: &BlsScalar)
    ensures cv(#[trigger] a.mul_spec(b)) == (cv(*a) * cv(*b)) % R();
pub broadcast axiom fn ax_mul_vr_req(a: BlsScalar, b: &BlsScalar)
    ensures #[trigger] a.mul_req(b);
pub broadcast axiom fn ax_mul_vr(a: BlsScalar, b: &BlsScalar)
    ensures cv(#[trigger] a.mul_spec(b)) == (cv(a) * cv(*b)) % R();
pub broadcast axiom fn ax_mul_rv_req(a: &BlsScalar, b: BlsScalar)
    ensures #[trigger] a.mul_req(b);
pub broadcast axiom fn ax_mul_rv(a: &BlsScalar, b: BlsScalar)
    ensures cv(#[trigger] a.mul_spec(b)) == (cv(*a) * cv(b)) % R();
pub broadcast axiom fn ax_neg_v_req(a: BlsScalar)
    ensures #[trigger] a.neg_req();
pub broadcast axiom fn ax_neg_v(a: BlsScalar)
    ensures cv(#[trigger] a.neg_spec()) == (-cv(a)) % R();
pub broadcast axiom fn ax_neg_r_req(a: &BlsScalar)
    ensures #[trigger] a.neg_req();
pub broadcast axiom fn ax_neg_r(a: &BlsScalar)
    ensures cv(#[trigger] a.neg_spec()) == (-cv(*a)) % R();


// ---- compound assignment operators
pub broadcast axiom fn ax_add_assign_v_req(a: BlsScalar, b: BlsScalar)
    ensures #[trigger] a.add_assign_req(b);
pub broadcast axiom fn ax_add_assign_v(a: BlsScalar, b: BlsScalar)
    ensures cv(*(#[trigger] a.add_assign_spec(b))) == (cv(a) + cv(b)) % R();
pub broadcast axiom fn ax_add_assign_r_req(a: BlsScalar, b: &BlsScalar)
    ensures #[trigger] a.add_assign_req(b);
pub broadcast axiom fn ax_add_assign_r(a: BlsScalar, b: &BlsScalar)
    ensures cv(*(#[trigger] a.add_assign_spec(b))) == (cv(a) + cv(*b)) % R();
pub broadcast axiom fn ax_sub_assign_v_req(a: BlsScalar, b: BlsScalar)
    ensures #[trigger] a.sub_assign_req(b);
pub broadcast axiom fn ax_sub_assign_v(a: BlsScalar, b: BlsScalar)
    ensures cv(*(#[trigger] a.sub_assign_spec(b))) == (cv(a) - cv(b)) % R();
pub broadcast axiom fn ax_sub_assign_r_req(a: BlsScalar, b: &BlsScalar)
    ensures #[trigger] a.sub_assign_req(b);
pub broadcast axiom fn ax_sub_assign_r(a: BlsScalar, b: &BlsScalar)
    ensures cv(*(#[trigger] a.sub_assign_spec(b))) == (cv(a) - cv(*b)) % R();
pub broadcast axiom fn ax_mul_assign_v_req(a: BlsScalar, b: BlsScalar)
    ensures #[trigger] a.mul_assign_req(b);
pub broadcast axiom fn ax_mul_assign_v(a: BlsScalar, b: BlsScalar)
    ensures cv(*(#[trigger] a.mul_assign_spec(b))) == (cv(a) * cv(b)) % R();
pub broadcast axiom fn ax_mul_assign_r_req(a: BlsScalar, b: &BlsScalar)
    ensures #[trigger] a.mul_assign_req(b);
pub broadcast axiom fn ax_mul_assign_r(a: BlsScalar, b: &BlsScalar)
    ensures cv(*(#[trigger] a.mul_assign_spec(b))) == (cv(a) * cv(*b)) % R();

pub broadcast axiom fn ax_from_u64(k: u64)
    ensures cv(#[trigger] <BlsScalar as FromSpec<u64>>::from_spec(k)) == k as int;

/// core's reflexive `impl<T> From<T> for T` is the identity
pub broadcast axiom fn ax_from_refl(x: BlsScalar)
    ensures #[trigger] <BlsScalar as FromSpec<BlsScalar>>::from_spec(x) == x;

pub broadcast axiom fn ax_eq(a: BlsScalar, b: BlsScalar)
    ensures #[trigger] a.eq_spec(&b) == (cv(a) == cv(b));

pub broadcast group field_axioms {
    ax_cv_range, ax_sc, ax_from_u64, ax_from_refl, ax_eq,
    ax_add_assign_v_req, ax_add_assign_v, ax_add_assign_r_req, ax_add_assign_r, ax_sub_assign_v_req, ax_sub_assign_v, ax_sub_assign_r_req, ax_sub_assign_r, ax_mul_assign_v_req, ax_mul_assign_v, ax_mul_assign_r_req, ax_mul_assign_r,
    ax_add_vv_req, ax_add_vv, ax_add_rr_req, ax_add_rr, ax_add_vr_req, ax_add_vr, ax_add_rv_req, ax_add_rv, ax_sub_vv_req, ax_sub_vv, ax_sub_rr_req, ax_sub_rr, ax_sub_vr_req, ax_sub_vr, ax_sub_rv_req, ax_sub_rv, ax_mul_vv_req, ax_mul_vv, ax_mul_rr_req, ax_mul_rr, ax_mul_vr_req, ax_mul_vr, ax_mul_rv_req, ax_mul_rv, ax_neg_v_req, ax_neg_v, ax_neg_r_req, ax_neg_r,
}

/// the dependency's operator impls obey the spec functions above
pub axiom fn field_obeys()
    ensures
        <BlsScalar as AddSpec<BlsScalar>>::obeys_add_spec(),
        <&BlsScalar as AddSpec<&BlsScalar>>::obeys_add_spec(),
        <BlsScalar as AddSpec<&BlsScalar>>::obeys_add_spec(),
        <&BlsScalar as AddSpec<BlsScalar>>::obeys_add_spec(),
        <BlsScalar as SubSpec<BlsScalar>>::obeys_sub_spec(),
        <&BlsScalar as SubSpec<&BlsScalar>>::obeys_sub_spec(),
        <BlsScalar as SubSpec<&BlsScalar>>::obeys_sub_spec(),
        <&BlsScalar as SubSpec<BlsScalar>>::obeys_sub_spec(),
        <BlsScalar as MulSpec<BlsScalar>>::obeys_mul_spec(),
        <&BlsScalar as MulSpec<&BlsScalar>>::obeys_mul_spec(),
        <BlsScalar as MulSpec<&BlsScalar>>::obeys_mul_spec(),
        <&BlsScalar as MulSpec<BlsScalar>>::obeys_mul_spec(),
        <BlsScalar as AddAssignSpec<BlsScalar>>::obeys_add_assign_spec(),
        <BlsScalar as AddAssignSpec<&BlsScalar>>::obeys_add_assign_spec(),
        <BlsScalar as SubAssignSpec<BlsScalar>>::obeys_sub_assign_spec(),
        <BlsScalar as SubAssignSpec<&BlsScalar>>::obeys_sub_assign_spec(),
        <BlsScalar as MulAssignSpec<BlsScalar>>::obeys_mul_assign_spec(),
        <BlsScalar as MulAssignSpec<&BlsScalar>>::obeys_mul_assign_spec(),
        <BlsScalar as NegSpec>::obeys_neg_spec(),
        <&BlsScalar as NegSpec>::obeys_neg_spec(),
        <BlsScalar as FromSpec<u64>>::obeys_from_spec(),
        <BlsScalar as FromSpec<BlsScalar>>::obeys_from_spec(),   // core: impl<T> From<T> for T
        <BlsScalar as PartialEqSpec<BlsScalar>>::obeys_eq_spec(),
;

pub assume_specification[ BlsScalar::zero ]() -> (r: BlsScalar)
    ensures cv(r) == 0;
pub assume_specification[ BlsScalar::one ]() -> (r: BlsScalar)
    ensures cv(r) == 1;

} // verus!

verus! {
/// ASSUMED contract of `BlsScalar::invert` (dependency): None exactly for zero, otherwise the multiplicative inverse.
pub assume_specification[ BlsScalar::invert ](x: &BlsScalar) -> (r: Option<BlsScalar>)
    ensures
        cv(*x) == 0 ==> r.is_none(),
        cv(*x) != 0 ==> r.is_some() && (cv(*x) * cv(r.unwrap())) % R() == 1;
}

verus! {
use vstd::arithmetic::power2::pow2;
/// ASSUMED contract of `BlsScalar::to_bits` (dependency): the 256 little-endian bits of the canonical value
pub assume_specification[ BlsScalar::to_bits ](x: &BlsScalar) -> (r: [u8; 256])
    ensures forall|k: int| 0 <= k < 256 ==> (#[trigger] r@[k]) as int == (cv(*x) / (pow2(k as nat) as int)) % 2;

/// ASSUMED contract of `BlsScalar::pow_of_2` (dependency): 2^by in the field
pub assume_specification[ BlsScalar::pow_of_2 ](by: u64) -> (r: BlsScalar)
    ensures cv(r) == (pow2(by as nat) as int) % R();
}

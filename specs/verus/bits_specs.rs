//! Bit-level specification vocabulary.
use vstd::prelude::*;
use vstd::arithmetic::power2::*;
use crate::verif_specs::field::*;
use crate::verif_specs::modarith::*;
verus! {

/// a bit as the code reads it: `bits[i] == 1`
pub open spec fn b01(x: u8) -> int { if x == 1 { 1 } else { 0 } }

/// little-endian value of bits[start..end): sum b01(bits[i]) * 2^(i - start)
pub open spec fn bits_val(bits: Seq<u8>, start: int, end: int) -> int
    decreases end - start
{
    if start >= end { 0 } else { b01(bits[start]) + 2 * bits_val(bits, start + 1, end) }
}

pub proof fn lemma_bits_val_nonneg(bits: Seq<u8>, start: int, end: int)
    ensures bits_val(bits, start, end) >= 0
    decreases end - start
{
    if start < end { lemma_bits_val_nonneg(bits, start + 1, end); }
}

/// one step of the MSB-first Horner loop: value' = 2*value + bit  (mod R)
pub proof fn lemma_recompose_step(v: int, bits: Seq<u8>, i: int, end: int)
    requires 0 <= i < end, v == md(bits_val(bits, i + 1, end))
    ensures
        md(md(v * 2) + 1) == md(1 + 2 * bits_val(bits, i + 1, end)),
        md(v * 2) == md(2 * bits_val(bits, i + 1, end)),
{
    let t = bits_val(bits, i + 1, end);
    lemma_md_mul(t, 2);
    assert(md(md(t) * 2) == md(t * 2));
    lemma_md_add(t * 2, 1);
    assert(t * 2 == 2 * t);
}

/// the 256 little-endian bits of a canonical value (contract vocabulary of `BlsScalar::to_bits`)
pub open spec fn le_bits(v: int) -> Seq<u8> {
    Seq::new(256, |k: int| ((v / (pow2(k as nat) as int)) % 2) as u8)
}

} // verus!

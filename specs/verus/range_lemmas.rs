//! C09 semantic lemma (soundness direction): if the rows `range_check_even(w, nb)` emits are satisfied by an assignment
//! of canonical values, then the checked witness is below 2^nb -- for every even nb with 2 <= nb <= 254.
//! Row semantics: a selected range row with wires (a, b, c, d) and next-row wire d' is satisfied iff each of the four
//! differences  c - 4d,  b - 4c,  a - 4b,  d' - 4a  is one of 0, 1, 2, 3 (mod R)  -- this is `range_id = 0` of
//! specs/ring/protocol.py once the separation challenge separates the four delta terms (protocol-level argument, assumed).
use vstd::prelude::*;
use vstd::arithmetic::power2::*;
use crate::verif_specs::field::*;
use crate::verif_specs::modarith::*;
use crate::verif_specs::composer_specs::*;
use crate::verif_specs::range_specs::*;
use crate::verif_specs::gadget_lemmas::*;
verus! {

pub open spec fn quad_ok(cur: int, next: int) -> bool {
    let d = md(next - 4 * cur);
    d == 0 || d == 1 || d == 2 || d == 3
}

pub open spec fn range_row_sat(g: GateV, gnext: GateV, w: Seq<int>) -> bool {
    g.q_range == 1 ==> (quad_ok(w[g.d as int], w[g.c as int]) && quad_ok(w[g.c as int], w[g.b as int])
        && quad_ok(w[g.b as int], w[g.a as int]) && quad_ok(w[g.a as int], w[gnext.d as int]))
}

/// all rows of the gadget are satisfied (each selected row together with the row after it)
pub open spec fn rc_rows_sat(w: Seq<int>, nb: int, n0: int) -> bool {
    forall|t: int| 0 <= t < rc_ng(nb) ==> range_row_sat(#[trigger] rc_row(nb, n0, t), rc_row(nb, n0, t + 1), w)
}

pub open spec fn pow4(k: int) -> int
    decreases k
{
    if k <= 0 { 1 } else { 4 * pow4(k - 1) }
}

/// value on chain position i
pub open spec fn chain_val(w: Seq<int>, nb: int, n0: int, i: int) -> int {
    w[rc_acc(nb, n0, i) as int]
}

proof fn lemma_pow4_mono(a: int, b: int)
    requires 0 <= a <= b
    ensures 1 <= pow4(a) <= pow4(b)
    decreases b
{
    if a < b { lemma_pow4_mono(a, b - 1); } else if a > 0 { lemma_pow4_mono(a - 1, a - 1); }
}

proof fn lemma_pow4_127()
    ensures pow4(127) < R()
{
    assert(pow4(127) == 0x4000000000000000000000000000000000000000000000000000000000000000int) by(compute);
}

/// one chain step: next - 4*cur in {0,1,2,3} mod R, both canonical, cur small  ==>  next = 4*cur + q exactly
proof fn lemma_quad_step(cur: int, next: int, k: int)
    requires 0 <= cur < pow4(k), 0 <= k <= 126, 0 <= next < R(), quad_ok(cur, next)
    ensures next < pow4(k + 1), next >= 4 * cur
{
    lemma_pow4_mono(k + 1, 127);
    lemma_pow4_127();
    assert(pow4(k + 1) == 4 * pow4(k));
    let q = md(next - 4 * cur);
    // next - 4 cur lies in (-R, R); its residue is q in 0..3
    if next - 4 * cur >= 0 {
        lemma_md_small(next - 4 * cur);
    } else {
        // negative: residue = next - 4cur + R >= R - 4*cur > 3  -- contradiction with q <= 3
        lemma_md_small(next - 4 * cur + R());
        vstd::arithmetic::div_mod::lemma_mod_add_multiples_vanish(next - 4 * cur, R());
        assert(4 * cur + 3 < R());
        assert(false);
    }
}

/// positions and wires agree: the four wires of row t are chain positions 4t+3, 4t+2, 4t+1, 4t and the next row's D is 4t+4
proof fn lemma_row_positions(nb: int, n0: int, t: int)
    requires 2 <= nb <= 256, nb % 2 == 0, 0 <= t < rc_ng(nb)
    ensures
        rc_row(nb, n0, t).d == rc_acc(nb, n0, 4 * t), rc_row(nb, n0, t).c == rc_acc(nb, n0, 4 * t + 1),
        rc_row(nb, n0, t).b == rc_acc(nb, n0, 4 * t + 2), rc_row(nb, n0, t).a == rc_acc(nb, n0, 4 * t + 3),
        rc_row(nb, n0, t + 1).d == rc_acc(nb, n0, 4 * t + 4), rc_row(nb, n0, t).q_range == 1,
{
}

/// induction over the chain: position i carries a value below 4^(i - pad + 1)  (0 below the padding)
proof fn lemma_chain_bound(w: Seq<int>, nb: int, n0: int, i: int)
    requires
        canonical(w), w.len() > 0, w[0] == 0, 2 <= nb <= 254, nb % 2 == 0, n0 >= 1,
        n0 + nb / 2 <= w.len(),
        rc_rows_sat(w, nb, n0), 0 <= i <= rc_nq(nb),
    ensures
        0 <= chain_val(w, nb, n0, i),
        i < rc_pad(nb) ==> chain_val(w, nb, n0, i) == 0,
        i >= rc_pad(nb) ==> chain_val(w, nb, n0, i) < pow4(i - rc_pad(nb) + 1),
    decreases i
{
    let pad = rc_pad(nb);
    if i < pad {
        assert(rc_acc(nb, n0, i) == 0);
    } else {
        lemma_chain_bound(w, nb, n0, i - 1);
        let t = (i - 1) / 4;
        assert(0 <= t < rc_ng(nb));
        lemma_row_positions(nb, n0, t);
        assert(range_row_sat(rc_row(nb, n0, t), rc_row(nb, n0, t + 1), w));
        let cur = chain_val(w, nb, n0, i - 1);
        let next = chain_val(w, nb, n0, i);
        assert(quad_ok(cur, next)) by {
            let r = (i - 1) % 4;
            assert(i - 1 == 4 * t + r);
        }
        let k = if i - 1 >= pad { i - 1 - pad + 1 } else { 0 };
        assert(0 <= cur < pow4(k)) by { if i - 1 < pad { lemma_pow4_mono(0, 0); } }
        assert(k <= 126) by { assert(rc_nq(nb) - pad + 1 == nb / 2); }
        lemma_quad_step(cur, next, k);
        if i - 1 < pad {
            assert(pow4(1) == 4 * pow4(0));
        }
    }
}

pub proof fn lemma_pow4_pow2(k: int)
    requires 0 <= k
    ensures pow4(k) == pow2((2 * k) as nat)
    decreases k
{
    lemma2_to64();
    if k > 0 {
        lemma_pow4_pow2(k - 1);
        lemma_pow2_unfold((2 * k) as nat);
        lemma_pow2_unfold((2 * k - 1) as nat);
    }
}

/// C09 (soundness, even widths 2..=254): rows satisfied + closing equality  ==>  the checked witness is < 2^nb
pub proof fn lemma_range_sound(w: Seq<int>, nb: int, n0: int, wit: nat)
    requires
        canonical(w), w.len() > 0, w[0] == 0, 2 <= nb <= 254, nb % 2 == 0, n0 >= 1, n0 + nb / 2 <= w.len(), wit < w.len(),
        rc_rows_sat(w, nb, n0),
        // the closing equality row  last_accumulator == witness
        arith_sat(arith_row(0, 1, neg1(), 0, 0, 0, (n0 + nb / 2 - 1) as nat, wit, 0, 0), w, 0),
    ensures
        w[wit as int] < pow2(nb as nat)
{
    let nq = rc_nq(nb);
    lemma_chain_bound(w, nb, n0, nq);
    assert(nq - rc_pad(nb) + 1 == nb / 2);
    assert(rc_acc(nb, n0, nq) == n0 + nb / 2 - 1);
    lemma_assert_equal_row((n0 + nb / 2 - 1) as nat, wit, w);
    lemma_pow4_pow2(nb / 2);
}


// ------------------------------------------------------------------------------------------------ completeness (even widths)

/// the honest chain value at position i for a value v < 4^(nb/2): the top quads of v,  v div 4^(nq - i)
pub open spec fn honest_chain(v: int, nb: int, i: int) -> int {
    v / pow4(rc_nq(nb) - i)
}

proof fn lemma_pow4_pos(k: int)
    ensures pow4(k) >= 1
    decreases k
{
    if k > 0 { lemma_pow4_pos(k - 1); }
}

/// C09 (completeness, even widths): for every v < 2^nb the honest accumulators satisfy every quad condition, vanish on
/// the padding positions, start from 0 and end in v -- so the rows are satisfiable for every in-range value.
pub proof fn lemma_range_complete(v: int, nb: int, i: int)
    requires 0 <= v < pow2(nb as nat), 2 <= nb <= 254, nb % 2 == 0, 0 <= i < rc_nq(nb)
    ensures
        quad_ok(honest_chain(v, nb, i), honest_chain(v, nb, i + 1)),
        i < rc_pad(nb) ==> honest_chain(v, nb, i) == 0,
        honest_chain(v, nb, rc_nq(nb)) == v,
        0 <= honest_chain(v, nb, i) < R(),
{
    let nq = rc_nq(nb);
    let m = nq - i;                  // m >= 1
    lemma_pow4_pos(m - 1);
    let p = pow4(m - 1);
    assert(pow4(m) == 4 * p);
    let hi = v / (4 * p);            // honest_chain(i)
    let lo = v / p;                  // honest_chain(i + 1)
    // lo = 4 * hi + (lo % 4):  v / (4p) == (v / p) / 4
    vstd::arithmetic::div_mod::lemma_div_denominator(v, p, 4);
    assert(v / (p * 4) == (v / p) / 4);
    assert(p * 4 == 4 * p) by(nonlinear_arith);
    assert(hi == lo / 4);
    vstd::arithmetic::div_mod::lemma_fundamental_div_mod(lo, 4);
    assert(lo == 4 * (lo / 4) + lo % 4);
    let q = lo % 4;
    assert(0 <= q < 4);
    assert(lo - 4 * hi == q);
    lemma_md_small(q);
    // range of the honest values: <= v < 2^254 < R
    vstd::arithmetic::div_mod::lemma_div_pos_is_pos(v, 4 * p);
    vstd::arithmetic::div_mod::lemma_div_is_ordered_by_denominator(v, 1, 4 * p);
    lemma_pow4_pow2(nb / 2);
    lemma_pow4_mono(nb / 2, 127);
    lemma_pow4_127();
    assert(pow4(0) == 1);
    assert(honest_chain(v, nb, nq) == v / 1);
    // padding positions: nq - i >= nb/2  ==>  v / 4^(nq-i) == 0
    if i < rc_pad(nb) {
        assert(m >= nb / 2);
        lemma_pow4_mono(nb / 2, m);
        vstd::arithmetic::div_mod::lemma_basic_div(v, pow4(m));
    }
}

// ------------------------------------------------------------------------------------------------ odd widths

/// C09 (soundness, odd widths 1..=253): value = lower + 2^(nb-1) * top with lower < 2^(nb-1) (even-width lemma), top boolean,
/// recomposition row and closing equality  ==>  value < 2^nb
pub proof fn lemma_range_sound_odd(w: Seq<int>, nb: int, lower: nat, top: nat, rec: nat, v: nat)
    requires
        canonical(w), w.len() > 0, 1 <= nb <= 253, nb % 2 == 1,
        lower < w.len(), top < w.len(), rec < w.len(), v < w.len(),
        w[lower as int] < pow2((nb - 1) as nat),                                        // from lemma_range_sound / the 0-bit row
        arith_sat(arith_row(1, 0, 0, neg1(), 0, 0, top, top, top, 0), w, 0),             // top is boolean
        arith_sat(arith_row(0, 1, (pow2((nb - 1) as nat) as int) % R(), neg1(), 0, 0, lower, top, rec, 0), w, 0),
        arith_sat(arith_row(0, 1, neg1(), 0, 0, 0, rec, v, 0, 0), w, 0),                 // rec == v
    ensures
        w[v as int] < pow2(nb as nat)
{
    let l = w[lower as int]; let t = w[top as int]; let z = w[0];
    let p = pow2((nb - 1) as nat) as int;
    lemma_boolean_row(top, w);
    lemma_assert_equal_row(rec, v, w);
    lemma_gate_output_value(arith_row(0, 1, p % R(), neg1(), 0, 0, lower, top, rec, 0), w, 0);
    // p = 2^(nb-1) <= 2^252 < R
    lemma_pow2_strictly_increases((nb - 1) as nat, 254);
    lemma_pow4_pow2(127);
    lemma_pow4_127();
    lemma_md_small(p);
    lemma_pow2_unfold(nb as nat);
    assert(pow2(nb as nat) == 2 * p);
    lemma_pow2_strictly_increases(nb as nat, 254);
    assert(0 * l * t + 1 * l + p * t + 0 * z + 0 + 0 == l + p * t) by(nonlinear_arith);
    assert(l + p * t < 2 * p) by(nonlinear_arith) requires 0 <= l < p, t == 0 || t == 1;
    assert(0 <= l + p * t) by(nonlinear_arith) requires 0 <= l, t == 0 || t == 1, p >= 0;
    lemma_md_small(l + p * t);
}

} // verus!

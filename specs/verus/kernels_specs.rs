//! Kernel specifications (C19, small part).
use vstd::prelude::*;
use crate::verif_specs::field::*;
use crate::verif_specs::modarith::*;
verus! {
/// x^k in Z/R
pub open spec fn fpow(x: int, k: nat) -> int
    decreases k
{
    if k == 0 { 1 } else { md(fpow(x, (k - 1) as nat) * x) }
}

pub proof fn lemma_fpow_range(x: int, k: nat)
    ensures 0 <= fpow(x, k) < R()
    decreases k
{
    if k > 0 { lemma_md_range(fpow(x, (k - 1) as nat) * x); }
}
}

//! Prover / Verifier as opaque types.
use vstd::prelude::*;
verus! {
#[verifier::external_type_specification]
#[verifier::external_body]
pub struct ExVerifier(crate::compiler::Verifier);

#[verifier::external_type_specification]
#[verifier::external_body]
pub struct ExProver(crate::compiler::Prover);
}

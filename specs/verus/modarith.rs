//! Modular-arithmetic lemmas (mod R) used by the CANON units.  Pure mathematics, all proved.
use vstd::prelude::*;
use vstd::arithmetic::div_mod::*;
use vstd::arithmetic::mul::*;
use crate::verif_specs::field::*;

verus! {

pub open spec fn md(x: int) -> int { x % R() }

pub proof fn lemma_md_range(x: int)
    ensures 0 <= md(x) < R()
{
    lemma_mod_bound(x, R());
}

pub proof fn lemma_md_small(x: int)
    requires 0 <= x < R()
    ensures md(x) == x
{
    lemma_small_mod(x as nat, R() as nat);
}

pub proof fn lemma_md_md(x: int)
    ensures md(md(x)) == md(x)
{
    lemma_mod_twice(x, R());
}

pub proof fn lemma_md_add(a: int, b: int)
    ensures md(md(a) + b) == md(a + b), md(a + md(b)) == md(a + b), md(md(a) + md(b)) == md(a + b)
{
    lemma_add_mod_noop(a, b, R());
    lemma_md_md(a);
    lemma_md_md(b);
    lemma_add_mod_noop(md(a), b, R());
    lemma_add_mod_noop(a, md(b), R());
}

pub proof fn lemma_md_sub(a: int, b: int)
    ensures md(md(a) - b) == md(a - b), md(a - md(b)) == md(a - b), md(md(a) - md(b)) == md(a - b)
{
    lemma_sub_mod_noop(a, b, R());
    lemma_md_md(a);
    lemma_md_md(b);
    lemma_sub_mod_noop(md(a), b, R());
    lemma_sub_mod_noop(a, md(b), R());
}

pub proof fn lemma_md_mul(a: int, b: int)
    ensures md(md(a) * b) == md(a * b), md(a * md(b)) == md(a * b), md(md(a) * md(b)) == md(a * b)
{
    lemma_mul_mod_noop_general(a, b, R());
}

pub proof fn lemma_md_neg(a: int)
    ensures md(-md(a)) == md(-a), md(md(-a) + a) == 0, md(a + md(-a)) == 0
{
    lemma_md_sub(0, a);
    lemma_md_add(-a, a);
    lemma_md_add(a, -a);
    assert(md(0) == 0) by { lemma_md_small(0); }
}

pub proof fn lemma_md_multiple(k: int)
    ensures md(k * R()) == 0, md(R() * k) == 0
{
    lemma_mod_multiples_basic(k, R());
    lemma_mul_is_commutative(k, R());
}

/// the association used by `append_evaluated_output`
pub proof fn lemma_eo(qm: int, ql: int, qr: int, qf: int, qc: int, pi: int, a: int, b: int, d: int)
    ensures
        md(md(md(md(md(md(md(qm * a) * b) + md(ql * a)) + md(qr * b)) + md(qf * d)) + qc) + pi)
            == md(qm * a * b + ql * a + qr * b + qf * d + qc + pi)
{
    let t1 = qm * a * b;
    let t2 = ql * a;
    let t3 = qr * b;
    let t4 = qf * d;
    lemma_md_mul(qm * a, b);
    assert(md(md(qm * a) * b) == md(t1));
    lemma_md_add(t1, t2);
    lemma_md_add(t1 + t2, t3);
    lemma_md_add(t1 + t2 + t3, t4);
    lemma_md_add(t1 + t2 + t3 + t4, qc);
    lemma_md_add(t1 + t2 + t3 + t4 + qc, pi);
}

/// c = -x  solves  1*c + x = 0
pub proof fn lemma_out_one(x: int)
    ensures md(1 * md(-x) + x) == 0
{
    lemma_md_neg(x);
}

/// c = x  solves  (R-1)*c + x = 0
pub proof fn lemma_out_minus_one(x: int)
    ensures md((R() - 1) * x + x) == 0
{
    assert((R() - 1) * x + x == R() * x) by(nonlinear_arith);
    lemma_md_multiple(x);
}

/// c = x * (-yinv)  solves  q*c + x = 0  when  q*yinv = 1
pub proof fn lemma_out_general(q: int, yinv: int, x: int)
    requires md(q * yinv) == 1
    ensures md(q * md(x * md(-yinv)) + x) == 0
{
    // q * (x * (-yinv)) + x  ==  x * (1 - q*yinv)
    lemma_md_mul(x, -yinv);
    assert(md(x * md(-yinv)) == md(x * (-yinv)));
    lemma_md_mul(q, x * md(-yinv));
    lemma_md_mul(q, x * (-yinv));
    assert(md(q * md(x * md(-yinv))) == md(q * (x * (-yinv))));
    lemma_md_add(q * md(x * md(-yinv)), x);
    lemma_md_add(q * (x * (-yinv)), x);
    assert(md(q * md(x * md(-yinv)) + x) == md(q * (x * (-yinv)) + x));
    assert(q * (x * (-yinv)) + x == x * (1 - q * yinv)) by(nonlinear_arith);
    lemma_md_mul(x, 1 - q * yinv);
    lemma_md_sub(1, q * yinv);
    assert(md(1 - q * yinv) == md(1 - 1));
    assert(md(0) == 0) by { lemma_md_small(0); }
    assert(x * 0 == 0);
}

} // verus!

verus! {
/// with q_O = -1 the output is forced to be x itself
pub proof fn lemma_out_unique_minus_one(c: int, x: int)
    requires 0 <= c < R(), 0 <= x < R(), md((R() - 1) * c + x) == 0
    ensures c == x
{
    assert((R() - 1) * c + x == R() * c + (x - c)) by(nonlinear_arith);
    lemma_md_multiple(c);
    lemma_md_add(R() * c, x - c);
    assert(md(R() * c + (x - c)) == md(md(R() * c) + (x - c)));
    assert(md(x - c) == 0);
    if x - c > 0 {
        lemma_md_small(x - c);
    } else if x - c < 0 {
        lemma_md_small(x - c + R());
        lemma_mod_add_multiples_vanish(x - c, R());
    }
}
}

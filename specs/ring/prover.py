"""Ring/trace units for the prover (C01 agreement with the verifier, C06 masking, C04 version dispatch).

`prove_inner` is run in TRACE-ONLY mode: statements that mention neither the transcript nor the RNG and are outside
the fragment are havocked (their results become opaque symbols); every statement that touches the transcript or the
RNG must be inside the fragment.  What is decided: the Fiat-Shamir schedule of the prover equals the verifier's on the
returned proof, the RNG is drawn exactly 14 times and every draw is used exactly once at its prescribed place, the
quotient shares recombine to t(X) (the three re-randomisers cancel), the two opening lists match the verifier's."""
from vlib.ring import (Unit, Sym, VArr, VTuple, VOpaque, VLabel, VStruct, VOk, VErr, VCoeffVec, UNIT, as_poly as P, sym, vec,
                       OutsideFragment, canon)
from vlib.poly import Poly, S, C
import protocol as pr
import widgets as w
import verifier as vf

UNITS = []
CONTRACTS = dict(vf.CONTRACTS)
CONSTS = dict(w.CONSTS)
PV = "src/compiler/prover.rs"


HELPERS = ["src/transcript.rs", "src/util.rs", "src/proof_system/proof.rs", "src/compiler/verifier.rs", "src/compiler/prover.rs"]


def unit(name, file, fn, params, contract, outputs=None, keys=(), **kw):
    kw.setdefault("consts", CONSTS)
    u = Unit(name, file, fn, params, contract, outputs or w.ret, **kw)
    u.helper_files = HELPERS
    UNITS.append(u)
    for k in keys:
        CONTRACTS[k] = contract
    return u


# ------------------------------------------------------------------ RNG (ASSUMED: one call = one draw)
def rng_draw(it):
    it.ctx.rng = getattr(it.ctx, "rng", [])
    k = len(it.ctx.rng) + 1
    it.ctx.rng.append(f"draw#{k}")
    return S(f"rng#{k}")


CONTRACTS["BlsScalar::random"] = lambda it, recv, a: rng_draw(it)
RNG = lambda: VOpaque("rng")


def out_rng(res, args, ctx):
    return {"rng_draws": len(getattr(ctx, "rng", [])), "result": res}


# ------------------------------------------------------------------ sample_wire_blinders: 8 draws, [a0,a1],[b0,b1],[c0,c1],[d0,d1]
def c_from_fn(it, recv, a):
    shape = it.consts.get("__array_shape")
    depth = getattr(it, "_from_fn_depth", 0)
    if not shape or depth >= len(shape):
        raise OutsideFragment("core::array::from_fn without a statically known length")
    it._from_fn_depth = depth + 1
    try:
        items = [it.call_closure(a[0], [i]) for i in range(shape[depth])]
    finally:
        it._from_fn_depth = depth
    return VArr(items, "array")


CONTRACTS["core::array::from_fn"] = c_from_fn
CONTRACTS["array::from_fn"] = c_from_fn


def c_sample_wire_blinders(it, recv, a):
    return VArr([VArr([rng_draw(it), rng_draw(it)], "array") for _ in range(4)], "array")


unit("prover.sample_wire_blinders", PV, "Prover::sample_wire_blinders", [("rng", RNG)], c_sample_wire_blinders, out_rng,
     keys=["Self::sample_wire_blinders"], consts=dict(CONSTS, __array_shape=[4, 2]))


# ------------------------------------------------------------------ blind_poly_with_blinders: w(X) + (sum b_i X^i)(X^n - 1)
def ifft_vec(domain, x):
    return VCoeffVec(S(canon(VOpaque("ifft", [domain, x]))), 1, 0)


CONTRACTS["domain.ifft"] = lambda it, recv, a: ifft_vec(recv, a[0])
CONTRACTS["Polynomial::from_coefficients_vec"] = lambda it, recv, a: P(a[0])   # same polynomial (trailing zeros trimmed)


def blind_spec(domain, wit, blinders):
    base = S(canon(VOpaque("ifft", [domain, wit])))
    mask = C(0)
    for i, b in enumerate(blinders):
        mask = mask + P(b) * S("X") ** i
    return base + mask * (S("X^n") - 1)


def c_blind_with(it, recv, a):
    wit, blinders, domain = a
    if not isinstance(blinders, VArr):
        raise OutsideFragment("blinders of unknown length")
    return blind_spec(domain, wit, blinders.items)


for nb in (2, 3):
    unit(f"prover.blind_poly_with_blinders[{nb}]", PV, "Prover::blind_poly_with_blinders",
         [("witnesses", sym("witnesses")), ("blinders", (lambda n=nb: VArr([Sym(f"b{i}") for i in range(n)], "slice"))), ("domain", sym("domain"))],
         c_blind_with, keys=["Self::blind_poly_with_blinders"] if nb == 2 else [])


# ------------------------------------------------------------------ blind_poly(rng, w, hiding_degree, domain): hiding_degree+1 fresh draws
def c_blind_poly(it, recv, a):
    _rng, wit, deg, domain = a
    if not isinstance(deg, int):
        raise OutsideFragment("symbolic hiding degree")
    bl = [rng_draw(it) for _ in range(deg + 1)]
    return blind_spec(domain, wit, bl)


unit("prover.blind_poly[2]", PV, "Prover::blind_poly",
     [("rng", RNG), ("witnesses", sym("witnesses")), ("hiding_degree", lambda: 2), ("domain", sym("domain"))], c_blind_poly, out_rng,
     keys=["Self::blind_poly"])


# ------------------------------------------------------------------ version dispatch
def c_prover_transcript_for_version(it, recv, a):
    return vf.c_transcript_for_version(it, recv, a)


for ver in ("V1", "V2", "V3"):
    unit(f"prover.transcript_for_version[{ver}]", PV, "Prover::transcript_for_version",
         [("self", sym("self")), ("version", (lambda v=ver: VOpaque("PlonkVersion::" + v)))], c_prover_transcript_for_version, vf.out_log_ret)


def c_prove_with_version(it, recv, a):
    rng, circuit, version = a
    if version.name == "PlonkVersion::V1":
        return VErr("Error::UnsupportedProvingVersion")
    if version.name == "PlonkVersion::V2":
        return VOpaque("prove_legacy", [recv, rng, circuit, version])
    return VOpaque("prove_inner", [recv, rng, circuit, version])


CONTRACTS["self.prove_legacy"] = lambda it, recv, a: VOpaque("prove_legacy", [recv] + list(a))
CONTRACTS["self.prove_inner"] = lambda it, recv, a: VOpaque("prove_inner", [recv] + list(a))
for ver in ("V1", "V2", "V3"):
    unit(f"prover.prove_with_version[{ver}]", PV, "Prover::prove_with_version",
         [("self", sym("self")), ("rng", RNG), ("circuit", sym("circuit")), ("version", (lambda v=ver: VOpaque("PlonkVersion::" + v)))],
         c_prove_with_version)

# ------------------------------------------------------------------ prove_inner (trace only)
CONTRACTS["Composer::prove"] = lambda it, recv, a: ("fallible", "Composer::prove(self.constraints, circuit)", VOpaque("instance", list(a)))
CONTRACTS[".public_inputs"] = lambda it, recv, a: VOpaque("public_inputs", [recv])
CONTRACTS[".public_input_indexes"] = lambda it, recv, a: VOpaque("public_input_indexes", [recv])
CONTRACTS["Composer::dense_public_inputs"] = lambda it, recv, a: VOpaque("dense_public_inputs", list(a))
CONTRACTS["domain.size"] = lambda it, recv, a: Sym("n")
CONTRACTS[".evaluate"] = lambda it, recv, a: VOpaque("eval", [recv, a[0]])
def c_quotient_call(it, recv, a):
    # the quotient is opaque, but WHAT it is computed from is part of the prover's contract (data flow into round 3)
    it.ctx.quotient_args = [x for x in a]
    return ("fallible", "quotient_poly::compute => Err(CircuitUnsatisfied)", VOpaque("t", []))


CONTRACTS["quotient_poly::compute"] = c_quotient_call
CONTRACTS["linearization_poly::compute"] = lambda it, recv, a: VOpaque("r_poly", list(a))
CONTRACTS["CommitKey::compute_aggregate_witness"] = lambda it, recv, a: VOpaque("aggregate_witness", list(a))
CONTRACTS[".compute_permutation_vec"] = lambda it, recv, a: VOpaque("permutation_vec", [recv] + list(a))


def commit(p):
    return VOpaque("commit", [p])


def c_commit(it, recv, a):
    return ("fallible", "commit => Err(PolynomialDegreeTooLarge)", commit(a[0]))


CONTRACTS["commit_key.commit"] = c_commit


def c_commit_polynomials(it, recv, a):
    return ("fallible", "commit => Err(PolynomialDegreeTooLarge)", VArr([commit(x) for x in a[0].items], "array"))


CONTRACTS["self.commit_polynomials"] = c_commit_polynomials


def c_blind_wire_polynomials(it, recv, a):
    wits, blinders, domain = a
    return VArr([blind_spec(domain, wits.items[i], blinders.items[i].items) for i in range(4)], "array")


CONTRACTS["Self::blind_wire_polynomials"] = c_blind_wire_polynomials


def t_slice(lo, hi):
    return VOpaque("slice", [VOpaque("t", []), lo, hi])


def c_to_vec(it, recv, a):
    # `t_poly[a..b].to_vec()`: a coefficient vector; its length is known when both bounds are multiples of n
    if isinstance(recv, VOpaque) and recv.name == "slice":
        lo, hi = recv.args[1], recv.args[2]
        known = hi != "end"
        v = VCoeffVec(S(canon(recv)), 1, 0, known_len=known)
        if not known:
            v.origin = (recv.args[0], lo)      # tail slice base[lo..]: its length is len(base) - lo, known only through len(base)
        return v
    return recv


CONTRACTS[".to_vec"] = c_to_vec


def out_prove(res, args, ctx):
    return {"transcript_log": list(ctx.log), "rng_draws": len(getattr(ctx, "rng", [])), "exits": list(ctx.exits), "result": res,
            "quotient_inputs": list(getattr(ctx, "quotient_args", ["<quotient_poly::compute not called>"])),
            # every slice / index operation on the quotient's coefficient vector must be justified by what the path knows about its
            # length: `quotient_poly::compute` only bounds it from ABOVE (<= 7n; `Polynomial` drops trailing zeros), so the code has to
            # establish `len >= 3n + 1` itself before cutting the four shares (C05 "never panics"; the contract side leaves none unmet)
            "unmet_length_preconditions": [] if getattr(ctx, "is_contract", False) else list(getattr(ctx, "len_unmet", []))}


def c_prove_inner(it, recv, a):
    rng, circuit, version = a
    slf = recv
    it.ctx.exits.append(("try", "Composer::prove(self.constraints, circuit)"))
    inst = VOpaque("instance", [Sym(slf.path + ".constraints"), circuit])
    domain = Sym(slf.path + ".domain")
    vf.c_transcript_for_version(it, slf, [version])
    pis = VOpaque("public_inputs", [inst])
    it.ctx.event("for_each_in_order", canon(pis), (("append_message", canon(VLabel("pi")), canon(vf.to_bytes(Sym(canon(pis) + "[*]")))),))
    # ---- round 1: the four wire polynomials, each masked with (b_{2i} + b_{2i+1} X)(X^n - 1), blinders drawn in this order
    wb = [[rng_draw(it), rng_draw(it)] for _ in range(4)]
    wires = [VOpaque(f"havoc:{n}") for n in ("a_scalars", "b_scalars", "c_scalars", "d_scalars")]
    polys = [blind_spec(domain, wires[i], wb[i]) for i in range(4)]
    it.ctx.exits.append(("try", "commit => Err(PolynomialDegreeTooLarge)"))
    comms = [commit(p) for p in polys]
    ch = {}
    cm = lambda label, v: vf.c_append_commitment(it, None, [VLabel(label), v])
    sq = lambda n: P(vf.c_challenge_scalar(it, None, [VLabel(n)]))
    for n, c in zip(["a_comm", "b_comm", "c_comm", "d_comm"], comms):
        cm(n, c)
    ch["beta"] = sq("beta")
    vf.c_append_scalar(it, None, [VLabel("beta"), ch["beta"]])
    ch["gamma"] = sq("gamma")
    # ---- round 2: permutation polynomial masked with a random degree-2 multiple of Z_H (3 fresh draws)
    sigma = VArr([Sym(f"{slf.path}.sigma_evaluations[{i}]") for i in range(4)], "array")
    perm = VOpaque("permutation_vec", [Sym(canon(inst) + ".perm"), domain, VArr(wires, "array"), ch["beta"], ch["gamma"], sigma])
    zb = [rng_draw(it) for _ in range(3)]
    z_poly = blind_spec(domain, perm, zb)
    it.ctx.exits.append(("try", "commit => Err(PolynomialDegreeTooLarge)"))
    z_comm = commit(z_poly)
    cm("z_comm", z_comm)
    ch["alpha"] = sq("alpha")
    for k, n in [("range", "range separation challenge"), ("logic", "logic separation challenge"),
                 ("fixed", "fixed base separation challenge"), ("var", "variable base separation challenge")]:
        ch[k] = sq(n)
    # ---- round 3: quotient, split in four shares, re-randomised with 3 fresh draws that cancel in the recombination
    it.ctx.exits.append(("try", "quotient_poly::compute => Err(CircuitUnsatisfied)"))
    # the quotient is computed from: the 8n domain, the compiled prover key, the masked z and wire polynomials, the public-input
    # polynomial interpolating EVERY public input of the instance at its row, the cached vanishing inverses, and the seven challenges
    dense = VOpaque("dense_public_inputs", [VOpaque("public_input_indexes", [inst]), pis, Sym(slf.path + ".size")])
    it.ctx.quotient_args = [Sym(slf.path + ".quotient_domain"), Sym(slf.path + ".prover_key"), z_poly, VTuple(list(polys)),
                            P(ifft_vec(domain, dense)), Sym(slf.path + ".vanishing_coset_inverses"),
                            VTuple([ch["alpha"], ch["beta"], ch["gamma"], ch["range"], ch["logic"], ch["fixed"], ch["var"]])]
    n_ = P(Sym("n"))
    T = [P(t_slice(0, n_)), P(t_slice(n_, 2 * n_)), P(t_slice(2 * n_, 3 * n_)), P(t_slice(3 * n_, "end"))]
    b12, b13, b14 = rng_draw(it), rng_draw(it), rng_draw(it)
    Xn = S("X^n")
    shares = [T[0] + b12 * Xn, T[1] - b12 + b13 * Xn, T[2] - b13 + b14 * Xn, T[3] - b14]
    # the three re-randomisers cancel: sum_k X^{kn} share_k == sum_k X^{kn} T_k  (checked here on the specification itself)
    resid = sum((shares[k] * Xn ** k for k in range(4)), C(0)) - sum((T[k] * Xn ** k for k in range(4)), C(0))
    assert resid.is_zero(), "specification error: quotient shares do not recombine"
    it.ctx.exits.append(("try", "commit => Err(PolynomialDegreeTooLarge)"))
    tcomms = [commit(s) for s in shares]
    for nme, c in zip(["t_low_comm", "t_mid_comm", "t_high_comm", "t_fourth_comm"], tcomms):
        cm(nme, c)
    ch["z"] = sq("z_challenge")
    z, omega = ch["z"], S(domain.path + ".group_gen")
    ev = lambda p, x: VOpaque("eval", [p, x])
    pk = lambda path: Sym(f"{slf.path}.prover_key.{path}.0")
    e = {
        "a_eval": ev(polys[0], z), "b_eval": ev(polys[1], z), "c_eval": ev(polys[2], z), "d_eval": ev(polys[3], z),
        "s_sigma_1_eval": ev(pk("permutation.s_sigma_1"), z), "s_sigma_2_eval": ev(pk("permutation.s_sigma_2"), z),
        "s_sigma_3_eval": ev(pk("permutation.s_sigma_3"), z), "z_eval": ev(z_poly, z * omega),
        "a_w_eval": ev(polys[0], z * omega), "b_w_eval": ev(polys[1], z * omega), "d_w_eval": ev(polys[3], z * omega),
        "q_arith_eval": ev(pk("arithmetic.q_arith"), z), "q_c_eval": ev(pk("arithmetic.q_c"), z),
        "q_l_eval": ev(pk("arithmetic.q_l"), z), "q_r_eval": ev(pk("arithmetic.q_r"), z),
    }
    for nme in vf.EVAL_ABSORB_ORDER:
        vf.c_append_scalar(it, None, [VLabel(nme), e[nme]])
    evaluations = VStruct("ProofEvaluations", dict(e))
    ch["v"] = sq("v_challenge")
    lin_ch = VStruct("LinearizationChallenges", {"alpha": ch["alpha"], "beta": ch["beta"], "gamma": ch["gamma"],
                                                 "range_separation": ch["range"], "logic_separation": ch["logic"],
                                                 "fixed_base_separation": ch["fixed"], "variable_base_separation": ch["var"], "z": z})
    share_polys = shares
    r_poly = VOpaque("r_poly", [Sym(slf.path + ".prover_key"), lin_ch, z_poly, evaluations, domain] + share_polys + [pis])
    # ---- round 5: the two batched openings; lists in the verifier's order (r first, then the polynomials bound by v^1..v^11)
    at_z = [r_poly] + polys + [pk("permutation.s_sigma_1"), pk("permutation.s_sigma_2"), pk("permutation.s_sigma_3"),
                               pk("arithmetic.q_arith"), pk("arithmetic.q_c"), pk("arithmetic.q_l"), pk("arithmetic.q_r")]
    it.ctx.exits.append(("try", "commit => Err(PolynomialDegreeTooLarge)"))
    w_z = commit(VOpaque("aggregate_witness", [VArr(at_z, "array"), z, ch["v"]]))
    ch["v_w"] = sq("v_w_challenge")
    at_zw = [z_poly, polys[0], polys[1], polys[3]]
    it.ctx.exits.append(("try", "commit => Err(PolynomialDegreeTooLarge)"))
    w_zw = commit(VOpaque("aggregate_witness", [VArr(at_zw, "array"), z * omega, ch["v_w"]]))
    proof = VStruct("Proof", {"a_comm": comms[0], "b_comm": comms[1], "c_comm": comms[2], "d_comm": comms[3], "z_comm": z_comm,
                              "t_low_comm": tcomms[0], "t_mid_comm": tcomms[1], "t_high_comm": tcomms[2], "t_fourth_comm": tcomms[3],
                              "w_z_chall_comm": w_z, "w_z_chall_w_comm": w_zw, "evaluations": evaluations})
    return VOk(VTuple([proof, pis]))


DEGENERATE_RNG_SCENARIO = r"""
#[test]
fn __NAME__() {
    // candidate failing input for an unmet length precondition in `prove_inner`: caller-scripted RNG streams in which some of the
    // 14 blinding draws are zero (all of them / the three quotient blinders / the permutation blinders), on the smallest circuits
    use crate::prelude::*;
    use rand::{CryptoRng, RngCore, SeedableRng};
    use rand::rngs::StdRng;
    struct Scripted { inner: StdRng, k: usize, zero_mask: u32 }
    impl RngCore for Scripted {
        fn next_u32(&mut self) -> u32 { self.inner.next_u32() }
        fn next_u64(&mut self) -> u64 { self.inner.next_u64() }
        fn fill_bytes(&mut self, dest: &mut [u8]) {
            let z = (self.zero_mask >> self.k.min(31)) & 1 == 1; self.k += 1;
            if z { for b in dest.iter_mut() { *b = 0; } } else { self.inner.fill_bytes(dest) }
        }
        fn try_fill_bytes(&mut self, dest: &mut [u8]) -> Result<(), rand::Error> { self.fill_bytes(dest); Ok(()) }
    }
    impl CryptoRng for Scripted {}
    #[derive(Default)] struct Empty;
    impl Circuit for Empty { fn circuit(&self, _c: &mut Composer) -> Result<(), Error> { Ok(()) } }
    #[derive(Default)] struct Small { a: BlsScalar }
    impl Circuit for Small {
        fn circuit(&self, c: &mut Composer) -> Result<(), Error> { let a = c.append_witness(self.a); c.component_range_bits::<8>(a); Ok(()) }
    }
    let mut rng = StdRng::seed_from_u64(1);
    let pp = PublicParameters::setup(1 << 6, &mut rng).unwrap();
    let (p1, v1) = Compiler::compile::<Empty>(&pp, b"replay").unwrap();
    let (p2, v2) = Compiler::compile::<Small>(&pp, b"replay").unwrap();
    let mut bad: Vec<String> = Vec::new();
    for mask in [0x3fffu32, 0x7ff, 0x3800, 0x700, 0x600, 0xff] {
        let mut r = Scripted { inner: StdRng::seed_from_u64(7), k: 0, zero_mask: mask };
        match std::panic::catch_unwind(std::panic::AssertUnwindSafe(|| p1.prove(&mut r, &Empty))) {
            Err(_) => bad.push(format!("empty circuit, zero draws {mask:#x}: prove PANICKED")),
            Ok(Ok((proof, pi))) => if v1.verify(&proof, &pi).is_err() { bad.push(format!("empty circuit, zero draws {mask:#x}: proof of a satisfied circuit REJECTED")) },
            Ok(Err(e)) => bad.push(format!("empty circuit, zero draws {mask:#x}: prove returned {e:?} on a satisfied circuit")),
        }
        let mut r = Scripted { inner: StdRng::seed_from_u64(7), k: 0, zero_mask: mask };
        let c = Small { a: BlsScalar::from(5u64) };
        match std::panic::catch_unwind(std::panic::AssertUnwindSafe(|| p2.prove(&mut r, &c))) {
            Err(_) => bad.push(format!("8-bit range circuit, zero draws {mask:#x}: prove PANICKED")),
            Ok(Ok((proof, pi))) => if v2.verify(&proof, &pi).is_err() { bad.push(format!("8-bit range circuit, zero draws {mask:#x}: proof of a satisfied circuit REJECTED")) },
            Ok(Err(e)) => bad.push(format!("8-bit range circuit, zero draws {mask:#x}: prove returned {e:?} on a satisfied circuit")),
        }
    }
    assert!(bad.is_empty(), "REPLAY-VIOLATION-REPRODUCED: {:?}", bad);
}
"""

for ver in ("V2", "V3"):
    _u = unit(f"prover.prove_inner[{ver}]", PV, "Prover::prove_inner",
         [("self", sym("self")), ("rng", RNG), ("circuit", sym("circuit")), ("version", (lambda v=ver: VOpaque("PlonkVersion::" + v)))],
         c_prove_inner, out_prove, trace_only=True, tracked=("transcript", "rng"), consts=dict(CONSTS, __track_len=True))
    _u.scenarios = {"unmet_length_preconditions": {"what": "Prover::prove on the empty circuit / an 8-bit range circuit with a caller-scripted RNG whose blinding draws are zero (masks 0x3fff, 0x7ff, 0x3800, 0x700, 0x600, 0xff over the 14 draws)", "src": DEGENERATE_RNG_SCENARIO}}


# ------------------------------------------------------------------ lemma: prover and verifier share one Fiat-Shamir schedule
def lemma_prover_verifier_agree():
    """Contract-level lemma (over the two contracts, not over code): the transcript the prover builds for the proof it
    returns is, event by event, the transcript the verifier rebuilds from that proof (up to and including the squeeze of
    v_w; the verifier alone then absorbs the two opening commitments and squeezes u)."""
    from vlib.ring import Interp, Ctx
    obs = []
    for ver in ("PlonkVersion::V2", "PlonkVersion::V3"):
        itp = Interp(Ctx(), CONTRACTS, CONSTS, "lemma")
        rp = c_prove_inner(itp, Sym("self"), [VOpaque("rng"), Sym("circuit"), VOpaque(ver)])
        proof, pis = rp.v.items
        itv = Interp(Ctx(), CONTRACTS, CONSTS, "lemma")
        vf.c_verify_with_version(itv, Sym("self"), [Sym("proof"), Sym("public_inputs"), VOpaque(ver)])
        lp, lv = itp.ctx.log, itv.ctx.log
        ok, detail = True, None
        # the verifier log has exactly 3 more events at the end: append w_z, append w_zw, squeeze u
        if len(lv) != len(lp) + 3:
            ok, detail = False, f"prover log has {len(lp)} events, verifier log {len(lv)} (expected +3)"
        else:
            for i, (ep, ev_) in enumerate(zip(lp, lv)):
                if ep[0] == "for_each_in_order" and ev_[0] == "for_each_in_order":
                    # the verifier is handed the vector the prover returned
                    subp = [x[:2] for x in ep[2]]
                    subv = [x[:2] for x in ev_[2]]
                    if ep[1] != canon(pis) or ev_[1] != "public_inputs" or subp != subv:
                        ok, detail = False, f"event {i}: public-input absorption differs: {ep} vs {ev_}"
                        break
                    continue
                if ep[0] != ev_[0] or (len(ep) > 1 and ep[1] != ev_[1]):
                    ok, detail = False, f"event {i}: prover {ep[:2]} vs verifier {ev_[:2]}"
                    break
                if ep[0] == "append_message" and isinstance(ev_[2], str) and ev_[2].startswith("to_bytes(proof."):
                    path = ev_[2][len("to_bytes(proof."):-1]
                    fld = path.split(".")
                    val = proof.fields[fld[0]]
                    if fld[0] == "evaluations":
                        val = val.fields[fld[1]]
                    want = canon(vf.to_bytes(val))
                    if ep[2] != want:
                        ok, detail = False, f"event {i} ({ep[1]}): prover absorbs {ep[2][:120]}, proof field {path} is {want[:120]}"
                        break
        obs.append({"id": f"lemma.prover_verifier_transcripts_agree[{ver[-2:]}]", "unit": "lemma.prover_verifier_agree", "kind": "lemma",
                    "text": "transcript(prove_inner contract) == transcript(verify contract on the returned proof), prefix up to v_w",
                    "status": "discharged" if ok else "failed", "detail": detail, "backend": "ringcheck"})
    return obs


LEMMAS = [lemma_prover_verifier_agree]


# ------------------------------------------------------------------ quotient_poly::compute: the unsatisfied-circuit decision
QP = "src/proof_system/quotient_poly.rs"
CONTRACTS["quotient_domain.size"] = lambda it, recv, a: Sym("size8")


def c_quotient_compute(it, recv, a):
    """t(X) = numerator / Z_H is a polynomial of degree < 7n only if the numerator vanishes on H; the function must
    return Err(CircuitUnsatisfied) exactly when the interpolated quotient has more than 7 * (|8n domain| / 8) coefficients,
    and Ok(that polynomial) otherwise."""
    q = as_poly_sym("havoc:coset")
    cond = VOpaque("gt", [VOpaque("len", [q]), C(7) * P(VOpaque("div", [Sym("size8"), 8]))])
    it.ctx.exits.append(("err_if", cond, "Error::CircuitUnsatisfied"))
    return VOk(q)


def as_poly_sym(name):
    return S(name)


unit("quotient.compute.decision", QP, "compute",
     [("quotient_domain", sym("quotient_domain")), ("prover_key", sym("prover_key")), ("z_poly", sym("z_poly")),
      ("wires", w.T4(["a_poly", "b_poly", "c_poly", "d_poly"])), ("public_inputs_poly", sym("public_inputs_poly")),
      ("vanishing_coset_inverses", sym("vanishing_coset_inverses")),
      ("args", w.T4(["alpha", "beta", "gamma", "range_challenge", "logic_challenge", "fixed_base_challenge", "var_base_challenge"]))],
     c_quotient_compute, vf.out_verify, trace_only=True, tracked=("quotient_poly",))


# ------------------------------------------------------------------ blind_wire_polynomials: wire i is masked with blinders[i] (and only with it)
def c_join(it, recv, a):
    return VTuple([it.call_closure(a[0], []), it.call_closure(a[1], [])])


CONTRACTS["rayon::join"] = c_join
# ASSUMED (rayon): Some(index) on a pool worker, None elsewhere - an input of the environment: both answers are explored (path split)
CONTRACTS["rayon::current_thread_index"] = lambda it, recv, a: VOpaque("rayon_current_thread_index")

unit("prover.blind_wire_polynomials", PV, "Prover::blind_wire_polynomials",
     [("witnesses", lambda: VArr([Sym(f"w{i}") for i in range(4)], "array")),
      ("blinders", lambda: VArr([VArr([Sym(f"m{i}_0"), Sym(f"m{i}_1")], "array") for i in range(4)], "array")),
      ("domain", sym("domain"))],
     c_blind_wire_polynomials)

"""Ring/trace units for the fixed-size (dusk-bytes `Serializable`) encoders/decoders (C16): the encoder writes the fields in
the documented order, the decoder reads the same number of items of the same types in the same order and puts the k-th
item into the field the encoder took the k-th item from.  The FORMAT (field order) below is the contract."""
from vlib.ring import (Unit, Sym, VArr, VTuple, VOpaque, VStruct, VOk, UNIT, as_poly as P, sym, OutsideFragment, canon)
import widgets as w

UNITS = []
CONTRACTS = {}
LEMMAS = []


def unit(name, file, fn, params, contract, outputs, **kw):
    u = Unit(name, file, fn, params, contract, outputs, **kw)
    UNITS.append(u)
    return u


def out_w(res, args, ctx):
    return {"writes": list(ctx.log), "result": res}


def out_r(res, args, ctx):
    return {"reads": list(ctx.log), "exits": list(ctx.exits), "result": res}


# dependency function with a KNOWN non-canonical semantics (reduces its four limbs mod r, accepts every input): a decoder built on it
# cannot be the canonical field decoder the format contract demands
CONTRACTS["BlsScalar::from_raw"] = lambda it, recv, a: VOpaque("BlsScalar::from_raw", list(a))
CONTRACTS[".write"] = lambda it, recv, a: (it.ctx.event("write", a[0]), UNIT)[1]
CONTRACTS[".to_bytes"] = lambda it, recv, a: VOpaque("to_bytes", [recv])


def fixed_format(type_name, file, impl, fields, bufname="buf", wrap=None):
    """fields: list of (field path relative to self, item type).  wrap: how the decoder builds the value from the reads."""
    def c_to_bytes(it, recv, a):
        for f, _t in fields:
            v = Sym(recv.path + "." + f) if not callable(f) else f(recv)
            it.ctx.event("write", VOpaque("to_bytes", [v]))
        return VOpaque("havoc:" + bufname)

    def c_from_bytes(it, recv, a):
        reads = []
        for k, (f, t) in enumerate(fields):
            it.ctx.event("read", k, t)
            it.ctx.exits.append(("try", f"read {k} ({t}) fails => Err"))
            reads.append(VOpaque("read", [k, t]))
        return VOk(wrap(reads) if wrap else VStruct(type_name.split("::")[-1], {f: r for (f, _t), r in zip(fields, reads)}))

    SZ = {"ProofEvaluations::SIZE": 480, "BlsScalar::SIZE": 32, "Commitment::SIZE": 48, "G1Affine::SIZE": 48}
    unit(f"serial.{type_name}.to_bytes", file, impl + "::to_bytes", [("self", sym("self"))], c_to_bytes, out_w,
         trace_only=True, tracked=("writer",), consts=SZ)
    u_ = unit(f"serial.{type_name}.from_bytes", file, impl + "::from_bytes", [("buf", sym("buf"))], c_from_bytes, out_r, consts=SZ)
    u_.helper_files = ["src/proof_system/linearization_poly.rs", "src/proof_system/proof.rs", "src/proof_system/widget.rs"]


COMMS = ["a_comm", "b_comm", "c_comm", "d_comm", "z_comm", "t_low_comm", "t_mid_comm", "t_high_comm", "t_fourth_comm",
         "w_z_chall_comm", "w_z_chall_w_comm"]
fixed_format("Proof", "src/proof_system/proof.rs", "<Proof as Serializable<{11*Commitment::SIZE+ProofEvaluations::SIZE}>>",
             [(c, "Commitment") for c in COMMS] + [("evaluations", "ProofEvaluations")])

EVALS = ["a_eval", "b_eval", "c_eval", "d_eval", "a_w_eval", "b_w_eval", "d_w_eval", "q_arith_eval", "q_c_eval", "q_l_eval",
         "q_r_eval", "s_sigma_1_eval", "s_sigma_2_eval", "s_sigma_3_eval", "z_eval"]
fixed_format("ProofEvaluations", "src/proof_system/linearization_poly.rs", "<ProofEvaluations as Serializable<{15*BlsScalar::SIZE}>>",
             [(e, "BlsScalar") for e in EVALS])

fixed_format("arithmetic::VerifierKey", "src/proof_system/widget/arithmetic/verifierkey.rs", "<VerifierKey as Serializable<{7*Commitment::SIZE}>>",
             [(c, "Commitment") for c in ["q_m", "q_l", "q_r", "q_o", "q_f", "q_c", "q_arith"]], bufname="buff")

VK_ORDER = ["arithmetic.q_m", "arithmetic.q_l", "arithmetic.q_r", "arithmetic.q_o", "arithmetic.q_f", "arithmetic.q_c", "arithmetic.q_arith",
            "logic.q_logic", "range.q_range", "fixed_base.q_fixed_group_add", "variable_base.q_variable_group_add",
            "permutation.s_sigma_1", "permutation.s_sigma_2", "permutation.s_sigma_3", "permutation.s_sigma_4"]
CONTRACTS["Self::from_polynomial_commitments"] = lambda it, recv, a: VOpaque("from_polynomial_commitments", list(a))
fixed_format("VerifierKey", "src/proof_system/widget.rs", "<VerifierKey as Serializable<{20*Commitment::SIZE+u64::SIZE}>>",
             [((lambda r: Sym(r.path + ".n")), "u64")] + [(c, "Commitment") for c in VK_ORDER], bufname="buff",
             wrap=lambda reads: VOpaque("from_polynomial_commitments", reads))


# `VerifierKey::from_bytes` rebuilds the key with from_polynomial_commitments(n, reads 1..15 in order); the encoder wrote n first
# and then the 15 commitments in the order q_m,q_l,q_r,q_o,q_f,q_c,q_arith,q_logic,q_range,q_fixed,q_var,sigma1..4 -- the argument
# order of that constructor (checked below by running the constructor's own field assignment symbolically).
def c_from_polynomial_commitments(it, recv, a):
    n, q_m, q_l, q_r, q_o, q_f, q_c, q_arith, q_logic, q_range, q_fixed, q_var, s1, s2, s3, s4 = a
    return VStruct("VerifierKey", {
        "n": n,
        "arithmetic": VStruct("VerifierKey", {"q_m": q_m, "q_l": q_l, "q_r": q_r, "q_o": q_o, "q_f": q_f, "q_c": q_c, "q_arith": q_arith}),
        "logic": VStruct("VerifierKey", {"q_c": q_c, "q_logic": q_logic}),
        "range": VStruct("VerifierKey", {"q_range": q_range}),
        "fixed_base": VStruct("VerifierKey", {"q_l": q_l, "q_r": q_r, "q_fixed_group_add": q_fixed}),
        "variable_base": VStruct("VerifierKey", {"q_variable_group_add": q_var}),
        "permutation": VStruct("VerifierKey", {"s_sigma_1": s1, "s_sigma_2": s2, "s_sigma_3": s3, "s_sigma_4": s4}),
    })


unit("serial.VerifierKey.from_polynomial_commitments", "src/proof_system/widget.rs", "VerifierKey::from_polynomial_commitments",
     [(n, sym(n)) for n in ["n", "q_m", "q_l", "q_r", "q_o", "q_f", "q_c", "q_arith", "q_logic", "q_range", "q_fixed_group_add",
                            "q_variable_group_add", "s_sigma_1", "s_sigma_2", "s_sigma_3", "s_sigma_4"]],
     c_from_polynomial_commitments, lambda res, args, ctx: {"result": res})


def lemma_round_trip_positions():
    """Contract-level lemma: for every fixed-size format, the k-th item the encoder writes is `to_bytes(self.<field_k>)` and the
    decoder stores its k-th read in <field_k> (same k, same type): decode(encode(x)).<field> is read from the bytes of x.<field>."""
    obs = []
    from vlib.ring import Interp, Ctx
    byname = {u.name: u for u in UNITS}
    for t in ["Proof", "ProofEvaluations", "arithmetic::VerifierKey"]:
        enc, dec = byname[f"serial.{t}.to_bytes"], byname[f"serial.{t}.from_bytes"]
        ie = Interp(Ctx(), CONTRACTS, {}, "lemma"); enc.contract(ie, Sym("self"), [])
        idc = Interp(Ctx(), CONTRACTS, {}, "lemma"); r = dec.contract(idc, None, [Sym("buf")])
        ok, detail = True, None
        writes = [canon(e[1]) for e in ie.ctx.log]
        fields = r.v.fields
        if len(writes) != len(fields):
            ok, detail = False, "field count differs"
        for name, v in fields.items():
            k = v.args[0]
            if writes[k] != f"to_bytes(self.{name})":
                ok, detail = False, f"decoder puts read {k} into `{name}` but the encoder's item {k} is {writes[k]}"
        obs.append({"id": f"lemma.round_trip_positions[{t}]", "unit": "lemma.round_trip_positions", "kind": "lemma",
                    "text": "k-th written item and k-th read item belong to the same field", "status": "discharged" if ok else "failed",
                    "detail": detail, "backend": "ringcheck"})
    return obs


LEMMAS.append(lemma_round_trip_positions)


# ------------------------------------------------------------------ variable-size formats: Verifier / Prover  (48-byte header + sections)
def be64(x):
    return VOpaque("section", [VOpaque("to_be_bytes", [x])])


def sec(x):
    return VOpaque("section", [x])


def ln(x):
    return VOpaque("len", [x])


CONTRACTS["u64::to_be_bytes"] = lambda it, recv, a: VOpaque("to_be_bytes", [a[0]])


def c_verifier_prepare(it, recv, a):
    vk = VOpaque("to_bytes", [Sym(recv.path + ".verifier_key")])
    ok = VOpaque("to_bytes", [Sym(recv.path + ".opening_key")])
    size = P(48) if False else None
    return VTuple([VOpaque("serialized_size", [recv]), vk, ok])


CONTRACTS["self.prepare_serialize"] = c_verifier_prepare


def c_verifier_to_bytes(it, recv, a):
    """label_len, verifier_key_len, opening_key_len, public_input_count, size, constraints (six big-endian u64) | label |
    verifier key | opening key | every public-input index as big-endian u64, in order"""
    s = recv.path
    vk = VOpaque("to_bytes", [Sym(s + ".verifier_key")])
    ok = VOpaque("to_bytes", [Sym(s + ".opening_key")])
    idx = Sym(s + ".public_input_indexes")
    items = [be64(ln(Sym(s + ".label"))), be64(ln(vk)), be64(ln(ok)), be64(ln(idx)), be64(Sym(s + ".size")), be64(Sym(s + ".constraints")),
             sec(Sym(s + ".label")), sec(vk), sec(ok),
             # for every index, in order: its big-endian u64 bytes (normal form of `iter().map(..).for_each(extend)` and of the loop)
             VOpaque("for_each_extended", [idx, VOpaque("to_be_bytes", [Sym(idx.path + "[*]")])])]
    return VArr(items, "bytes")


unit("serial.Verifier.to_bytes", "src/compiler/verifier.rs", "Verifier::to_bytes", [("self", sym("self"))], c_verifier_to_bytes,
     lambda res, args, ctx: {"sections": res})


def c_prover_prepare(it, recv, a):
    s = recv.path
    return VTuple([VOpaque("serialized_size", [recv]), VOpaque("to_var_bytes", [Sym(s + ".prover_key")]),
                   VOpaque("to_raw_var_bytes", [Sym(s + ".commit_key")]), VOpaque("to_bytes", [Sym(s + ".verifier_key")])])


def c_prover_to_bytes(it, recv, a):
    """label_len, prover_key_len, commit_key_len, verifier_key_len, size, constraints (six big-endian u64) | label | prover key
    (var bytes) | commit key (raw var bytes) | verifier key"""
    s = recv.path
    pk = VOpaque("to_var_bytes", [Sym(s + ".prover_key")])
    ck = VOpaque("to_raw_var_bytes", [Sym(s + ".commit_key")])
    vk = VOpaque("to_bytes", [Sym(s + ".verifier_key")])
    items = [be64(ln(Sym(s + ".label"))), be64(ln(pk)), be64(ln(ck)), be64(ln(vk)), be64(Sym(s + ".size")), be64(Sym(s + ".constraints")),
             sec(Sym(s + ".label")), sec(pk), sec(ck), sec(vk)]
    return VArr(items, "bytes")


u = unit("serial.Prover.to_bytes", "src/compiler/prover.rs", "Prover::to_bytes", [("self", sym("self"))], c_prover_to_bytes,
         lambda res, args, ctx: {"sections": res})
u.extra_contracts = {"self.prepare_serialize": c_prover_prepare}


# ------------------------------------------------------------------ readers: Verifier::try_from_bytes / Prover::try_from_bytes
from vlib.poly import Poly, S, C
from vlib.ring import VErr

RD = {
    ".as_ref": lambda it, recv, a: recv,
    "try_from": lambda it, recv, a: a[0],
    ".expect": lambda it, recv, a: recv,
    "u64::from_be_bytes": lambda it, recv, a: VOpaque("be_u64", [a[0]]),
    "VerifierKey::from_slice": lambda it, recv, a: ("fallible", "VerifierKey::from_slice fails => Err", VOpaque("VerifierKey::from_slice", [a[0]])),
    "OpeningKey::from_slice": lambda it, recv, a: ("fallible", "OpeningKey::from_slice fails => Err", VOpaque("OpeningKey::from_slice", [a[0]])),
    "ProverKey::from_slice": lambda it, recv, a: ("fallible", "ProverKey::from_slice fails => Err", VOpaque("ProverKey::from_slice", [a[0]])),
    "CommitKey::from_raw_var_bytes": lambda it, recv, a: ("fallible", "CommitKey::from_raw_var_bytes fails => Err", VOpaque("CommitKey::from_raw_var_bytes", [a[0]])),
    "Self::new": lambda it, recv, a: VOpaque("Self::new", list(a)),
    ".to_vec": lambda it, recv, a: VOpaque("to_vec", [recv]),
    ".into": lambda it, recv, a: recv,
    ".checked_next_power_of_two": lambda it, recv, a: VOpaque("checked_next_power_of_two", [recv]),
    "Some": lambda it, recv, a: VOpaque("Some", [a[0]]),
}


def hdr(b, k):
    return VOpaque("be_u64", [VOpaque("slice", [b, C(8 * k), C(8 * k + 8)])])


def body(b, lo, hi):
    return VOpaque("slice", [b, C(48) + lo, C(48) + hi])


def c_verifier_try_from_bytes(it, recv, a):
    """48-byte header (six big-endian u64: label_len, verifier_key_len, opening_key_len, public_input_count, size, constraints), then
    the four sections back to back; NotEnoughBytes unless the input holds the header and all announced sections; the parts go to
    Verifier::new in the order (label, verifier key, opening key, indexes, size, constraints)."""
    b = a[0]
    X = it.ctx.exits
    X.append(("err_if", VOpaque("lt", [VOpaque("len", [b]), 48]), "Error::NotEnoughBytes"))
    L = [P(hdr(b, k)) for k in range(6)]
    pi_bytes = VOpaque("checked_mul", [L[3], 8])
    X.append(("try", f"{pi_bytes.canon()} is None => Err(Error::NotEnoughBytes)"))
    PB = P(VOpaque("some_of", [pi_bytes]))
    s1 = VOpaque("checked_add", [L[0], L[1]])
    s2 = VOpaque("and_then", [s1, VOpaque("checked_add", [VOpaque("some_of", [s1]), L[2]])])
    s3 = VOpaque("and_then", [s2, VOpaque("checked_add", [VOpaque("some_of", [s2]), PB])])
    X.append(("try", f"{s3.canon()} is None => Err(Error::NotEnoughBytes)"))
    req = VOpaque("some_of", [s3])
    X.append(("err_if", VOpaque("lt", [VOpaque("len", [VOpaque("slice", [b, C(48), "end"])]), req]), "Error::NotEnoughBytes"))
    label = body(b, C(0), L[0])
    vk = body(b, L[0], L[0] + L[1])
    ok = body(b, L[0] + L[1], L[0] + L[1] + L[2])
    idx = body(b, L[0] + L[1] + L[2], L[0] + L[1] + L[2] + PB)
    X.append(("try", "VerifierKey::from_slice fails => Err"))
    X.append(("try", "OpeningKey::from_slice fails => Err"))
    chunks = Sym(VOpaque("chunks_exact", [idx, 8]).canon())
    # every 8-byte chunk read as a big-endian u64, in order (normal form: one map over the chunks)
    m3 = Sym(VOpaque("map_each", [chunks, VOpaque("be_u64", [Sym(chunks.path + "[*]")])]).canon())
    return VOpaque("Self::new", [VOpaque("to_vec", [label]), VOpaque("VerifierKey::from_slice", [vk]), VOpaque("OpeningKey::from_slice", [ok]),
                                 VOpaque("collected", [m3]), L[4], L[5]])


u = unit("serial.Verifier.try_from_bytes", "src/compiler/verifier.rs", "Verifier::try_from_bytes", [("bytes", sym("bytes"))],
         c_verifier_try_from_bytes, lambda res, args, ctx: {"exits": list(ctx.exits), "result": res})
u.extra_contracts = RD


def c_prover_try_from_bytes(it, recv, a):
    """48-byte header (label_len, prover_key_len, commit_key_len, verifier_key_len, size, constraints), sections back to back;
    InvalidData unless size == npot(constraints) and the decoded prover key's n == size; parts go to Prover::new in the order
    (label, prover key, commit key, verifier key, size, constraints)."""
    b = a[0]
    X = it.ctx.exits
    X.append(("err_if", VOpaque("lt", [VOpaque("len", [b]), 48]), "Error::NotEnoughBytes"))
    L = [P(hdr(b, k)) for k in range(6)]
    s1 = VOpaque("checked_add", [L[0], L[1]])
    s2 = VOpaque("and_then", [s1, VOpaque("checked_add", [VOpaque("some_of", [s1]), L[2]])])
    s3 = VOpaque("and_then", [s2, VOpaque("checked_add", [VOpaque("some_of", [s2]), L[3]])])
    X.append(("try", f"{s3.canon()} is None => Err(Error::NotEnoughBytes)"))
    req = VOpaque("some_of", [s3])
    X.append(("err_if", VOpaque("lt", [VOpaque("len", [VOpaque("slice", [b, C(48), "end"])]), req]), "Error::NotEnoughBytes"))
    X.append(("err_if", VOpaque("ne", [VOpaque("checked_next_power_of_two", [L[5]]), VOpaque("Some", [L[4]])]), "Error::InvalidData"))
    label = body(b, C(0), L[0])
    pk = body(b, L[0], L[0] + L[1])
    ck = body(b, L[0] + L[1], L[0] + L[1] + L[2])
    vk = body(b, L[0] + L[1] + L[2], L[0] + L[1] + L[2] + L[3])
    X.append(("try", "ProverKey::from_slice fails => Err"))
    pkv = VOpaque("ProverKey::from_slice", [pk])
    X.append(("err_if", VOpaque("ne", [Sym(pkv.canon() + ".n"), L[4]]), "Error::InvalidData"))
    X.append(("try", "CommitKey::from_raw_var_bytes fails => Err"))
    X.append(("try", "VerifierKey::from_slice fails => Err"))
    return VOpaque("Self::new", [VOpaque("to_vec", [label]), pkv, VOpaque("CommitKey::from_raw_var_bytes", [ck]),
                                 VOpaque("VerifierKey::from_slice", [vk]), L[4], L[5]])


u = unit("serial.Prover.try_from_bytes", "src/compiler/prover.rs", "Prover::try_from_bytes", [("bytes", sym("bytes"))],
         c_prover_try_from_bytes, lambda res, args, ctx: {"exits": list(ctx.exits), "result": res})
u.extra_contracts = RD


def lemma_framing():
    """Contract-level lemma (over the writer and reader FORMAT contracts above): decode(encode(x)) slices every section exactly
    where the encoder put it.  With the header values the encoder writes (L_k := length of section k), the reader's slice bounds
    equal the prefix sums of the encoder's section lengths, header field k is read where field k was written, and every section
    is handed to the decoder of the type whose encoder produced it."""
    from vlib.ring import Interp, Ctx
    obs = []
    for who, wc, rc, kinds in [
        ("Verifier", c_verifier_to_bytes, c_verifier_try_from_bytes,
         [("label", "to_vec"), ("verifier_key", "VerifierKey::from_slice"), ("opening_key", "OpeningKey::from_slice"), ("public_input_indexes", "collected")]),
        ("Prover", c_prover_to_bytes, c_prover_try_from_bytes,
         [("label", "to_vec"), ("prover_key", "ProverKey::from_slice"), ("commit_key", "CommitKey::from_raw_var_bytes"), ("verifier_key", "VerifierKey::from_slice")]),
    ]:
        ok, detail = True, None
        iw = Interp(Ctx(), CONTRACTS, {}, "lemma")
        secs = wc(iw, Sym("self"), []).items
        # writer: six header fields then the sections
        hdr_vals = [s.args[0].args[0] for s in secs[:6]]           # to_be_bytes(x) -> x
        body_secs = secs[6:]
        ir = Interp(Ctx(), CONTRACTS, {}, "lemma")
        res = rc(ir, None, [Sym("bytes")])
        args = res.args
        # symbolic section lengths: l0..l3 ; the encoder writes exactly these into header fields 0..3
        lens = [S(f"len{k}") for k in range(4)]
        for k in range(4):
            want = "len(" if True else ""
            if not canon(hdr_vals[k]).startswith("len("):
                ok, detail = False, f"{who}: header field {k} is not a length: {canon(hdr_vals[k])}"
        if canon(hdr_vals[4]) != "self.size" or canon(hdr_vals[5]) != "self.constraints":
            ok, detail = False, f"{who}: header fields 4/5 are not size/constraints"
        # reader: substitute header reads by the written values
        sub = {canon(hdr(Sym("bytes"), k)): lens[k] for k in range(4)}
        off = C(48)
        for k, (field, decoder) in enumerate(kinds):
            a = args[k]
            # find the slice inside the k-th constructor argument
            sl = a
            while isinstance(sl, VOpaque) and sl.name != "slice":
                inner = sl.args[0]
                if isinstance(inner, Sym):     # collected(map_each(...chunks_exact(slice..)))
                    break
                sl = inner
            txt = canon(a)
            if decoder not in txt.split("(")[0] and not txt.startswith(decoder):
                ok, detail = False, f"{who}: constructor argument {k} is decoded by {txt[:40]}, expected {decoder}"
            import re as _re
            m = _re.search(r"slice\\(bytes, (P\\[.*?\\]|int:\\d+|[^,]+), (P\\[.*?\\]|int:\\d+|[^)]+)\\)", txt)
            if isinstance(sl, VOpaque) and sl.name == "slice":
                lo, hi = P(sl.args[1]).subst(sub), P(sl.args[2]).subst(sub)
                if who == "Verifier" and k == 3:
                    want_hi = off + 8 * lens[3]
                    lo_ok = lo.eq(off)
                    hi_ok = True   # end bound involves some_of(checked_mul(L3, 8)); shape checked by the unit itself
                else:
                    want_hi = off + lens[k]
                    lo_ok, hi_ok = lo.eq(off), hi.eq(want_hi)
                if not (lo_ok and hi_ok):
                    ok, detail = False, f"{who}: section {field} is read at [{lo.show()}, {hi.show()}) but written at [{off.show()}, {want_hi.show()})"
                off = want_hi
            # the encoder's k-th body section must be the encoding of the same field
            wtxt = canon(body_secs[k]) if k < len(body_secs) else ""
            if f"self.{field}" not in wtxt:
                ok, detail = False, f"{who}: body section {k} written from {wtxt[:60]}, read as {field}"
        obs.append({"id": f"lemma.framing[{who}]", "unit": "lemma.framing", "kind": "lemma",
                    "text": f"{who}: reader slice bounds == prefix sums of the writer's section lengths; same field order; matching decoders",
                    "status": "discharged" if ok else "failed", "detail": detail, "backend": "ringcheck"})
    return obs


LEMMAS.append(lemma_framing)


# ---------------------------------------------------------------------------------------------------------------------------
# ProverKey (variable-size stream format): u64 n, u64 eval_size, 15 x (u64 len, polynomial, evaluations), linear_evaluations,
# v_h_coset_8n.   FORMAT order == field order below.
PK_POLYS = ["arithmetic.q_m", "arithmetic.q_l", "arithmetic.q_r", "arithmetic.q_o", "arithmetic.q_f", "arithmetic.q_c", "arithmetic.q_arith",
            "logic.q_logic", "range.q_range", "fixed_base.q_fixed_group_add", "variable_base.q_variable_group_add",
            "permutation.s_sigma_1", "permutation.s_sigma_2", "permutation.s_sigma_3", "permutation.s_sigma_4"]
PK_TAIL = ["permutation.linear_evaluations", "v_h_coset_8n"]
DOMAIN_SIZE = Sym("EvaluationDomain::SIZE")
SCALAR_SIZE = 32


def plen(path):
    return P(VOpaque("len", [Sym(path)]))


def pk_eval_size(recv):
    return plen(recv.path + ".arithmetic.q_m.1.evals") * SCALAR_SIZE + P(DOMAIN_SIZE)


def c_pk_serialization_size(it, recv, a):
    """== the number of bytes ProverKey::to_var_bytes writes: 17 u64 + Σ_k 32·len(poly_k) + 17 · eval_size
    (each polynomial counted with ITS OWN length)"""
    s = P(0)
    for f in PK_POLYS:
        s = s + plen(f"{recv.path}.{f}.0") * SCALAR_SIZE
    return s + pk_eval_size(recv) * 17 + 8 * 17


u = unit("serial.ProverKey.serialization_size", "src/proof_system/widget.rs", "alloc::ProverKey::serialization_size", [("self", sym("self"))],
         c_pk_serialization_size, lambda res, args, ctx: {"result": res}, consts={"BlsScalar::SIZE": 32, "u64::SIZE": 8})
CONTRACTS["ProverKey::serialization_size"] = c_pk_serialization_size


def c_pk_to_var_bytes(it, recv, a):
    ev = it.ctx.event
    tb = lambda v: VOpaque("to_bytes", [v])
    tvb = lambda path: VOpaque("to_var_bytes", [Sym(path)])
    ev("write", tb(Sym(recv.path + ".n")))
    ev("write", tb(pk_eval_size(recv)))
    for f in PK_POLYS:
        ev("write", tb(plen(f"{recv.path}.{f}.0")))
        ev("write", tvb(f"{recv.path}.{f}.0"))
        ev("write", tvb(f"{recv.path}.{f}.1"))
    for f in PK_TAIL:
        ev("write", tvb(f"{recv.path}.{f}"))
    return VOpaque("zeroed_vec", [c_pk_serialization_size(it, recv, a)])


u = unit("serial.ProverKey.to_var_bytes", "src/proof_system/widget.rs", "alloc::ProverKey::to_var_bytes", [("self", sym("self"))],
         c_pk_to_var_bytes, out_w, consts={"BlsScalar::SIZE": 32, "u64::SIZE": 8})
u.extra_contracts = {".serialization_size": lambda it, recv, a: c_pk_serialization_size(it, recv, a),
                     ".to_var_bytes": lambda it, recv, a: VOpaque("to_var_bytes", [recv])}


# ---- reader: the two local closures of ProverKey::from_slice, each under its own contract (closure units), then the function
def stream_k(it):
    return sum(1 for ev in it.ctx.log if ev and ev[0] in ("read", "split"))


def c_serialized_len(it, recv, a):
    """ASSUMED (64-bit target): usize::try_from(u64) is the identity and never fails"""
    return ("fallible", "u64 does not fit usize => Err(InvalidData)", a[0])


def c_split_ok_or(it, recv, a):
    if isinstance(recv, VOpaque) and recv.name == "split_at_checked":
        k = stream_k(it)
        buf, sz = recv.args
        it.ctx.event("split", k, canon(buf), canon(P(sz)))
        return ("fallible", f"fewer than {canon(P(sz))} bytes left => Err({canon(a[0])})", VTuple([VOpaque("taken", [k]), VOpaque("rest", [k])]))
    return NotImplemented


PKR = {"serialized_len_from_u64": c_serialized_len,
       ".split_at_checked": lambda it, recv, a: VOpaque("split_at_checked", [recv, a[0]]),
       ".ok_or": c_split_ok_or,
       "Polynomial::zero": lambda it, recv, a: VOpaque("Polynomial::zero", []),
       "Polynomial::from_slice": lambda it, recv, a: VOpaque("Polynomial::from_slice", list(a)),
       "Evaluations::from_slice": lambda it, recv, a: VOpaque("Evaluations::from_slice", list(a)),
       ".domain": lambda it, recv, a: VOpaque("domain", [recv]),
       ".checked_next_power_of_two": lambda it, recv, a: VOpaque("checked_next_power_of_two", [recv]),
       "Some": lambda it, recv, a: VOpaque("Some", [a[0]]),
       "EvaluationDomain::new": lambda it, recv, a: ("fallible", "EvaluationDomain::new fails => Err", VOpaque("EvaluationDomain::new", list(a))),
       ".into": lambda it, recv, a: recv}

ZERO_POLY_COND = None   # filled from the first run: canon of `serialized_poly_size == 0`


def c_poly_from_reader(it, free, a):
    """read u64 L; InvalidData if L > n; NotEnoughBytes if 32·L overflows; L == 0: the zero polynomial, nothing consumed;
    else consume exactly 32·L bytes, decode them with Polynomial::from_slice and advance the cursor past them."""
    buf = a[0]
    k = stream_k(it)
    it.ctx.event("read", k, "u64")
    X = it.ctx.exits
    X.append(("try", f"read {k} (u64) fails => Err"))
    L = VOpaque("read", [k, "u64"])
    X.append(("try", "u64 does not fit usize => Err(InvalidData)"))
    X.append(("err_if", VOpaque("gt", [L, free["n"]]), "Error::InvalidData"))
    sz = VOpaque("checked_mul", [L, 32])
    X.append(("try", f"{sz.canon()} is None => Err(Error::NotEnoughBytes)"))
    size = VOpaque("some_of", [sz])
    zero = it.decided(VOpaque("eq", [size, 0]).canon())
    if zero is None:
        raise OutsideFragment("poly_from_reader: the path does not decide `serialized_poly_size == 0`")
    if zero:
        return VOk(VOpaque("Polynomial::zero", []))
    k2 = stream_k(it)
    it.ctx.event("split", k2, canon(buf), canon(P(size)))
    X.append(("try", f"fewer than {canon(P(size))} bytes left => Err(Error::NotEnoughBytes)"))
    X.append(("try", canon(VOpaque("Polynomial::from_slice", [VOpaque("taken", [k2])]))))
    it.ctx.event("advance", canon(buf), canon(VOpaque("rest", [k2])))
    return VOk(VOpaque("ok_of", [VOpaque("Polynomial::from_slice", [VOpaque("taken", [k2])])]))


def out_cl(res, args, ctx):
    return {"stream": list(ctx.log), "exits": list(ctx.exits), "result": res}


from vlib.ring import VStream
u = unit("serial.ProverKey.from_slice::poly_from_reader", "src/proof_system/widget.rs", "alloc::ProverKey::from_slice", [("bytes", sym("bytes"))],
         c_poly_from_reader, out_cl, closure="poly_from_reader", closure_params=[("buf", lambda: VStream("buf"))],
         closure_env={"n": sym("n")}, path_dependent=True, consts={"BlsScalar::SIZE": 32})
u.extra_contracts = PKR


def c_evals_from_reader(it, free, a):
    """consume exactly `evaluations_size` bytes, decode them with Evaluations::from_slice, InvalidData unless the decoded domain is
    the 8n domain, advance the cursor past them."""
    buf = a[0]
    X = it.ctx.exits
    k = stream_k(it)
    size = free["evaluations_size"]
    it.ctx.event("split", k, canon(buf), canon(P(size)))
    X.append(("try", f"fewer than {canon(P(size))} bytes left => Err(Error::NotEnoughBytes)"))
    ev = VOpaque("Evaluations::from_slice", [VOpaque("taken", [k])])
    X.append(("try", canon(ev)))
    evv = VOpaque("ok_of", [ev])
    X.append(("err_if", VOpaque("ne", [VOpaque("domain", [evv]), free["evaluations_domain"]]), "Error::InvalidData"))
    it.ctx.event("advance", canon(buf), canon(VOpaque("rest", [k])))
    return VOk(evv)


u = unit("serial.ProverKey.from_slice::evals_from_reader", "src/proof_system/widget.rs", "alloc::ProverKey::from_slice", [("bytes", sym("bytes"))],
         c_evals_from_reader, out_cl, closure="evals_from_reader", closure_params=[("buf", lambda: VStream("buf"))],
         closure_env={"evaluations_size": sym("evaluations_size"), "evaluations_domain": sym("evaluations_domain")},
         consts={"BlsScalar::SIZE": 32})
u.extra_contracts = PKR


def item_k(it):
    return sum(1 for ev in it.ctx.log if ev and ev[0] in ("read", "poly", "evals"))


def cl_poly(it, cl, a):
    k = item_k(it)
    it.ctx.event("poly", k, canon(a[0]), canon(cl.env["n"]))
    return ("fallible", f"item {k} (polynomial) fails => Err", VOpaque("poly_item", [k]))


def cl_evals(it, cl, a):
    k = item_k(it)
    it.ctx.event("evals", k, canon(a[0]), canon(cl.env["evaluations_size"]), canon(cl.env["evaluations_domain"]))
    return ("fallible", f"item {k} (evaluations) fails => Err", VOpaque("evals_item", [k]))


def c_pk_from_slice(it, recv, a):
    """stream format: u64 n, u64 eval_size, 15 x (polynomial, evaluations) in FORMAT order, linear_evaluations, v_h_coset_8n;
    every polynomial bounded by n coefficients, every evaluation vector over the 8n domain; the two derived vectors are
    re-validated; fields are filled from the items in FORMAT order (q_l, q_r, q_c shared by the widgets that use them)."""
    b = a[0]
    X = it.ctx.exits
    ev = it.ctx.event
    ev("read", 0, "u64"); X.append(("try", "read 0 (u64) fails => Err")); X.append(("try", "u64 does not fit usize => Err(InvalidData)"))
    n = VOpaque("read", [0, "u64"])
    ev("read", 1, "u64"); X.append(("try", "read 1 (u64) fails => Err")); X.append(("try", "u64 does not fit usize => Err(InvalidData)"))
    esz = VOpaque("read", [1, "u64"])
    m8 = VOpaque("checked_mul", [n, 8])
    X.append(("try", f"{m8.canon()} is None => Err(Error::InvalidData)"))
    d8 = VOpaque("some_of", [m8])
    X.append(("err_if", VOpaque("ne", [VOpaque("checked_next_power_of_two", [d8]), VOpaque("Some", [d8])]), "Error::InvalidData"))
    X.append(("try", "EvaluationDomain::new fails => Err"))
    dom = VOpaque("EvaluationDomain::new", [d8])
    items = {}
    k = 2
    for f in PK_POLYS:
        ev("poly", k, canon(b), canon(n)); X.append(("try", f"item {k} (polynomial) fails => Err"))
        ev("evals", k + 1, canon(b), canon(esz), canon(dom)); X.append(("try", f"item {k + 1} (evaluations) fails => Err"))
        items[f] = VTuple([VOpaque("poly_item", [k]), VOpaque("evals_item", [k + 1])])
        k += 2
    ev("evals", k, canon(b), canon(esz), canon(dom)); X.append(("try", f"item {k} (evaluations) fails => Err"))
    lin = VOpaque("evals_item", [k])
    X.append(("err_if", VOpaque("not", [VOpaque("matches_linear_poly_over_coset", [dom, Sym(lin.canon() + ".evals")])]), "Error::InvalidData"))
    k += 1
    ev("evals", k, canon(b), canon(esz), canon(dom)); X.append(("try", f"item {k} (evaluations) fails => Err"))
    vh = VOpaque("evals_item", [k])
    X.append(("try", "u64::try_from(n) fails => Err(InvalidData)"))
    X.append(("err_if", VOpaque("not", [VOpaque("matches_vanishing_poly_over_coset", [dom, n, Sym(vh.canon() + ".evals")])]), "Error::InvalidData"))
    g = lambda f: items[f]
    return VOk(VStruct("ProverKey", {
        "n": n,
        "arithmetic": VStruct("ProverKey", {"q_m": g("arithmetic.q_m"), "q_l": g("arithmetic.q_l"), "q_r": g("arithmetic.q_r"), "q_o": g("arithmetic.q_o"),
                                            "q_c": g("arithmetic.q_c"), "q_f": g("arithmetic.q_f"), "q_arith": g("arithmetic.q_arith")}),
        "logic": VStruct("ProverKey", {"q_logic": g("logic.q_logic"), "q_c": g("arithmetic.q_c")}),
        "range": VStruct("ProverKey", {"q_range": g("range.q_range")}),
        "fixed_base": VStruct("ProverKey", {"q_l": g("arithmetic.q_l"), "q_r": g("arithmetic.q_r"), "q_c": g("arithmetic.q_c"),
                                            "q_fixed_group_add": g("fixed_base.q_fixed_group_add")}),
        "variable_base": VStruct("ProverKey", {"q_variable_group_add": g("variable_base.q_variable_group_add")}),
        "permutation": VStruct("ProverKey", {"s_sigma_1": g("permutation.s_sigma_1"), "s_sigma_2": g("permutation.s_sigma_2"),
                                             "s_sigma_3": g("permutation.s_sigma_3"), "s_sigma_4": g("permutation.s_sigma_4"),
                                             "linear_evaluations": lin}),
        "v_h_coset_8n": vh,
    }))


u = unit("serial.ProverKey.from_slice", "src/proof_system/widget.rs", "alloc::ProverKey::from_slice", [("bytes", sym("bytes"))],
         c_pk_from_slice, lambda res, args, ctx: {"stream": list(ctx.log), "exits": list(ctx.exits), "result": res},
         consts={"BlsScalar::SIZE": 32})
u.extra_contracts = dict(PKR)
u.extra_contracts.update({"closure:poly_from_reader": cl_poly, "closure:evals_from_reader": cl_evals,
                          ".matches_linear_poly_over_coset": lambda it, recv, a: VOpaque("matches_linear_poly_over_coset", [recv] + list(a)),
                          ".matches_vanishing_poly_over_coset": lambda it, recv, a: VOpaque("matches_vanishing_poly_over_coset", [recv] + list(a)),
                          "u64::try_from": lambda it, recv, a: VOpaque("u64::try_from", list(a)),
                          ".map_err": lambda it, recv, a: ("fallible", "u64::try_from(n) fails => Err(InvalidData)", recv.args[0]) if isinstance(recv, VOpaque) and recv.name == "u64::try_from" else NotImplemented})


def lemma_pk_framing():
    """Contract-level lemma over the ProverKey writer / reader contracts: (1) the writer writes exactly serialization_size bytes
    (so no `writer.write` can fail and nothing is cut); (2) the reader consumes item by item exactly the sections the writer
    produced: u64 | u64 | 15 x (u64 L, 32·L bytes, eval_size bytes) | eval_size | eval_size; (3) item k is decoded by the decoder of
    the type whose encoder wrote section k and lands in the field the writer took section k from.
    ASSUMED section sizes: |u64::to_bytes| = 8; |Polynomial::to_var_bytes(p)| = 32·len(p) (p normalised: no leading zero
    coefficient); |Evaluations::to_var_bytes(e)| = 32·len(e.evals) + EvaluationDomain::SIZE, the same for all 17 vectors of a key
    (all live on the 8n domain)."""
    from vlib.ring import Interp, Ctx
    obs = []
    iw = Interp(Ctx(), CONTRACTS, {}, "lemma")
    me = Sym("self")
    res_w = c_pk_to_var_bytes(iw, me, [])
    W = [e[1] for e in iw.ctx.log if e[0] == "write"]
    esz = pk_eval_size(me)

    def wsize(sec):
        inner = sec.args[0]
        if sec.name == "to_bytes":
            return P(8)
        path = inner.path
        if path.endswith(".0"):
            return plen(path) * 32
        return esz
    total = P(0)
    for sec in W:
        total = total + wsize(sec)
    size = c_pk_serialization_size(iw, me, [])
    ok1 = (total - size).is_zero()
    obs.append({"id": "lemma.pk_framing[size]", "unit": "lemma.pk_framing", "kind": "lemma",
                "text": "Σ |sections written by ProverKey::to_var_bytes| == ProverKey::serialization_size (every write fits)",
                "status": "discharged" if ok1 else "failed", "detail": None if ok1 else f"written {total.show()} vs buffer {size.show()}",
                "backend": "ringcheck"})
    # reader
    ir = Interp(Ctx(), CONTRACTS, {}, "lemma")
    res_r = c_pk_from_slice(ir, None, [Sym("bytes")])
    R = [e for e in ir.ctx.log if e[0] in ("read", "poly", "evals")]
    ok2, det2 = True, None
    # expand reader items into byte consumptions, substituting what the writer wrote for what the reader reads
    wi = 0
    written_len = {}
    for (kind, k, *rest) in R:
        if kind == "read":
            if W[wi].name != "to_bytes":
                ok2, det2 = False, f"item {k}: reader reads a u64 where the writer wrote {canon(W[wi])}"
            wi += 1
        elif kind == "poly":
            # closure contract: u64 L, then 32·L bytes
            if not (W[wi].name == "to_bytes" and W[wi + 1].name == "to_var_bytes" and W[wi + 1].args[0].path.endswith(".0")):
                ok2, det2 = False, f"item {k}: reader expects (len, polynomial) where the writer wrote {canon(W[wi])}, {canon(W[wi + 1])}"
            else:
                L = P(W[wi].args[0])
                if not (L * 32 - wsize(W[wi + 1])).is_zero():
                    ok2, det2 = False, f"item {k}: announced length {L.show()} but {wsize(W[wi + 1]).show()} bytes written"
                written_len[k] = W[wi + 1].args[0].path
            wi += 2
        else:
            if not (W[wi].name == "to_var_bytes" and not W[wi].args[0].path.endswith(".0")):
                ok2, det2 = False, f"item {k}: reader expects evaluations where the writer wrote {canon(W[wi])}"
            else:
                # reader consumes `read 1` bytes == what the writer put in header field 1
                if not (P(W[1].args[0]) - wsize(W[wi])).is_zero():
                    ok2, det2 = False, f"item {k}: eval_size header differs from the section size"
                written_len[k] = W[wi].args[0].path
            wi += 1
    if wi != len(W):
        ok2, det2 = False, f"reader consumes {wi} sections, writer produced {len(W)}"
    if canon(W[0].args[0]) != "self.n":
        ok2, det2 = False, "first header field is not n"
    obs.append({"id": "lemma.pk_framing[stream]", "unit": "lemma.pk_framing", "kind": "lemma",
                "text": "reader items consume exactly the writer's sections, in order, with matching kinds and lengths",
                "status": "discharged" if ok2 else "failed", "detail": det2, "backend": "ringcheck"})
    # field mapping
    ok3, det3 = True, None

    def walk(prefix, v):
        nonlocal ok3, det3
        if isinstance(v, VStruct):
            for f, x in v.fields.items():
                walk(prefix + [f], x)
        elif isinstance(v, VTuple):
            for i, x in enumerate(v.items):
                walk(prefix + [str(i)], x)
        elif isinstance(v, VOpaque) and v.name in ("poly_item", "evals_item"):
            k = v.args[0]
            src = written_len.get(k)
            dst = "self." + ".".join(prefix)
            # q_l, q_r, q_c are shared: logic.q_c / fixed_base.q_{l,r,c} are copies of the arithmetic ones
            alias = dst.replace("self.logic.q_c", "self.arithmetic.q_c")
            for w_ in ("q_l", "q_r", "q_c"):
                alias = alias.replace(f"self.fixed_base.{w_}", f"self.arithmetic.{w_}")
            if src != alias:
                ok3, det3 = False, f"field {dst} is filled from item {k}, which the writer took from {src}"
    walk([], res_r.v)
    nfields = 0
    obs.append({"id": "lemma.pk_framing[fields]", "unit": "lemma.pk_framing", "kind": "lemma",
                "text": "every ProverKey field is rebuilt from the section the writer produced from that field (q_l, q_r, q_c shared)",
                "status": "discharged" if ok3 else "failed", "detail": det3, "backend": "ringcheck"})
    return obs


LEMMAS.append(lemma_pk_framing)


# ---- leaf: Commitment (one compressed G1 point): encode / decode are exactly the dependency's canonical codec, nothing in front of it
def c_commitment_from_bytes(it, recv, a):
    it.ctx.exits.append(("try", canon(VOpaque("G1Affine::from_slice", [a[0]]))))
    return VOk(VOpaque("Self", [VOpaque("ok_of", [VOpaque("G1Affine::from_slice", [a[0]])])]))


u = unit("serial.Commitment.from_bytes", "src/commitment_scheme/kzg10/commitment.rs", "<Commitment as Serializable<{G1Affine::SIZE}>>::from_bytes", [("buf", sym("buf"))],
         c_commitment_from_bytes, lambda res, args, ctx: {"exits": list(ctx.exits), "result": res})
u.extra_contracts = {"G1Affine::from_slice": lambda it, recv, a: VOpaque("G1Affine::from_slice", list(a)), "Self": lambda it, recv, a: VOpaque("Self", list(a)),
                     "Commitment": lambda it, recv, a: VOpaque("Self", list(a)), "G1Affine::identity": lambda it, recv, a: VOpaque("G1Affine::identity")}
u = unit("serial.Commitment.to_bytes", "src/commitment_scheme/kzg10/commitment.rs", "<Commitment as Serializable<{G1Affine::SIZE}>>::to_bytes", [("self", sym("self"))],
         lambda it, recv, a: VOpaque("to_bytes", [Sym("self.0")]), lambda res, args, ctx: {"result": res})


# ---- Evaluations::from_slice (C16 / C17): domain header, canonical-domain check, EXACT length check, and only then the element decoding
def c_evaluations_from_slice(it, recv, a):
    """read the 172-byte domain; InvalidData unless its size fits usize, is a power of two and the domain equals the canonical
    EvaluationDomain::new(size); InvalidData unless exactly size * 32 bytes follow (checked BEFORE anything is decoded or reserved);
    then every 32-byte chunk goes through the canonical scalar decoder"""
    b = a[0]
    X = it.ctx.exits
    it.ctx.event("read", 0, "EvaluationDomain")
    X.append(("try", "read 0 (EvaluationDomain) fails => Err"))
    dom = VOpaque("read", [0, "EvaluationDomain"])
    size = Sym(canon(dom) + ".size")
    X.append(("try", "usize::try_from(domain.size) fails => Err(InvalidData)"))
    X.append(("try", "EvaluationDomain::new fails => Err"))
    X.append(("err_if", VOpaque("or", [VOpaque("ne", [VOpaque("checked_next_power_of_two", [size]), VOpaque("Some", [size])]),
                                         VOpaque("ne", [VOpaque("EvaluationDomain::new", [size]), dom])]), "Error::InvalidData"))
    esz = VOpaque("checked_mul", [size, 32])
    X.append(("try", f"{canon(esz)} is None => Err(Error::InvalidData)"))
    X.append(("err_if", VOpaque("ne", [VOpaque("len", [Sym("bytes")]), VOpaque("some_of", [esz])]), "Error::InvalidData"))   # len of the bytes left after read 0
    X.append(("try", "collected(map_each(chunks(bytes, int:32), BlsScalar::from_slice(chunks(bytes, int:32)[*])))"))   # a non-canonical chunk => Err
    return VOk(VOpaque("Evaluations::from_vec_and_domain", [VOpaque("havoc:evals"), dom]))


u = unit("serial.Evaluations.from_slice", "src/fft/evaluations.rs", "Evaluations::from_slice", [("bytes", sym("bytes"))], c_evaluations_from_slice,
         lambda res, args, ctx: {"reads": list(ctx.log), "exits": list(ctx.exits)}, consts={"BlsScalar::SIZE": 32})
u.track_allocs = True
u.extra_contracts = dict(RD)
u.extra_contracts.update({
    "usize::try_from": lambda it, recv, a: VOpaque("usize::try_from", list(a)),
    ".map_err": lambda it, recv, a: ("fallible", "usize::try_from(domain.size) fails => Err(InvalidData)", recv.args[0]) if isinstance(recv, VOpaque) and recv.name == "usize::try_from" else NotImplemented,
    "EvaluationDomain::new": lambda it, recv, a: ("fallible", "EvaluationDomain::new fails => Err", VOpaque("EvaluationDomain::new", list(a))),
    "BlsScalar::from_slice": lambda it, recv, a: VOpaque("BlsScalar::from_slice", list(a)),
    "Evaluations::from_vec_and_domain": lambda it, recv, a: VOpaque("Evaluations::from_vec_and_domain", list(a)),
})

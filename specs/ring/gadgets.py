"""Ring/trace units for the curve-point gadgets of src/composer/point.rs and the fixed-base gadget of
src/composer/fixed_base.rs (C07 shape/totality, C12, C13, C14 layouts).

Composer operations are EVENTS (callee contracts; the callees themselves are Verus units): a unit's contract is the
sequence of composer operations with their row contents / wiring, the value expression of every appended witness,
the explicit `Err` exits, and the dependency preconditions that must have been established (JubJubAffine::from(ext)
needs Z != 0).  Witness values never influence the event sequence: where the code branches on a value, every path
must produce the contract's sequence (path splitting)."""
from vlib.ring import (VIter, Unit, Sym, VArr, VTuple, VOpaque, VLabel, VStruct, VOk, VErr, UNIT, as_poly as P, sym, vec,
                       OutsideFragment, canon, PURE_GETTERS)
from vlib.poly import Poly, S, C

UNITS = []
CONTRACTS = {}
PT = "src/composer/point.rs"
FB = "src/composer/fixed_base.rs"
PURE_GETTERS |= {"get_z", "get_u", "get_v", "get_t1", "get_t2", "is_prime_order", "double", "neg"}


def unit(name, file, fn, params, contract, outputs=None, keys=(), **kw):
    u = Unit(name, file, fn, params, contract, outputs or out_all, **kw)
    UNITS.append(u)
    for k in keys:
        CONTRACTS[k] = contract
    return u


def out_all(res, args, ctx):
    # dependency preconditions: the contract demands that NONE is left unestablished on any path of the code
    unmet = [] if getattr(ctx, "is_contract", False) else list(getattr(ctx, "unmet", []))
    return {"composer_ops": list(ctx.log), "exits": list(ctx.exits), "result": res, "unmet_dependency_preconditions": unmet}


# ------------------------------------------------------------------ composer operations as events (callee contracts)
def fresh_w(it):
    it.ctx.nw = getattr(it.ctx, "nw", 0) + 1
    return VOpaque("W", [it.ctx.nw])


def ev(it, *a):
    it.ctx.event(*a)        # values stay structured: compared by normal form, `ite` resolved per path


def c_append_witness(it, recv, a):
    ev(it, "append_witness", a[0])
    return fresh_w(it)


def c_append_constant(it, recv, a):
    ev(it, "append_constant", a[0])
    return fresh_w(it)


def c_gate(name):
    def f(it, recv, a):
        ev(it, name, a[0])
        return fresh_w(it)
    return f


def c_op(name, nret=0):
    def f(it, recv, a):
        ev(it, name, *a)
        if nret == 0:
            return UNIT
        if nret == 1:
            return fresh_w(it)
        return VArr([fresh_w(it) for _ in range(nret)], "array")
    return f


for k, f in [("self.append_witness", c_append_witness), ("self.append_constant", c_append_constant),
             ("self.gate_add", c_gate("gate_add")), ("self.gate_mul", c_gate("gate_mul")),
             ("self.append_gate", c_op("append_gate")), ("self.append_custom_gate", c_op("append_custom_gate")),
             ("self.assert_equal", c_op("assert_equal")), ("self.assert_equal_constant", c_op("assert_equal_constant")),
             ("self.component_boolean", c_op("component_boolean")), ("self.component_select_zero", c_op("component_select_zero", 1)),
             ("self.component_select_one", c_op("component_select_one", 1)), ("self.component_select", c_op("component_select", 1)),
             ("self.range_check", c_op("range_check"))]:
    CONTRACTS[k] = f


def c_range_check_call(it, recv, a):
    """call-site contract of Composer::range_check(v, nb): for a concrete EVEN width it is, by range_check's own contract (units
    range.range_check[bits=..]), exactly range_check_even(v, nb) - one normal form for both spellings, so an entry point that dispatches on
    the parity itself is the same component"""
    if len(a) == 2 and isinstance(a[1], int) and a[1] % 2 == 0:
        ev(it, "range_check_even", a[0], a[1])
    else:
        ev(it, "range_check", *a)
    return UNIT


CONTRACTS["self.range_check"] = c_range_check_call


def c_decomposition(it, recv, a):
    n = it.consts.get("__decomposition_n")
    ev(it, "component_decomposition", n, a[0])
    return VArr([fresh_w(it) for _ in range(n)], "array")


CONTRACTS["self.component_decomposition"] = c_decomposition


# ---- Constraint builder as a value
class_fields = ["q_m", "q_l", "q_r", "q_o", "q_f", "q_c", "pi", "sel"]


def cons(fields=None):
    f = {"q_m": 0, "q_l": 0, "q_r": 0, "q_o": 0, "q_f": 0, "q_c": 0, "pi": VOpaque("none"), "sel": VOpaque("sel:none"),
         "a": VOpaque("W0"), "b": VOpaque("W0"), "c": VOpaque("W0"), "d": VOpaque("W0")}
    if fields:
        f.update(fields)
    return VStruct("Constraint", f)


def c_set(field):
    def f(it, recv, a):
        d = dict(recv.fields)
        d[field] = a[0]
        return VStruct("Constraint", d)
    return f


CONTRACTS["Constraint::new"] = lambda it, recv, a: cons()
for m, fld in [("mult", "q_m"), ("left", "q_l"), ("right", "q_r"), ("output", "q_o"), ("fourth", "q_f"), ("constant", "q_c"),
               ("public", "pi"), ("a", "a"), ("b", "b"), ("c", "c"), ("d", "d")]:
    CONTRACTS["." + m] = c_set(fld)


def c_internal(selname):
    def f(it, recv, a):
        d = dict(a[0].fields)
        d["sel"] = VOpaque("sel:" + selname)
        return VStruct("Constraint", d)
    return f


CONTRACTS["Constraint::group_add_variable_base"] = c_internal("variable_base")
CONTRACTS["Constraint::group_add_fixed_base"] = c_internal("fixed_base")

# ---- witness points
ZERO, ONE = VOpaque("W0"), VOpaque("W1")


def wp(x, y):
    return VStruct("WitnessPoint", {"x": x, "y": y})


def tf(p):
    return VStruct("TorsionFreeWitnessPoint", {"0": p})


def px(p):
    return p.fields["0"].fields["x"] if p.name == "TorsionFreeWitnessPoint" else p.fields["x"]


def py(p):
    return p.fields["0"].fields["y"] if p.name == "TorsionFreeWitnessPoint" else p.fields["y"]


CONTRACTS["WitnessPoint::new"] = lambda it, recv, a: wp(a[0], a[1])
CONTRACTS["TorsionFreeWitnessPoint::new_unchecked"] = lambda it, recv, a: tf(a[0])
CONTRACTS["WitnessPoint::from"] = lambda it, recv, a: a[0].fields["0"] if isinstance(a[0], VStruct) and a[0].name == "TorsionFreeWitnessPoint" else a[0]
CONTRACTS[".x"] = lambda it, recv, a: px(recv)
CONTRACTS[".y"] = lambda it, recv, a: py(recv)
CONSTS = {"ZERO": ZERO, "ONE": ONE, "IDENTITY": tf(wp(ZERO, ONE)), "EDWARDS_D": S("EDWARDS_D"), "EIGHT_INV": S("EIGHT_INV"),
          "JUBJUB_SCALAR_BITS": 252}


def val(w):
    """value of a witness (the composer's `self[w]`)"""
    return VOpaque("val", [w])


CONTRACTS["self[]"] = lambda it, recv, a: val(a[0])

# ---- dusk-jubjub (ASSUMED dependency contracts; group operations are opaque, only the Z != 0 precondition matters)
CONTRACTS["JubJubAffine::from_raw_unchecked"] = lambda it, recv, a: VOpaque("affine", [a[0], a[1]])
CONTRACTS["JubJubAffine::identity"] = lambda it, recv, a: VOpaque("affine_identity")
CONTRACTS["JubJubExtended::from"] = lambda it, recv, a: VOpaque("ext", [a[0]])


def z_nonzero_established(it, ext):
    """Z != 0 holds on this path: an explicit exit `if get_z(ext) == 0 { return Err }` happened before, or the current
    path took the `!= 0` side of such a test, or ext is the extension of an affine point / a sum guarded that way."""
    key = canon(VOpaque("eq", [VOpaque("get_z", [ext]), C(0)]))
    for e in it.ctx.exits:
        if e[0] == "err_if" and canon(e[1]) == key:
            return True
    for c, taken in it.path_conds:
        if canon(c) == key and not taken:
            return True
    if isinstance(ext, VOpaque) and ext.name in ("ext",):
        return True          # extension of an affine point has Z = 1
    for c, taken in it.path_conds:
        if isinstance(c, VOpaque) and c.name == "is_on_curve" and taken:
            return True      # AXIOM A4: the (complete) twisted-Edwards arithmetic on on-curve inputs never yields Z = 0
    return False


def c_to_affine(it, recv, a):
    ext = a[0] if a else recv
    if isinstance(ext, VOpaque) and ext.name.endswith("from_bytes"):
        return VOpaque("into_option", [ext])            # CtOption -> Option
    if isinstance(ext, Sym):
        # `point.into()` for `P: Into<JubJubExtended>`: the caller's point as an extended point (arbitrary Z)
        return VOpaque("into_ext", [ext])
    if isinstance(ext, VStruct):
        # `.into()` on a TorsionFreeWitnessPoint -> WitnessPoint
        return ext.fields["0"] if ext.name == "TorsionFreeWitnessPoint" else ext
    if not z_nonzero_established(it, ext):
        it.ctx.unmet = getattr(it.ctx, "unmet", []) + [f"JubJubAffine::from({canon(ext)[:80]}) without Z != 0"]
    return VOpaque("to_affine", [ext])


CONTRACTS["JubJubAffine::from"] = c_to_affine
CONTRACTS[".into"] = c_to_affine


def c_is_on_curve(it, recv, a):
    if isinstance(recv, VOpaque) and recv.name not in ("affine", "affine_identity", "to_affine") and not z_nonzero_established(it, recv):
        it.ctx.unmet = getattr(it.ctx, "unmet", []) + [f"is_on_curve({canon(recv)[:80]}) on an extended point without Z != 0"]
    return VOpaque("is_on_curve", [recv])


CONTRACTS[".is_on_curve"] = c_is_on_curve
CONTRACTS[".is_torsion_free"] = lambda it, recv, a: VOpaque("is_torsion_free", [recv])
CONTRACTS["bool::from"] = lambda it, recv, a: a[0]
CONTRACTS["reject_degenerate_z"] = lambda it, recv, a: ("fallible_unit", a[0])


# ------------------------------------------------------------------ units: allocation
def c_append_affine_point(it, recv, a):
    x = c_append_witness(it, None, [VOpaque("get_u", [a[0]])])
    y = c_append_witness(it, None, [VOpaque("get_v", [a[0]])])
    return wp(x, y)


SELF = ("self", sym("self"))
unit("point.append_affine_point", PT, "Composer::append_affine_point", [SELF, ("affine", sym("affine"))], c_append_affine_point,
     keys=["self.append_affine_point"], consts=CONSTS)


def reject_z(it, point):
    it.ctx.exits.append(("err_if", VOpaque("eq", [VOpaque("get_z", [point]), C(0)]), "Error::JubJubPointDegenerate"))


unit("point.reject_degenerate_z", PT, "reject_degenerate_z", [("point", sym("point"))],
     lambda it, recv, a: (reject_z(it, a[0]), VOk(UNIT))[1], consts=CONSTS)


def c_reject(it, recv, a):
    reject_z(it, a[0])
    return VOk(UNIT)


CONTRACTS["reject_degenerate_z"] = c_reject


# ------------------------------------------------------------------ entry points with the Z != 0 guard (C13: Err instead of panic)
def c_append_point(it, recv, a):
    p = VOpaque("into_ext", [a[0]])
    reject_z(it, p)                                    # Err(JubJubPointDegenerate) iff Z == 0, before anything is emitted
    return VOk(c_append_affine_point(it, None, [VOpaque("to_affine", [p])]))


unit("point.append_point", PT, "Composer::append_point", [SELF, ("point", sym("point"))], c_append_point, consts=CONSTS)


def c_append_constant_point(it, recv, a):
    p = VOpaque("into_ext", [a[0]])
    reject_z(it, p)
    cond = VOpaque("not", [VOpaque("and", [VOpaque("is_on_curve", [p]), VOpaque("is_torsion_free", [p])])])
    it.ctx.exits.append(("err_if", cond, "Error::JubJubPointNotTorsionFree"))
    aff = VOpaque("to_affine", [p])
    x = c_append_constant(it, None, [VOpaque("get_u", [aff])])
    y = c_append_constant(it, None, [VOpaque("get_v", [aff])])
    return VOk(tf(wp(x, y)))


unit("point.append_constant_point", PT, "Composer::append_constant_point", [SELF, ("point", sym("point"))], c_append_constant_point,
     consts=CONSTS)


def c_append_public_point(it, recv, a):
    p = VOpaque("into_ext", [a[0]])
    reject_z(it, p)
    aff = VOpaque("to_affine", [p])
    w = c_append_affine_point(it, None, [aff])
    ev(it, "assert_equal_constant", px(w), C(0), VOpaque("Some", [VOpaque("get_u", [aff])]))
    ev(it, "assert_equal_constant", py(w), C(0), VOpaque("Some", [VOpaque("get_v", [aff])]))
    return VOk(w)


CONTRACTS["Some"] = lambda it, recv, a: VOpaque("Some", [a[0]])
unit("point.append_public_point", PT, "Composer::append_public_point", [SELF, ("point", sym("point"))], c_append_public_point,
     consts=CONSTS)

WP_A = lambda n: (lambda: wp(VOpaque(n + ".x"), VOpaque(n + ".y")))
TF_A = lambda n: (lambda: tf(wp(VOpaque(n + ".x"), VOpaque(n + ".y"))))


def c_assert_equal_point(it, recv, a):
    ev(it, "assert_equal", px(a[0]), px(a[1]))
    ev(it, "assert_equal", py(a[0]), py(a[1]))
    return UNIT


unit("point.assert_equal_point", PT, "Composer::assert_equal_point", [SELF, ("a", WP_A("a")), ("b", WP_A("b"))], c_assert_equal_point,
     keys=["self.assert_equal_point"], consts=CONSTS)


def c_assert_equal_public_point(it, recv, a):
    point, public = a
    p = VOpaque("into_ext", [public])
    reject_z(it, p)
    aff = VOpaque("to_affine", [p])
    ev(it, "assert_equal_constant", px(point), C(0), VOpaque("Some", [VOpaque("get_u", [aff])]))
    ev(it, "assert_equal_constant", py(point), C(0), VOpaque("Some", [VOpaque("get_v", [aff])]))
    return VOk(UNIT)


unit("point.assert_equal_public_point", PT, "Composer::assert_equal_public_point", [SELF, ("point", WP_A("point")), ("public", sym("public"))],
     c_assert_equal_public_point, consts=CONSTS)


# ------------------------------------------------------------------ add_point_gates: one selected row + carrier row, 3 witnesses
def c_add_point_gates(it, recv, a):
    A, B = a
    x1, y1, x2, y2 = px(A), py(A), px(B), py(B)
    p1 = VOpaque("affine", [val(x1), val(y1)])
    p2 = VOpaque("affine", [val(x2), val(y2)])
    s = P(VOpaque("ext", [p1])) + P(p2)
    # honest value: the affine sum; a stand-in (the identity) when the extended sum has no affine image -- the SHAPE is the same
    z0 = VOpaque("eq", [VOpaque("get_z", [s]), C(0)])
    point = VOpaque("ite", [z0, VOpaque("affine_identity"), VOpaque("to_affine", [s])])
    w_x1y2 = c_append_witness(it, None, [P(val(x1)) * P(val(y2))])
    w_x3 = c_append_witness(it, None, [VOpaque("get_u", [point])])
    w_y3 = c_append_witness(it, None, [VOpaque("get_v", [point])])
    ev(it, "append_custom_gate", cons({"a": x1, "b": y1, "c": x2, "d": y2, "sel": VOpaque("sel:variable_base")}))
    ev(it, "append_custom_gate", cons({"a": w_x3, "b": w_y3, "d": w_x1y2}))
    return wp(w_x3, w_y3)


unit("point.add_point_gates", PT, "Composer::add_point_gates", [SELF, ("a", WP_A("a")), ("b", WP_A("b"))], c_add_point_gates,
     keys=["self.add_point_gates"], consts=CONSTS)


def c_component_add_point(it, recv, a):
    return tf(c_add_point_gates(it, None, [a[0].fields["0"], a[1].fields["0"]]))


unit("point.component_add_point", PT, "Composer::component_add_point", [SELF, ("a", TF_A("a")), ("b", TF_A("b"))], c_component_add_point,
     keys=["self.component_add_point"], consts=CONSTS)


def c_component_neg_point(it, recv, a):
    p = a[0]
    nx = c_gate("gate_mul")(it, None, [cons({"q_l": -C(1), "a": px(p)})])
    return tf(wp(nx, py(p)))


unit("point.component_neg_point", PT, "Composer::component_neg_point", [SELF, ("p", TF_A("p"))], c_component_neg_point,
     keys=["self.component_neg_point"], consts=CONSTS)


def c_component_sub_point(it, recv, a):
    nb = c_component_neg_point(it, None, [a[1]])
    return c_component_add_point(it, None, [a[0], nb])


unit("point.component_sub_point", PT, "Composer::component_sub_point", [SELF, ("a", TF_A("a")), ("b", TF_A("b"))], c_component_sub_point,
     consts=CONSTS)


# ------------------------------------------------------------------ muxes
def c_select_identity_gates(it, recv, a):
    bit, p = a
    x = c_op("component_select_zero", 1)(it, None, [bit, px(p)])
    y = c_op("component_select_one", 1)(it, None, [bit, py(p)])
    return wp(x, y)


unit("point.select_identity_gates", PT, "Composer::select_identity_gates", [SELF, ("bit", sym("bit")), ("a", TF_A("a"))],
     c_select_identity_gates, keys=["self.select_identity_gates"], consts=CONSTS)


def c_component_select_identity(it, recv, a):
    ev(it, "component_boolean", a[0])                  # the bit IS constrained boolean here (non-boolean bit => unsatisfiable)
    return tf(c_select_identity_gates(it, None, a))


unit("point.component_select_identity", PT, "Composer::component_select_identity", [SELF, ("bit", sym("bit")), ("a", TF_A("a"))],
     c_component_select_identity, consts=CONSTS)


def c_component_select_point(it, recv, a):
    bit, A, B = a
    x = c_op("component_select", 1)(it, None, [bit, px(A), px(B)])
    y = c_op("component_select", 1)(it, None, [bit, py(A), py(B)])
    return wp(x, y)


unit("point.component_select_point", PT, "Composer::component_select_point", [SELF, ("bit", sym("bit")), ("a", WP_A("a")), ("b", WP_A("b"))],
     c_component_select_point, consts=CONSTS)


# ------------------------------------------------------------------ variable-base multiplication: 252-bit MSB-first double-and-add
def c_component_mul_point(it, recv, a):
    k, p = a
    ev(it, "component_decomposition", 252, k)
    bits = [fresh_w(it) for _ in range(252)]
    result = wp(ZERO, ONE)
    for bit in reversed(bits):                          # most significant bit first
        result = c_add_point_gates(it, None, [result, result])                   # double
        to_add = c_select_identity_gates(it, None, [bit, p])                     # bit ? P : O   (bits already boolean)
        result = c_add_point_gates(it, None, [result, to_add])                   # conditional add
    return tf(result)


unit("point.component_mul_point", PT, "Composer::component_mul_point", [SELF, ("jubjub", sym("jubjub")), ("point", TF_A("point"))],
     c_component_mul_point, consts=dict(CONSTS, __decomposition_n=252))


# ------------------------------------------------------------------ subgroup check
def c_assert_torsion_free_gates(it, recv, a):
    point, q = a
    qw = c_append_affine_point(it, None, [q])
    qu, qv = px(qw), py(qw)
    u2 = c_gate("gate_mul")(it, None, [cons({"q_m": 1, "a": qu, "b": qu})])
    v2 = c_gate("gate_mul")(it, None, [cons({"q_m": 1, "a": qv, "b": qv})])
    u2v2 = c_gate("gate_mul")(it, None, [cons({"q_m": 1, "a": u2, "b": v2})])
    # Q on the curve:  -u^2 + v^2 - d u^2 v^2 - 1 = 0
    ev(it, "append_gate", cons({"q_l": -C(1), "a": u2, "q_r": 1, "b": v2, "q_o": -S("EDWARDS_D"), "c": u2v2, "q_c": -C(1)}))
    q2 = c_add_point_gates(it, None, [qw, qw])
    q4 = c_add_point_gates(it, None, [q2, q2])
    q8 = c_add_point_gates(it, None, [q4, q4])
    c_assert_equal_point(it, None, [point, q8])          # point == [8] Q
    return UNIT


unit("point.assert_torsion_free_gates", PT, "Composer::assert_torsion_free_gates", [SELF, ("point", WP_A("point")), ("q", sym("q"))],
     c_assert_torsion_free_gates, keys=["self.assert_torsion_free_gates"], consts=CONSTS)


def c_assert_torsion_free_point(it, recv, a):
    point = a[0]
    pv = VOpaque("affine", [val(px(point)), val(py(point))])
    on = VOpaque("is_on_curve", [pv])
    q = VOpaque("ite", [on, VOpaque("to_affine", [P(VOpaque("ext", [pv])) * S("EIGHT_INV")]), VOpaque("affine_identity")])
    c_assert_torsion_free_gates(it, None, [point, q])
    return tf(point)


unit("point.assert_torsion_free_point", PT, "Composer::assert_torsion_free_point", [SELF, ("point", WP_A("point"))],
     c_assert_torsion_free_point, consts=CONSTS)


# ------------------------------------------------------------------ fixed base
CONTRACTS["BlsScalar::from"] = lambda it, recv, a: C(a[0]) if isinstance(a[0], int) else VOpaque("BlsScalar::from", [a[0]])
CONTRACTS["JubJubScalar::one"] = lambda it, recv, a: VOpaque("JubJubScalar::one")


def c_assert_canonical_jubjub_scalar(it, recv, a):
    s = a[0]
    c_range_check_call(it, None, [s, 252])                                              # s < 2^252
    maxs = VOpaque("BlsScalar::from", [-P(VOpaque("JubJubScalar::one"))])      # r_jubjub - 1 as a BLS scalar
    dist = c_gate("gate_add")(it, None, [cons({"q_l": -C(1), "a": s, "q_c": maxs})])   # (r_j - 1) - s
    c_range_check_call(it, None, [dist, 252])                                           # ... also < 2^252, hence s <= r_j - 1
    return UNIT


unit("fixed_base.assert_canonical_jubjub_scalar", FB, "Composer::assert_canonical_jubjub_scalar", [SELF, ("scalar", sym("scalar"))],
     c_assert_canonical_jubjub_scalar, keys=["self.assert_canonical_jubjub_scalar"], consts=CONSTS)


# component_mul_generator: guard order and error mapping (C13/C14/C07 totality)
CONTRACTS["JubJubScalar::from_bytes"] = lambda it, recv, a: VOpaque("JubJubScalar::from_bytes", [a[0]])
CONTRACTS[".to_bytes"] = lambda it, recv, a: VOpaque("to_bytes", [recv])
CONTRACTS[".compute_windowed_naf"] = lambda it, recv, a: VOpaque("wnaf", [recv, a[0]])


def c_append_fixed_base_signed_digits_call(it, recv, a):
    return VOpaque("append_fixed_base_signed_digits", list(a))


def c_component_mul_generator(it, recv, a):
    k, g = a
    gen = VOpaque("into_ext", [g])
    # rejected unless Z != 0 AND on the curve AND of exact prime order -- tested in this order, so that is_on_curve is
    # never evaluated on a Z = 0 representation
    cond = VOpaque("or", [VOpaque("or", [VOpaque("eq", [VOpaque("get_z", [gen]), C(0)]), VOpaque("not", [VOpaque("is_on_curve", [gen])])]),
                          VOpaque("not", [VOpaque("is_prime_order", [gen])])])
    it.ctx.exits.append(("err_if", cond, "Error::JubJubGeneratorNotPrimeOrder"))
    sc = VOpaque("into_option", [VOpaque("JubJubScalar::from_bytes", [VOpaque("to_bytes", [val(k)])])])
    it.ctx.exits.append(("try", f"{canon(sc)} is None => Err(Error::JubJubScalarMalformed)"))
    s = VOpaque("some_of", [sc])
    digits = VOpaque("wnaf", [s, 2])
    return VOpaque("map_ok", [VOpaque("append_fixed_base_signed_digits", [k, gen, digits]), "TorsionFreeWitnessPoint::new_unchecked"])


unit("fixed_base.component_mul_generator", FB, "Composer::component_mul_generator", [SELF, ("jubjub", sym("jubjub")), ("generator", sym("generator"))],
     c_component_mul_generator, consts=CONSTS)

CONTRACTS["self.append_fixed_base_signed_digits"] = c_append_fixed_base_signed_digits_call
CONTRACTS[".map"] = lambda it, recv, a: VOpaque("map_ok", [recv, "TorsionFreeWitnessPoint::new_unchecked"]) if isinstance(recv, VOpaque) and recv.name == "append_fixed_base_signed_digits" else NotImplemented


# ------------------------------------------------------------------ append_fixed_base_signed_digits (trace-only: every composer operation)
def H(name, k=None):
    return VOpaque(f"havoc:{name}")


def idx(v, i):
    return VOpaque("idx", [v, i])


def dbl(p, n):
    """[2^n] p by n doublings (flattened: double(dbl(p, k)) == dbl(p, k + 1))"""
    return p if n == 0 else VOpaque("doubled", [p, n])


def c_point_double(it, recv, a):
    # doubling of a JubJub point (dependency operation): uninterpreted; scalars keep the ring meaning
    if isinstance(recv, Sym) and recv.path == "generator":
        return dbl(recv, 1)
    if isinstance(recv, VOpaque) and recv.name == "doubled":
        return dbl(recv.args[0], recv.args[1] + 1)
    return NotImplemented


def c_reverse(it, recv, a):
    if isinstance(recv, VArr):
        recv.items.reverse()
        return UNIT
    return NotImplemented


CONTRACTS[".reverse"] = c_reverse
CONTRACTS[".double"] = c_point_double
CONTRACTS["JubJubExtended::default"] = lambda it, recv, a: VOpaque("JubJubExtended::default")
CONTRACTS["dusk_jubjub::batch_normalize"] = lambda it, recv, a: VIter([VOpaque("normalize", [x]) for x in a[0].items]) if isinstance(a[0], VArr) else NotImplemented
# pure constructors of the dependency (uninterpreted)
FB_PURE = {"JubJubExtended::from_affine": lambda it, recv, a: VOpaque("JubJubExtended::from_affine", list(a)),
           "JubJubAffine::from_raw_unchecked": lambda it, recv, a: VOpaque("JubJubAffine::from_raw_unchecked", list(a))}


def c_fixed_base_digits(it, recv, a):
    k, gen, digits = a
    c_assert_canonical_jubjub_scalar(it, None, [k])                  # s is a canonical JubJub scalar (C14)
    pacc, sacc, xya = H("point_acc", 2), H("scalar_acc", 2), H("xy_alphas", 1)
    # the honest-witness pass over the digits is not modelled, but it can leave the function: Err(UnsupportedWNAF2k) for a digit
    # outside {-1, 0, 1} (the ONLY exit before the gates are appended)
    it.ctx.exits.append(("unmodelled_exit", "return+try", "xy_alphas"))
    # the table hard-wired into the selectors: round i (most significant digit first) uses normalize([2^(255-i)] generator),
    # every entry derived from the GENERATOR ITSELF by repeated doubling
    mult = VArr([VOpaque("normalize", [dbl(gen, 255 - i)]) for i in range(256)], "vec")
    leading = ZERO
    for i in range(256):
        ax = c_append_witness(it, None, [VOpaque("get_u", [idx(pacc, i)])])
        ay = c_append_witness(it, None, [VOpaque("get_v", [idx(pacc, i)])])
        ab = c_append_witness(it, None, [idx(sacc, i)])
        if i == 3:                                                   # 256 - (252 + 1) leading rounds carry no digit
            leading = ab
        if i == 0:                                                   # accumulators start at the identity (0, 1) and at 0
            ev(it, "assert_equal_constant", ax, C(0), VOpaque("None"))
            ev(it, "assert_equal_constant", ay, C(1), VOpaque("None"))
            ev(it, "assert_equal_constant", ab, C(0), VOpaque("None"))
        xb = P(VOpaque("get_u", [mult.items[i]]))
        yb = P(VOpaque("get_v", [mult.items[i]]))
        xy = c_append_witness(it, None, [idx(xya, i)])
        ev(it, "append_custom_gate", cons({"sel": VOpaque("sel:fixed_base"), "q_l": xb, "q_r": yb, "q_c": xb * yb,
                                           "a": ax, "b": ay, "c": xy, "d": ab}))
    ax = c_append_witness(it, None, [VOpaque("get_u", [idx(pacc, 256)])])
    ay = c_append_witness(it, None, [VOpaque("get_v", [idx(pacc, 256)])])
    last = c_append_witness(it, None, [idx(sacc, 256)])
    ev(it, "append_gate", cons({"a": ax, "b": ay, "d": last}))        # carrier row read as next-row wires by round 255
    ev(it, "assert_equal_constant", leading, C(0), VOpaque("None"))  # the leading block is pinned to zero
    ev(it, "assert_equal", last, k)                                  # the digit sum IS the scalar witness
    return VOk(wp(ax, ay))


CONSTS["None"] = VOpaque("None")
unit("fixed_base.append_fixed_base_signed_digits", FB, "Composer::append_fixed_base_signed_digits",
     [SELF, ("jubjub", sym("jubjub")), ("generator", sym("generator")), ("signed_digits", sym("signed_digits"))],
     c_fixed_base_digits, consts=dict(CONSTS, FIXED_BASE_SIGNED_DIGIT_ROUNDS=256, FIXED_BASE_LEADING_ZERO_ROUNDS=3),
     trace_only=True, tracked=("self",)).extra_contracts = FB_PURE


# ------------------------------------------------------------------ component_decomposition::<N> (instances)
CONTRACTS["BlsScalar::pow_of_2"] = lambda it, recv, a: VOpaque("pow_of_2", [a[0]])
CONTRACTS["assert"] = lambda it, recv, a: UNIT


def c_component_decomposition(n):
    def f(it, recv, a):
        """N boolean witnesses (the little-endian bits of the scalar), running sum acc_{i+1} = 2^i * bit_i + acc_i starting at 0,
        closing equality acc_N == scalar; returns the bit witnesses in little-endian order."""
        scalar = a[0]
        bits = VOpaque("to_bits", [val(scalar)])
        acc = ZERO
        out = []
        for i in range(n):
            wb = c_append_witness(it, None, [VOpaque("BlsScalar::from", [VOpaque("idx", [Sym(bits.canon()), i])])])
            ev(it, "component_boolean", wb)
            acc = c_gate("gate_add")(it, None, [cons({"q_l": VOpaque("pow_of_2", [i]), "q_r": 1, "a": wb, "b": acc})])
            out.append(wb)
        ev(it, "assert_equal", acc, scalar)
        return VArr(out, "array")
    return f


BITS = "src/composer/bits.rs"
for n in (1, 2, 8, 252, 256):
    unit(f"bits.component_decomposition[{n}]", BITS, "Composer::component_decomposition", [SELF, ("scalar", sym("scalar"))],
         c_component_decomposition(n), consts=dict(CONSTS, N=n))


# ------------------------------------------------------------------ range gadget, per WIDTH (instances; all witness values symbolic)
# Backstop for the Verus units of src/composer/range.rs (which hold for all widths but depend on textual anchors): the real
# function is executed for a concrete width and must emit exactly the documented base-4 layout.
RG = "src/composer/range.rs"
BITS_MSB_FIRST = [Sym(f"bit{255 - i}") for i in range(256)]


def c_set_witness(it, recv, a):
    from vlib.ring import _deref
    c = _deref(recv)
    wire = {"WiredWitness::A": "a", "WiredWitness::B": "b", "WiredWitness::C": "c", "WiredWitness::D": "d"}[canon(a[0])]
    c.fields[wire] = _deref(a[1])
    return UNIT


RANGE_CON = {
    "Constraint::range": c_internal("range"),
    ".set_witness": c_set_witness,
    # ASSUMED (bit_iterator.rs, own tests): BitIterator8 over the little-endian bytes yields the 256 bits most significant first
    "BitIterator8::new": lambda it, recv, a: VIter(list(BITS_MSB_FIRST)),
    ".collect": lambda it, recv, a: VArr(list(recv.items), "vec") if isinstance(recv, VIter) else NotImplemented,
    "self[]": lambda it, recv, a: VOpaque("value_of", [a[0]]),
    # u64 -> field embedding of a small integer expression over bits (quad <= 3, a single bit): the identity on the polynomial
    "BlsScalar::from": lambda it, recv, a: a[0] if isinstance(a[0], int) else P(a[0]),
    "self.range_check_even": c_op("range_check_even"),
    "recompose_bits": lambda it, recv, a: VOpaque("recompose_bits", [a[1], a[2]]),
    "BlsScalar::pow_of_2": lambda it, recv, a: VOpaque("pow_of_2", [a[0]]),
}


def c_range_check_even(nb):
    def c(it, recv, a):
        """documented layout: ceil(nb/8) selected rows of four quads (wires D, C, B, A in chain order, unused leading positions on
        the zero witness), one unselected row carrying the last accumulator on D, closing equality with the checked witness;
        accumulator j is the base-4 prefix of the value's top j quads of the nb-bit window"""
        w = a[0]
        if nb == 0:
            ev(it, "append_gate", cons({"q_l": 1, "a": w}))
            return UNIT
        ng = (nb + 7) // 8
        nq = 4 * ng
        pad = 1 + nq - nb // 2
        acc = P(0)
        at = {}
        for i in range(pad, nq + 1):
            bi = (nq - i) * 2
            acc = acc * 4 + P(Sym(f"bit{bi}")) + P(Sym(f"bit{bi + 1}")) * 2
            at[i] = c_append_witness(it, None, [acc])
        pos = lambda i: at.get(i, ZERO)
        for t in range(ng):
            ev(it, "append_custom_gate", cons({"sel": VOpaque("sel:range"), "a": pos(4 * t + 3), "b": pos(4 * t + 2), "c": pos(4 * t + 1), "d": pos(4 * t)}))
        ev(it, "append_custom_gate", cons({"d": pos(nq)}))
        ev(it, "assert_equal", at[nq], w)
        return UNIT
    return c


import os as _os
_THOROUGH = _os.environ.get("VERIF_TIER") == "thorough"
for nb_ in (tuple(range(0, 257, 2)) if _THOROUGH else (0, 2, 4, 6, 8, 10, 12, 16, 18, 64, 250, 252, 254, 256)):
    u = unit(f"range.range_check_even[bits={nb_}]", RG, "Composer::range_check_even", [SELF, ("witness", sym("witness")), ("num_bits", (lambda nb_=nb_: nb_))],
             c_range_check_even(nb_), consts=dict(CONSTS))
    u.extra_contracts = RANGE_CON


def c_range_check(nb):
    def c(it, recv, a):
        """even widths: the base-4 chain; odd widths: value = lower + 2^(nb-1) * top with lower on nb-1 bits and top boolean"""
        v = a[0]
        if nb % 2 == 0:
            ev(it, "range_check_even", v, nb)
            return UNIT
        top = nb - 1
        lower = c_append_witness(it, None, [VOpaque("recompose_bits", [0, top])])
        ev(it, "range_check_even", lower, top)
        tb = c_append_witness(it, None, [P(VOpaque("idx", [VOpaque("to_bits", [VOpaque("value_of", [v])]), top]))])     # the top bit of the value
        ev(it, "component_boolean", tb)
        ev(it, "gate_add", cons({"q_l": 1, "q_r": VOpaque("pow_of_2", [top]), "a": lower, "b": tb}))
        rec = fresh_w(it)
        ev(it, "assert_equal", rec, v)
        return UNIT
    return c


for nb_ in (tuple(range(0, 257)) if _THOROUGH else (0, 1, 2, 3, 9, 64, 253, 254, 255, 256)):
    u = unit(f"range.range_check[bits={nb_}]", RG, "Composer::range_check", [SELF, ("value", sym("value")), ("num_bits", (lambda nb_=nb_: nb_))],
             c_range_check(nb_), consts=dict(CONSTS), trace_only=True, tracked=("self",))
    u.extra_contracts = RANGE_CON


# the two PUBLIC entry points: exactly one call of the internal check with the stated width, nothing else, on every call
def c_entry(kind, n):
    def c(it, recv, a):
        if kind == "bits":
            c_range_check_call(it, recv, [a[0], n])
        else:
            ev(it, "range_check_even", a[0], min(2 * n, 256))
        return UNIT
    return c


for n_ in (0, 1, 2, 8, 16, 255, 256):
    u = unit(f"range.component_range_bits[BITS={n_}]", RG, "Composer::component_range_bits", [SELF, ("witness", sym("witness"))], c_entry("bits", n_),
             consts=dict(CONSTS, BITS=n_))
    u.extra_contracts = RANGE_CON
for n_ in (0, 1, 4, 8, 128, 129, 200):
    u = unit(f"range.component_range[BIT_PAIRS={n_}]", RG, "Composer::component_range", [SELF, ("witness", sym("witness"))], c_entry("pairs", n_),
             consts=dict(CONSTS, BIT_PAIRS=n_))
    u.extra_contracts = RANGE_CON


# ------------------------------------------------------------------ truncation gadget, per width (instances): second opinion for truncate.py
TR = "src/composer/truncate.rs"
NEG1 = P(0) - 1


def rlow(nb):
    return VOpaque("recompose_bits", [0, nb])


def rhigh(nb):
    return VOpaque("recompose_bits", [nb, 256])


R_MINUS_1 = 0x73eda753299d7d483339d80809a1d80553bda402fffe5bfeffffffff00000000


def _const_bits(v):
    """to_bits() of a CONSTANT field element: its 256 little-endian bits, concretely (BlsScalar::to_bits, ASSUMED: bit i of the canonical value)"""
    from vlib.ring import _deref
    from vlib.poly import R_BLS
    v = _deref(v)
    if isinstance(v, (Poly, int)) and not P(v).vars():
        c = P(v).norm().get((), 0) % R_BLS
        return VArr([(c >> i) & 1 for i in range(256)], "array")
    return None


def _recompose_const(a):
    """recompose_bits(bits, lo, hi) on CONCRETE bits and bounds: the integer sum bits[i] * 2^(i - lo), lo <= i < hi (its loop: unit
    truncate_specs / Verus recompose_bits contract)"""
    b, lo, hi = a
    if isinstance(b, VArr) and isinstance(lo, int) and isinstance(hi, int) and all(isinstance(x, int) for x in b.items):
        return C(sum(int(b.items[i]) << (i - lo) for i in range(lo, hi)))
    return None


def _from_raw_const(a):
    """BlsScalar::from_raw(limbs) on concrete limbs: the value mod r (dusk-bls12_381 from_raw reduces; listed dependency fact)"""
    from vlib.poly import R_BLS
    l = a[0]
    if isinstance(l, VArr) and len(l.items) == 4 and all(isinstance(x, int) for x in l.items):
        return C(sum(int(x) << (64 * i) for i, x in enumerate(l.items)) % R_BLS)
    raise OutsideFragment("BlsScalar::from_raw on symbolic limbs")


TRUNC_CON = dict(RANGE_CON)
TRUNC_CON.update({
    "self.bind_truncation_split": c_op("bind_truncation_split"),
    "self.assert_canonical_truncation": c_op("assert_canonical_truncation"),
    ".to_bits": lambda it, recv, a: _const_bits(recv) or VOpaque("to_bits", [recv]),
    "recompose_bits": lambda it, recv, a: _recompose_const(a) or VOpaque("recompose_bits", [a[1], a[2]]),
    "BlsScalar::from_raw": lambda it, recv, a: _from_raw_const(a),
    ".invert": lambda it, recv, a: VOpaque("invert", [recv]),
    ".unwrap_or": lambda it, recv, a: VOpaque("havoc:diff_inverse") if isinstance(recv, VOpaque) and recv.name == "invert" else NotImplemented,
})
TRUNC_CON.pop("self.range_check_even", None)


def c_component_truncate(n):
    def c(it, recv, a):
        """low = the N low bits of the witness (fresh), low < 2^N, then the split binding (input, low, N); returns low"""
        w = a[0]
        low = c_append_witness(it, None, [rlow(n)])
        c_range_check_call(it, None, [low, n])
        ev(it, "bind_truncation_split", w, low, n)
        return low
    return c


def c_bind_truncation_split(nb):
    def c(it, recv, a):
        """high = the bits above nb (fresh), high < 2^(255-nb), input == 2^nb * high + low, and the canonical-split guard"""
        inp, low, _ = a
        high = c_append_witness(it, None, [rhigh(nb)])
        c_range_check_call(it, None, [high, 255 - nb])
        ev(it, "gate_add", cons({"q_l": VOpaque("pow_of_2", [nb]), "q_r": 1, "a": high, "b": low}))
        rec = fresh_w(it)
        ev(it, "assert_equal", rec, inp)
        ev(it, "assert_canonical_truncation", high, low, nb)
        return UNIT
    return c


def c_assert_canonical_truncation(nb):
    def c(it, recv, a):
        """with r - 1 = r_high * 2^nb + r_low:  diff = r_high - high in [0, 2^(255-nb));  is_top = [diff == 0] by the is-zero gadget
        (inverse witness, product, is_top = 1 - product, diff * is_top = 0);  guard = is_top * (r_low - low) in [0, 2^nb)"""
        high, low, _ = a
        # r - 1 = r_hi * 2^nb + r_lo as CONSTANTS (the code must arrive at these two field elements, however it computes them)
        r_lo, r_hi = C(R_MINUS_1 & ((1 << nb) - 1)), C(R_MINUS_1 >> nb)
        ev(it, "gate_add", cons({"q_l": NEG1, "a": high, "q_c": r_hi}))
        diff = fresh_w(it)
        c_range_check_call(it, None, [diff, 255 - nb])
        inv = c_append_witness(it, None, [VOpaque("havoc:diff_inverse")])
        ev(it, "gate_mul", cons({"q_m": 1, "a": diff, "b": inv}))
        prod = fresh_w(it)
        ev(it, "gate_add", cons({"q_l": NEG1, "a": prod, "q_c": 1}))
        is_top = fresh_w(it)
        ev(it, "append_gate", cons({"q_m": 1, "a": diff, "b": is_top}))
        ev(it, "gate_add", cons({"q_l": NEG1, "a": low, "q_c": r_lo}))
        rml = fresh_w(it)
        ev(it, "gate_mul", cons({"q_m": 1, "a": is_top, "b": rml}))
        guard = fresh_w(it)
        c_range_check_call(it, None, [guard, nb])
        return UNIT
    return c


_TW = tuple(range(0, 255)) if _THOROUGH else (0, 1, 2, 7, 8, 31, 32, 33, 64, 127, 128, 250, 251, 253, 254)
for nb_ in _TW:
    u = unit(f"truncate.component_truncate[N={nb_}]", TR, "Composer::component_truncate", [SELF, ("witness", sym("witness"))], c_component_truncate(nb_),
             consts=dict(CONSTS, N=nb_), trace_only=True, tracked=("self",))
    u.extra_contracts = TRUNC_CON
    u = unit(f"truncate.bind_truncation_split[bits={nb_}]", TR, "Composer::bind_truncation_split",
             [SELF, ("input", sym("input")), ("low", sym("low")), ("num_bits", (lambda nb_=nb_: nb_))], c_bind_truncation_split(nb_),
             consts=dict(CONSTS), trace_only=True, tracked=("self",))
    u.extra_contracts = TRUNC_CON
    u = unit(f"truncate.assert_canonical_truncation[bits={nb_}]", TR, "Composer::assert_canonical_truncation",
             [SELF, ("high", sym("high")), ("low", sym("low")), ("num_bits", (lambda nb_=nb_: nb_))], c_assert_canonical_truncation(nb_),
             consts=dict(CONSTS), trace_only=True, tracked=("self",))
    u.extra_contracts = TRUNC_CON


# ------------------------------------------------------------------ base gadgets of composer.rs / select.rs / bits.rs (C08): second opinion
CB = "src/composer.rs"
SL = "src/composer/select.rs"
BT = "src/composer/bits.rs"
M1 = P(0) - 1


def c_arith(it, recv, a):
    d = dict(a[0].fields)
    d["sel"] = VOpaque("sel:arith")
    return VStruct("Constraint", d)


BASE_CON = {"Constraint::arithmetic": c_arith, ".into": lambda it, recv, a: recv,
            # accessors of the Constraint value (constraint.rs units prove them for the real type)
            ".witness": lambda it, recv, a: recv.fields[{"WiredWitness::A": "a", "WiredWitness::B": "b", "WiredWitness::C": "c", "WiredWitness::D": "d"}[canon(a[0])]] if isinstance(recv, VStruct) else NotImplemented,
            ".coeff": lambda it, recv, a: recv.fields[{"Selector::Multiplication": "q_m", "Selector::Left": "q_l", "Selector::Right": "q_r", "Selector::Output": "q_o", "Selector::Fourth": "q_f", "Selector::Constant": "q_c", "Selector::PublicInput": "pi"}[canon(a[0])]] if isinstance(recv, VStruct) and canon(a[0]) in ("Selector::Multiplication", "Selector::Left", "Selector::Right", "Selector::Output", "Selector::Fourth", "Selector::Constant", "Selector::PublicInput") else NotImplemented,
            ".has_public_input": lambda it, recv, a: VOpaque("has_public_input", [recv.fields["pi"]]) if isinstance(recv, VStruct) else NotImplemented,
            "self.append_evaluated_output": lambda it, recv, a: (ev(it, "append_evaluated_output", a[0]), VOpaque("Some", [fresh_w(it)]))[1]}


def u_base(name, file, fn, params, contract, **kw):
    u = unit(name, file, fn, [SELF] + params, contract, consts=dict(CONSTS), **kw)
    u.extra_contracts = dict(BASE_CON)
    return u


u_base("base.assert_equal", CB, "Composer::assert_equal", [("a", sym("a")), ("b", sym("b"))],
       lambda it, recv, a: (ev(it, "append_gate", cons({"q_l": 1, "q_r": M1, "a": a[0], "b": a[1]})), UNIT)[1])
u_base("base.assert_equal_constant[None]", CB, "Composer::assert_equal_constant", [("a", sym("a")), ("constant", sym("k")), ("public", lambda: VOpaque("None"))],
       lambda it, recv, a: (ev(it, "append_gate", cons({"q_l": M1, "a": a[0], "q_c": a[1]})), UNIT)[1])
u_base("base.assert_equal_constant[Some]", CB, "Composer::assert_equal_constant", [("a", sym("a")), ("constant", sym("k")), ("public", lambda: VOpaque("Some", [Sym("p")]))],
       lambda it, recv, a: (ev(it, "append_gate", cons({"q_l": M1, "a": a[0], "q_c": a[1], "pi": Sym("p")})), UNIT)[1])


def c_base_append_public(it, recv, a):
    w = c_append_witness(it, None, [a[0]])
    ev(it, "append_gate", cons({"q_l": M1, "a": w, "pi": a[0]}))
    return w


u_base("base.append_public", CB, "Composer::append_public", [("public", sym("p"))], c_base_append_public)


def c_base_append_constant(it, recv, a):
    w = c_append_witness(it, None, [a[0]])
    ev(it, "assert_equal_constant", w, a[0], VOpaque("None"))
    return w


u_base("base.append_constant", CB, "Composer::append_constant", [("constant", sym("k"))], c_base_append_constant)


def c_gate_addmul(it, recv, a):
    """gate_add / gate_mul: the caller's constraint with the arithmetic selector on and q_O OVERRIDDEN to -1, evaluated and appended by
    append_evaluated_output; the fresh output witness is returned"""
    d = dict(a[0].fields)
    d["sel"] = VOpaque("sel:arith")
    d["q_o"] = M1
    ev(it, "append_evaluated_output", VStruct("Constraint", d))
    return fresh_w(it)


SC = lambda: cons({"q_m": Sym("s.q_m"), "q_l": Sym("s.q_l"), "q_r": Sym("s.q_r"), "q_o": Sym("s.q_o"), "q_f": Sym("s.q_f"), "q_c": Sym("s.q_c"),
                   "pi": Sym("s.pi"), "a": Sym("s.a"), "b": Sym("s.b"), "c": Sym("s.c"), "d": Sym("s.d")})
u_base("base.gate_add", CB, "Composer::gate_add", [("s", SC)], c_gate_addmul)
u_base("base.gate_mul", CB, "Composer::gate_mul", [("s", SC)], c_gate_addmul)
u_base("base.append_gate", CB, "Composer::append_gate", [("constraint", SC)],
       lambda it, recv, a: (ev(it, "append_custom_gate", c_arith(it, None, [a[0]])), UNIT)[1], trace_only=True, tracked=("self",))
u_base("base.component_boolean", BT, "Composer::component_boolean", [("a", sym("a"))],
       lambda it, recv, a: (ev(it, "append_gate", cons({"q_m": 1, "q_o": M1, "a": a[0], "b": a[0], "c": a[0], "d": ZERO})), UNIT)[1])


def c_select_one(it, recv, a):
    bit, v = a
    fx = c_append_witness(it, None, [P(1) - P(val(bit)) + P(val(bit)) * P(val(v))])
    ev(it, "append_gate", cons({"q_m": 1, "q_l": M1, "q_o": M1, "q_c": 1, "a": bit, "b": v, "c": fx}))
    return fx


u_base("base.component_select_one", SL, "Composer::component_select_one", [("bit", sym("bit")), ("value", sym("value"))], c_select_one)


def c_select_zero(it, recv, a):
    bit, v = a
    ev(it, "gate_mul", cons({"q_m": 1, "a": bit, "b": v}))
    return fresh_w(it)


u_base("base.component_select_zero", SL, "Composer::component_select_zero", [("bit", sym("bit")), ("value", sym("value"))], c_select_zero)


def c_select(it, recv, a):
    bit, x, y = a
    ev(it, "gate_mul", cons({"q_m": 1, "a": bit, "b": x}))
    t1 = fresh_w(it)
    ev(it, "gate_add", cons({"q_l": M1, "q_c": 1, "a": bit}))
    t2 = fresh_w(it)
    ev(it, "gate_mul", cons({"q_m": 1, "a": t2, "b": y}))
    t3 = fresh_w(it)
    ev(it, "gate_add", cons({"q_l": 1, "q_r": 1, "a": t3, "b": t1}))
    return fresh_w(it)


u_base("base.component_select", SL, "Composer::component_select", [("bit", sym("bit")), ("a", sym("a")), ("b", sym("b"))], c_select)


# ---- append_evaluated_output: the three ways of solving for the output wire, and the q_O == 0 case
SELF_ = {"Selector::Multiplication": "q_m", "Selector::Left": "q_l", "Selector::Right": "q_r", "Selector::Output": "q_o", "Selector::Fourth": "q_f",
         "Selector::Constant": "q_c", "Selector::PublicInput": "pi"}
WIRE_ = {"WiredWitness::A": "a", "WiredWitness::B": "b", "WiredWitness::C": "c", "WiredWitness::D": "d"}
MINUS_ONE_LIMBS = [0xfffffffd00000003, 0xfb38ec08fffb13fc, 0x99ad88181ce5880f, 0x5bc8f5f97cd877d8]


def c_raw_scalar(it, recv, a):
    """BlsScalar([l0..l3]) is the Montgomery representation; the one literal used here is checked to be -1 by exact integer arithmetic
    in the Verus unit (bigint obligation); R accepts exactly that literal"""
    if isinstance(a[0], VArr) and list(a[0].items) == MINUS_ONE_LIMBS:
        return M1
    raise OutsideFragment("raw-limb scalar literal other than the known MINUS_ONE")


def c_ct_invert(it, recv, a):
    y = recv
    if it.decide(VOpaque("eq", [y, 0])):
        return VOpaque("None")
    return VOpaque("Some", [Sym(f"inv({canon(P(y))})")])


AEO = dict(BASE_CON)
AEO.update({".witness": lambda it, recv, a: recv.fields[WIRE_[canon(a[0])]], ".coeff": lambda it, recv, a: recv.fields[SELF_[canon(a[0])]],
            "BlsScalar": c_raw_scalar, ".invert": c_ct_invert})
AEO.pop("self.append_evaluated_output")


def c_append_evaluated_output(it, recv, a):
    """x = q_M a b + q_L a + q_R b + q_F d + q_C + PI on the witness VALUES;  q_O == 1: c = -x;  q_O == -1: c = x;  other invertible q_O:
    c = x * (-1/q_O);  q_O == 0: no output.  When there is an output it is appended as a witness and wired as C; in every case
    exactly one arithmetic gate with the caller's selectors is appended; the output witness (or None) is returned."""
    s = a[0]
    f = s.fields
    va, vb, vd = P(val(f["a"])), P(val(f["b"])), P(val(f["d"]))
    x = P(f["q_m"]) * va * vb + P(f["q_l"]) * va + P(f["q_r"]) * vb + P(f["q_f"]) * vd + P(f["q_c"]) + P(f["pi"])
    y = f["q_o"]
    is1 = it.decided(canon(VOpaque("eq", [y, P(1)])))
    if is1 is None:
        raise OutsideFragment(f"append_evaluated_output: path does not decide q_O == 1 ({it.decided_keys})")
    out = None
    if is1:
        out = P(0) - x
    else:
        ism1 = it.decided(canon(VOpaque("eq", [y, M1])))
        if ism1 is None:
            raise OutsideFragment("append_evaluated_output: path does not decide q_O == -1")
        if ism1:
            out = x
        else:
            z = it.decided(canon(VOpaque("eq", [y, 0])))
            if z is None:
                raise OutsideFragment("append_evaluated_output: path does not decide q_O == 0")
            if not z:
                out = x * (P(0) - P(Sym(f"inv({canon(P(y))})")))
    d = dict(f)
    if out is None:
        ev(it, "append_gate", VStruct("Constraint", d))
        return VOpaque("None")
    w = c_append_witness(it, None, [out])
    d["c"] = w
    ev(it, "append_gate", VStruct("Constraint", d))
    return VOpaque("Some", [w])


u = unit("base.append_evaluated_output", CB, "Composer::append_evaluated_output", [SELF, ("s", SC)], c_append_evaluated_output,
         consts=dict(CONSTS), path_dependent=True)
u.extra_contracts = AEO

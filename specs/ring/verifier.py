"""Ring/trace units for the verifier: transcript protocol, verifier-key seeding, the linearisation commitment,
`Proof::verify` (V2/V3) and `Proof::verify_legacy` (V1), `Verifier::verify_with_version`.

The expected transcript and the expected verification equation below are written from the PLONK paper
(4-wire variant with the five custom gates) and the text of property C03, not from the code."""
from vlib.ring import (Unit, Sym, VArr, VTuple, VOpaque, VLabel, VStruct, VOk, VErr, UNIT, as_poly as P, sym, vec, msm,
                       OutsideFragment, canon)
from vlib.poly import Poly, S, C
import protocol as pr
import widgets as w

UNITS = []
CONTRACTS = dict(w.CONTRACTS)
CONSTS = dict(w.CONSTS)


HELPERS = ["src/transcript.rs", "src/util.rs", "src/proof_system/proof.rs", "src/compiler/verifier.rs", "src/compiler/prover.rs"]


def unit(name, file, fn, params, contract, outputs=None, keys=(), **kw):
    kw.setdefault("consts", CONSTS)
    u = Unit(name, file, fn, params, contract, outputs or w.ret, **kw)
    u.helper_files = HELPERS
    UNITS.append(u)
    for k in keys:
        CONTRACTS[k] = contract
    return u


def out_log(res, args, ctx):
    return {"transcript_log": list(ctx.log)}


def out_log_ret(res, args, ctx):
    return {"transcript_log": list(ctx.log), "result": res}


# ------------------------------------------------------------------ merlin (ASSUMED leaf API of the dependency)
def to_bytes(v):
    return VOpaque("to_bytes", [v])


def m_append_message(it, recv, a):
    it.ctx.event("append_message", canon(a[0]), canon(a[1]))
    return UNIT


def m_append_u64(it, recv, a):
    it.ctx.event("append_u64", canon(a[0]), canon(a[1]))
    return UNIT


def squeezed(it, label):
    return VOpaque("squeezed", [label, len(it.ctx.log)])


def m_challenge_bytes(it, recv, a):
    label, buf = a
    if not isinstance(buf, VArr):
        raise OutsideFragment("challenge_bytes into non-array")
    n = len(buf.items)
    v = squeezed(it, label)
    it.ctx.event("challenge_bytes", canon(label), n)
    buf.items[:] = [v]
    return UNIT


def m_new(it, recv, a):
    it.ctx.event("Transcript::new", canon(a[0]))
    return VOpaque("transcript")


for k, f in [(".append_message", m_append_message), (".append_u64", m_append_u64), (".challenge_bytes", m_challenge_bytes),
             ("Transcript::new", m_new)]:
    CONTRACTS[k] = f
CONTRACTS[".to_bytes"] = lambda it, recv, a: to_bytes(recv)
CONTRACTS["BlsScalar::from_bytes_wide"] = lambda it, recv, a: VOpaque("from_bytes_wide", [a[0]])
# `transcript_label_static(label)`: ASSUMED to return the same bytes with 'static lifetime (it lives in a cfg_if!).
CONTRACTS["transcript_label_static"] = lambda it, recv, a: a[0]

T = "src/transcript.rs"
TP = "<Transcript as TranscriptProtocol>::"


# ------------------------------------------------------------------ crate-level transcript protocol
def c_append_commitment(it, recv, a):
    label, comm = a
    it.ctx.event("append_message", canon(label), canon(to_bytes(Sym(comm.path + ".0") if isinstance(comm, Sym) else comm)))
    return UNIT


def c_append_scalar(it, recv, a):
    label, s = a
    it.ctx.event("append_message", canon(label), canon(to_bytes(s)))
    return UNIT


def c_challenge_scalar(it, recv, a):
    label = a[0]
    v = squeezed(it, label)
    it.ctx.event("challenge_bytes", canon(label), 64)
    return VOpaque("from_bytes_wide", [VArr([v])])


def c_domain_sep(it, recv, a):
    it.ctx.event("append_message", canon(VLabel("dom-sep")), canon(VLabel("circuit_size")))
    it.ctx.event("append_u64", canon(VLabel("n")), canon(a[0]))
    return UNIT


TR = lambda: VOpaque("transcript")
unit("transcript.append_commitment", T, TP + "append_commitment", [("self", TR), ("label", sym("label")), ("comm", sym("comm"))],
     c_append_commitment, out_log, keys=[".append_commitment"])
unit("transcript.append_scalar", T, TP + "append_scalar", [("self", TR), ("label", sym("label")), ("s", sym("s"))],
     c_append_scalar, out_log, keys=[".append_scalar"])
unit("transcript.challenge_scalar", T, TP + "challenge_scalar", [("self", TR), ("label", sym("label"))],
     c_challenge_scalar, out_log_ret, keys=[".challenge_scalar"])
unit("transcript.circuit_domain_sep", T, TP + "circuit_domain_sep", [("self", TR), ("n", sym("n"))],
     c_domain_sep, out_log, keys=[".circuit_domain_sep"])

VK_COMMITMENTS = [("q_m", "arithmetic.q_m"), ("q_l", "arithmetic.q_l"), ("q_r", "arithmetic.q_r"), ("q_o", "arithmetic.q_o"),
                  ("q_c", "arithmetic.q_c"), ("q_f", "arithmetic.q_f"), ("q_arith", "arithmetic.q_arith"),
                  ("q_range", "range.q_range"), ("q_logic", "logic.q_logic"),
                  ("q_variable_group_add", "variable_base.q_variable_group_add"),
                  ("q_fixed_group_add", "fixed_base.q_fixed_group_add"),
                  ("s_sigma_1", "permutation.s_sigma_1"), ("s_sigma_2", "permutation.s_sigma_2"),
                  ("s_sigma_3", "permutation.s_sigma_3")]


def seed_events(it, vk, bind_s_sigma_4):
    """every verifier-key commitment, then the circuit size.  V3 binds all four permutation commitments; the legacy
    seeding (V1/V2) repeats s_sigma_1 under the label s_sigma_4 (documented transcript weakness kept for
    compatibility)."""
    for label, path in VK_COMMITMENTS:
        c_append_commitment(it, None, [VLabel(label), Sym(f"{vk.path}.{path}")])
    last = "permutation.s_sigma_4" if bind_s_sigma_4 else "permutation.s_sigma_1"
    c_append_commitment(it, None, [VLabel("s_sigma_4"), Sym(f"{vk.path}.{last}")])
    c_domain_sep(it, None, [Sym(f"{vk.path}.n")])


def c_seed_inner(it, recv, a):
    seed_events(it, recv, a[1])
    return UNIT


WG = "src/proof_system/widget.rs"
for flag in (True, False):
    unit(f"widget.seed_transcript_inner[{str(flag).lower()}]", WG, "alloc::VerifierKey::seed_transcript_inner",
         [("self", sym("self")), ("transcript", TR), ("bind_s_sigma_4", (lambda f=flag: f))], c_seed_inner, out_log,
         keys=["self.seed_transcript_inner"] if flag else [])
unit("widget.seed_transcript", WG, "alloc::VerifierKey::seed_transcript", [("self", sym("self")), ("transcript", TR)],
     lambda it, recv, a: (seed_events(it, recv, True), UNIT)[1], out_log, keys=["verifier_key.seed_transcript"])
unit("widget.seed_transcript_legacy", WG, "alloc::VerifierKey::seed_transcript_legacy", [("self", sym("self")), ("transcript", TR)],
     lambda it, recv, a: (seed_events(it, recv, False), UNIT)[1], out_log, keys=["verifier_key.seed_transcript_legacy"])


def base_events(it, label, vk, constraints, v3):
    """label, circuit size (constraints), all verifier-key commitments, domain size"""
    it.ctx.event("Transcript::new", canon(label))
    c_domain_sep(it, None, [constraints])
    seed_events(it, vk, v3)
    return VOpaque("transcript")


unit("transcript.base", T, TP + "base", [("label", sym("label")), ("verifier_key", sym("verifier_key")), ("constraints", sym("constraints"))],
     lambda it, recv, a: base_events(it, a[0], a[1], a[2], False), out_log_ret, keys=["Transcript::base"])
unit("transcript.base_v3", T, TP + "base_v3", [("label", sym("label")), ("verifier_key", sym("verifier_key")), ("constraints", sym("constraints"))],
     lambda it, recv, a: base_events(it, a[0], a[1], a[2], True), out_log_ret, keys=["Transcript::base_v3"])


# ------------------------------------------------------------------ [D]: the linearisation commitment
PF = "src/proof_system/proof.rs"


def lin_terms(it, proof, scalars, points, alpha, beta, gamma, seps, z, z_h, u, l1, vk):
    """[D]_1 (with the u*[z] shifted-opening term folded in, as the paper does) as (scalar, point) pairs:
    five widgets, permutation, and -Z_H(z) * ([t_lo] + z^n [t_mid] + z^2n [t_hi] + z^3n [t_4])."""
    e = Sym(proof.path + ".evaluations")
    a3 = [None, scalars, points, e]
    sub = lambda name: Sym(f"{vk.path}.{name}")
    w.c_arith_vk(it, sub("arithmetic"), [scalars, points, e])
    w.c_range_vk(it, sub("range"), [seps[0], scalars, points, e])
    w.c_logic_vk(it, sub("logic"), [seps[1], scalars, points, e])
    w.c_fixed_vk(it, sub("fixed_base"), [seps[2], scalars, points, e])
    w.c_var_vk(it, sub("variable_base"), [seps[3], scalars, points, e])
    w.c_perm_vk(it, sub("permutation"), [scalars, points, e, z, u, VTuple([alpha, beta, gamma]), l1, Sym(proof.path + ".z_comm.0")])
    zh = P(z_h)
    zn = zh + 1                       # z^n = Z_H(z) + 1
    for k, t in enumerate(["t_low_comm", "t_mid_comm", "t_high_comm", "t_fourth_comm"]):
        scalars.items.append(-zh * zn ** k)
        points.items.append(P(Sym(f"{proof.path}.{t}.0")))


def c_lin_terms(it, recv, a):
    scalars, points, alpha, beta, gamma, seps, z, z_h, u, l1, vk = a
    lin_terms(it, recv, scalars, points, alpha, beta, gamma, seps.items, z, z_h, u, l1, vk)
    return UNIT


unit("proof.append_linearization_commitment_terms", PF, "alloc::Proof::append_linearization_commitment_terms",
     [("self", sym("self")), ("scalars", vec), ("points", vec), ("alpha", sym("alpha")), ("beta", sym("beta")), ("gamma", sym("gamma")),
      ("seps", w.T4(["range_sep", "logic_sep", "fixed_sep", "var_sep"])), ("z_challenge", sym("z_challenge")),
      ("z_h_eval", sym("z_h_eval")), ("u_challenge", sym("u_challenge")), ("l1_eval", sym("l1_eval")),
      ("verifier_key", sym("verifier_key"))],
     c_lin_terms, w.pushes(1, 2), keys=["self.append_linearization_commitment_terms"])

# ------------------------------------------------------------------ dependency / helper contracts used by verify
CONTRACTS["domain.evaluate_vanishing_polynomial"] = lambda it, recv, a: VOpaque("Z_H", [recv, a[0]])


def c_lagrange(it, recv, a):
    roots, pis, z, zh, domain = a
    # Err(ProofVerificationError) iff a denominator vanishes (z in the domain); else (L_1(z), PI(z)) -- the meaning of
    # the two values is the Verus unit C03.lagrange; here they are uninterpreted functions of exactly these arguments.
    return ("fallible", "lagrange_denominator_zero => Err(ProofVerificationError)",
            VTuple([VOpaque("L1", [z, zh, domain]), VOpaque("PI", [roots, pis, z, zh, domain])]))


CONTRACTS["compute_lagrange_and_barycentric_evaluations"] = c_lagrange
CONTRACTS["msm_variable_base"] = lambda it, recv, a: msm(a[1], a[0])


def c_batch_normalize(it, recv, a):
    src, dst = a
    if len(src.items) != len(dst.items):
        raise OutsideFragment("batch_normalize length mismatch")
    dst.items[:] = src.items       # same group elements, affine representation
    return UNIT


CONTRACTS["G1Projective::batch_normalize"] = c_batch_normalize
CONTRACTS["dusk_bls12_381::multi_miller_loop"] = lambda it, recv, a: VOpaque("multi_miller_loop", [a[0]])
CONTRACTS[".final_exponentiation"] = lambda it, recv, a: VOpaque("final_exponentiation", [recv])

EVAL_ABSORB_ORDER = ["a_eval", "b_eval", "c_eval", "d_eval", "s_sigma_1_eval", "s_sigma_2_eval", "s_sigma_3_eval", "z_eval",
                     "a_w_eval", "b_w_eval", "d_w_eval", "q_arith_eval", "q_c_eval", "q_l_eval", "q_r_eval"]


def proof_transcript(it, proof):
    """Fiat-Shamir schedule of rounds 1-5 on top of the seeded transcript.  Returns the challenges."""
    ch = {}
    cm = lambda n: c_append_commitment(it, None, [VLabel(n), Sym(f"{proof.path}.{n}")])
    sq = lambda n: P(c_challenge_scalar(it, None, [VLabel(n)]))
    for n in ["a_comm", "b_comm", "c_comm", "d_comm"]:
        cm(n)
    ch["beta"] = sq("beta")
    c_append_scalar(it, None, [VLabel("beta"), ch["beta"]])
    ch["gamma"] = sq("gamma")
    cm("z_comm")
    ch["alpha"] = sq("alpha")
    ch["range"] = sq("range separation challenge")
    ch["logic"] = sq("logic separation challenge")
    ch["fixed"] = sq("fixed base separation challenge")
    ch["var"] = sq("variable base separation challenge")
    for n in ["t_low_comm", "t_mid_comm", "t_high_comm", "t_fourth_comm"]:
        cm(n)
    ch["z"] = sq("z_challenge")
    for n in EVAL_ABSORB_ORDER:
        c_append_scalar(it, None, [VLabel(n), Sym(f"{proof.path}.evaluations.{n}")])
    ch["v"] = sq("v_challenge")
    ch["v_w"] = sq("v_w_challenge")
    cm("w_z_chall_comm")
    cm("w_z_chall_w_comm")
    ch["u"] = sq("u_challenge")
    return ch


def verification_equation(it, proof, vk, ok, domain, roots, pis, bind_selectors):
    """e(-(W_z + u W_zw), [x]_2) * e(z W_z + u z w W_zw + [F] - [E], [1]_2) == 1"""
    ch = proof_transcript(it, proof)
    e = w.evs(Sym(proof.path + ".evaluations"))
    z, u, v, vw = ch["z"], ch["u"], ch["v"], ch["v_w"]
    alpha, beta, gamma = ch["alpha"], ch["beta"], ch["gamma"]
    zh = VOpaque("Z_H", [domain, z])
    l1 = P(VOpaque("L1", [z, zh, domain]))
    pi = P(VOpaque("PI", [roots, pis, z, zh, domain]))
    it.ctx.exits.append(("try", "lagrange_denominator_zero => Err(ProofVerificationError)"))
    # r_0: constant part of the linearisation polynomial
    r0 = pi - l1 * alpha * alpha - alpha * (e["a_eval"] + beta * e["s_sigma_1_eval"] + gamma) \
        * (e["b_eval"] + beta * e["s_sigma_2_eval"] + gamma) * (e["c_eval"] + beta * e["s_sigma_3_eval"] + gamma) \
        * (e["d_eval"] + gamma) * e["z_eval"]
    # polynomials opened at z (after the linearisation polynomial, which has coefficient v^0) and at z*omega
    at_z = [("a_eval", f"{proof.path}.a_comm.0"), ("b_eval", f"{proof.path}.b_comm.0"), ("c_eval", f"{proof.path}.c_comm.0"),
            ("d_eval", f"{proof.path}.d_comm.0"), ("s_sigma_1_eval", f"{vk.path}.permutation.s_sigma_1.0"),
            ("s_sigma_2_eval", f"{vk.path}.permutation.s_sigma_2.0"), ("s_sigma_3_eval", f"{vk.path}.permutation.s_sigma_3.0")]
    if bind_selectors:
        at_z += [("q_arith_eval", f"{vk.path}.arithmetic.q_arith.0"), ("q_c_eval", f"{vk.path}.arithmetic.q_c.0"),
                 ("q_l_eval", f"{vk.path}.arithmetic.q_l.0"), ("q_r_eval", f"{vk.path}.arithmetic.q_r.0")]
    at_zw = [("a_w_eval", f"{proof.path}.a_comm.0"), ("b_w_eval", f"{proof.path}.b_comm.0"), ("d_w_eval", f"{proof.path}.d_comm.0")]
    # [D]
    sc, pt = VArr([], "vec"), VArr([], "vec")
    lin_terms(it, proof, sc, pt, alpha, beta, gamma, [ch["range"], ch["logic"], ch["fixed"], ch["var"]], z, zh, u, l1, vk)
    F = msm(sc, pt)
    E = -r0 + u * e["z_eval"]          # z(X) opened at z*omega with coefficient u (v_w^0)
    for i, (ev, cpath) in enumerate(at_z):
        F = F + v ** (i + 1) * S(cpath)
        E = E + v ** (i + 1) * e[ev]
    for j, (ev, cpath) in enumerate(at_zw):
        F = F + u * vw ** (j + 1) * S(cpath)
        E = E + u * vw ** (j + 1) * e[ev]
    Wz, Wzw = S(f"{proof.path}.w_z_chall_comm.0"), S(f"{proof.path}.w_z_chall_w_comm.0")
    g = S(f"{ok.path}.g")
    omega = S(f"{domain.path}.group_gen")
    left = -(Wz + u * Wzw)
    right = z * Wz + u * z * omega * Wzw + F - E * g
    cond = VOpaque("ne", [VOpaque("final_exponentiation", [VOpaque("multi_miller_loop", [VArr([
        VTuple([left, Sym(f"{ok.path}.prepared_x_h")]), VTuple([right, Sym(f"{ok.path}.prepared_h")])])])]),
        VOpaque("Gt::identity")])
    it.ctx.exits.append(("err_if", cond, "Error::ProofVerificationError"))
    return VOk(UNIT)


def out_verify(res, args, ctx):
    return {"transcript_log": list(ctx.log), "exits": list(ctx.exits), "result": res}


VERIFY_PARAMS = [("self", sym("self")), ("verifier_key", sym("verifier_key")), ("transcript", TR), ("opening_key", sym("opening_key")),
                 ("domain", sym("domain")), ("public_input_roots", sym("public_input_roots")), ("pub_inputs", sym("pub_inputs"))]


def c_verify(it, recv, a):
    vk, _t, ok, domain, roots, pis = a
    return verification_equation(it, recv, vk, ok, domain, roots, pis, True)


def c_verify_legacy(it, recv, a):
    vk, _t, ok, domain, roots, pis = a
    # V1 (legacy): q_arith, q_c, q_l, q_r evaluations are NOT bound by an opening (known, documented weakness of V1)
    return verification_equation(it, recv, vk, ok, domain, roots, pis, False)


unit("proof.verify", PF, "alloc::Proof::verify", VERIFY_PARAMS, c_verify, out_verify, keys=["proof.verify"])
unit("proof.verify_legacy", PF, "alloc::Proof::verify_legacy", VERIFY_PARAMS, c_verify_legacy, out_verify,
     keys=["proof.verify_legacy"])

# ------------------------------------------------------------------ Verifier
VF = "src/compiler/verifier.rs"


def c_transcript_for_version(it, recv, a):
    ver = a[0].name
    if ver in ("PlonkVersion::V1", "PlonkVersion::V2"):
        # the transcript stored by Verifier::new == Transcript::base(label, vk, constraints) (struct invariant, unit
        # verifier.new); cloning it yields that transcript
        it.ctx.event("clone_of", f"{recv.path}.transcript")
        return VOpaque("transcript")
    return base_events(it, Sym(recv.path + ".label"), Sym(recv.path + ".verifier_key"), Sym(recv.path + ".constraints"), True)


CONTRACTS[".as_slice"] = lambda it, recv, a: recv
CONTRACTS[".clone"] = lambda it, recv, a: (it.ctx.event("clone_of", recv.path), VOpaque("transcript"))[1] if isinstance(recv, Sym) and recv.path.endswith(".transcript") else recv

for ver in ("V1", "V2", "V3"):
    unit(f"verifier.transcript_for_version[{ver}]", VF, "Verifier::transcript_for_version",
         [("self", sym("self")), ("version", (lambda v=ver: VOpaque("PlonkVersion::" + v)))], c_transcript_for_version, out_log_ret,
         keys=["self.transcript_for_version"] if ver == "V3" else [])


def c_verify_with_version(it, recv, a):
    proof, pis, version = a
    n_pi = VOpaque("len", [pis])
    n_idx = VOpaque("len", [Sym(recv.path + ".public_input_indexes")])
    it.ctx.exits.append(("err_if", VOpaque("ne", [n_pi, n_idx]),
                         canon(VStruct("InconsistentPublicInputsLen", {"expected": n_idx, "provided": n_pi}))))
    c_transcript_for_version(it, recv, [version])
    # every public input, in order, directly after the seeded transcript
    it.ctx.event("for_each_in_order", pis.path, (("append_message", canon(VLabel("pi")), canon(to_bytes(Sym(pis.path + "[*]")))),))
    f = c_verify_legacy if version.name == "PlonkVersion::V1" else c_verify
    return f(it, proof, [Sym(recv.path + ".verifier_key"), None, Sym(recv.path + ".opening_key"), Sym(recv.path + ".domain"),
                         Sym(recv.path + ".public_input_roots"), pis])


for ver in ("V1", "V2", "V3"):
    unit(f"verifier.verify_with_version[{ver}]", VF, "Verifier::verify_with_version",
         [("self", sym("self")), ("proof", sym("proof")), ("public_inputs", sym("public_inputs")),
          ("version", (lambda v=ver: VOpaque("PlonkVersion::" + v)))], c_verify_with_version, out_verify)


# ------------------------------------------------------------------ transcript_label_static (std variant, inside cfg_if!)
def c_label_static(it, recv, a):
    """Returns a 'static slice with EXACTLY the bytes of `label`: either the cached slice stored under the key `label`
    (cache invariant: every entry was inserted as (k, leak(k)), see the insert event below) or a fresh leak of a copy of
    `label`, which is then cached under the key `label`."""
    label = a[0]
    cache = VOpaque("havoc:map")
    it.ctx.exits.append(("return_if_some", VOpaque("get", [cache, label]), VOpaque("some_of", [VOpaque("get", [cache, label])])))
    it.ctx.event("cache.insert", canon(label), canon(label))
    return label


def out_all(res, args, ctx):
    return {"effects": list(ctx.log), "exits": list(ctx.exits), "result": res}


LS_CONTRACTS = {
    "Box::leak": lambda it, recv, a: a[0],                     # same bytes, 'static lifetime
    ".to_vec": lambda it, recv, a: recv,                       # same bytes
    ".into_boxed_slice": lambda it, recv, a: recv,             # same bytes
    ".insert": lambda it, recv, a: (it.ctx.event("cache.insert", canon(a[0]), canon(a[1])), UNIT)[1],
}
u = unit("transcript.transcript_label_static", T, "transcript_label_static", [("label", sym("label"))], c_label_static, out_all,
         trace_only=True, tracked=("label", "leaked", "cached"))
u.extra_contracts = LS_CONTRACTS
u.memo = False          # this unit's contract IS the contract of the label cache (the store is modelled explicitly)


# ------------------------------------------------------------------ Verifier::new
CONTRACTS["EvaluationDomain::new"] = lambda it, recv, a: ("fallible", "EvaluationDomain::new => Err(InvalidEvalDomainSize)", VOpaque("domain_of", [a[0]]))
CONTRACTS[".pow"] = lambda it, recv, a: VOpaque("pow", [recv, a[0]])


def c_verifier_new(it, recv, a):
    """domain = EvaluationDomain::new(vk.n); one precomputed root omega^{-idx} per public-input row, in the given order;
    the stored transcript is Transcript::base(label, vk, constraints)."""
    label, vk, ok, idxs, size, constraints = a
    it.ctx.exits.append(("try", "EvaluationDomain::new => Err(InvalidEvalDomainSize)"))
    domain = VOpaque("domain_of", [Sym(vk.path + ".n")])
    ginv = Sym(domain.canon() + ".group_gen_inv")
    root = VOpaque("pow", [ginv, VArr([Sym(idxs.path + "[*]"), 0, 0, 0], "array")])
    roots = VOpaque("collected", [Sym(VOpaque("map_each", [idxs, root]).canon())])
    tr = base_events(it, label, vk, constraints, False)
    return VOk(VStruct("Verifier", {"label": label, "verifier_key": vk, "opening_key": ok, "public_input_indexes": idxs,
                                "public_input_roots": roots, "domain": domain, "transcript": tr, "size": size, "constraints": constraints}))


unit("verifier.new", VF, "Verifier::new",
     [("label", sym("label")), ("verifier_key", sym("verifier_key")), ("opening_key", sym("opening_key")),
      ("public_input_indexes", sym("public_input_indexes")), ("size", sym("size")), ("constraints", sym("constraints"))],
     c_verifier_new, out_verify)

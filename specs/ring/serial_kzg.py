"""Ring/trace units for the byte codecs of the KZG / FFT layer (C16 framing, C17 decoder exits): OpeningKey, EvaluationDomain,
Polynomial, CommitKey, PublicParameters.  Same format-contract style as serial.py: an encoder is the ordered list of sections it writes, a
decoder is the ordered list of typed reads, its exits and the constructor the parts go to."""
from vlib.ring import (Unit, Sym, VArr, VTuple, VOpaque, VStruct, VOk, VErr, UNIT, as_poly as P, sym, OutsideFragment, canon, VSymIter)
from vlib.poly import Poly, S, C
import serial as sr

UNITS = []
CONTRACTS = dict(sr.CONTRACTS)
LEMMAS = []
KEY = "src/commitment_scheme/kzg10/key.rs"
SRS = "src/commitment_scheme/kzg10/srs.rs"
DOM = "src/fft/domain.rs"
POLY = "src/fft/polynomial.rs"
SZ = {"G1Affine::SIZE": 48, "G2Affine::SIZE": 96, "G1Affine::RAW_SIZE": 97, "BlsScalar::SIZE": 32, "u64::SIZE": 8, "OpeningKey::SIZE": 240}


def unit(name, file, fn, params, contract, outputs, **kw):
    kw.setdefault("consts", SZ)
    u = Unit(name, file, fn, params, contract, outputs, **kw)
    UNITS.append(u)
    return u


def out_r(res, args, ctx):
    return {"reads": list(ctx.log), "exits": list(ctx.exits), "result": res}


def out_x(res, args, ctx):
    return {"exits": list(ctx.exits), "result": res}


# ------------------------------------------------------------------ fixed formats: OpeningKey (g, h, x_h), EvaluationDomain (7 fields)
def fixed(type_name, file, impl, fields, wrap):
    def c_to_bytes(it, recv, a):
        for f, _t in fields:
            it.ctx.event("write", VOpaque("to_bytes", [Sym(recv.path + "." + f)]))
        return VOpaque("havoc:buf")

    def c_from_bytes(it, recv, a):
        reads = []
        for k, (f, t) in enumerate(fields):
            it.ctx.event("read", k, t)
            it.ctx.exits.append(("try", f"read {k} ({t}) fails => Err"))
            reads.append(VOpaque("read", [k, t]))
        return wrap(it, reads)

    unit(f"serial.{type_name}.to_bytes", file, impl + "::to_bytes", [("self", sym("self"))], c_to_bytes, sr.out_w, trace_only=True, tracked=("writer",))
    return unit(f"serial.{type_name}.from_bytes", file, impl + "::from_bytes", [("buf", sym("buf"))], c_from_bytes, out_r)


def wrap_opening_key(it, reads):
    # the function's result IS the result of try_new on the three decoded points (its validity rules: unit kzg.OpeningKey.try_new)
    return ("fallible", "OpeningKey::try_new fails => Err(InvalidData)", VOpaque("OpeningKey::try_new", reads))


u = fixed("OpeningKey", KEY, "<OpeningKey as Serializable<{G1Affine::SIZE+G2Affine::SIZE*2}>>",
          [("g", "G1Affine"), ("h", "G2Affine"), ("x_h", "G2Affine")], wrap_opening_key)
u.extra_contracts = {"Self::try_new": lambda it, recv, a: ("fallible", "OpeningKey::try_new fails => Err(InvalidData)", VOpaque("OpeningKey::try_new", list(a)))}

DOMF = [("size", "u64"), ("log_size_of_group", "u32"), ("size_as_field_element", "BlsScalar"), ("size_inv", "BlsScalar"),
        ("group_gen", "BlsScalar"), ("group_gen_inv", "BlsScalar"), ("generator_inv", "BlsScalar")]
fixed("EvaluationDomain", DOM, "<EvaluationDomain as Serializable<{u64::SIZE+u32::SIZE+5*BlsScalar::SIZE}>>", DOMF,
      lambda it, reads: VOk(VStruct("EvaluationDomain", {f: r for (f, _t), r in zip(DOMF, reads)})))


# ------------------------------------------------------------------ OpeningKey::try_new: the three validity conjunctions, then the prepared points
def c_try_new(it, recv, a):
    """InvalidData unless each of g, h, x_h is on the curve, in the prime-order subgroup and NOT the identity; the prepared G2 points are
    derived from exactly the accepted h and x_h"""
    g, h, xh = a

    def valid(p):
        return VOpaque("and", [VOpaque("and", [VOpaque("is_on_curve", [p]), VOpaque("is_torsion_free", [p])]), VOpaque("not", [VOpaque("is_identity", [p])])])
    ok = VOpaque("and", [VOpaque("and", [valid(g), valid(h)]), valid(xh)])
    it.ctx.exits.append(("err_if", VOpaque("not", [ok]), "Error::InvalidData"))
    return VOk(VStruct("OpeningKey", {"g": g, "h": h, "x_h": xh, "prepared_h": VOpaque("G2Prepared::from", [h]), "prepared_x_h": VOpaque("G2Prepared::from", [xh])}))


u = unit("kzg.OpeningKey.try_new", KEY, "OpeningKey::try_new", [("g", sym("g")), ("h", sym("h")), ("x_h", sym("x_h"))], c_try_new, out_x)
u.extra_contracts = {
    ".is_on_curve": lambda it, recv, a: VOpaque("is_on_curve", [recv]),
    ".is_torsion_free": lambda it, recv, a: VOpaque("is_torsion_free", [recv]),
    ".is_identity": lambda it, recv, a: VOpaque("is_identity", [recv]),
    "bool::from": lambda it, recv, a: a[0],
    "G2Prepared::from": lambda it, recv, a: VOpaque("G2Prepared::from", [a[0]]),
}


# ------------------------------------------------------------------ Polynomial::from_slice / CommitKey::from_slice: every chunk through the canonical decoder
def chunk_decoder(chunk, dec, kind="chunks"):
    def c(it, recv, a):
        """every `chunk`-byte piece of the input (a short last piece included) goes through the type's checked decoder, in order; the first
        failure is the function's error; nothing else is read"""
        b = a[0]
        chunks = Sym(VOpaque(kind, [b, chunk]).canon())
        m = Sym(VOpaque("map_each", [chunks, VOpaque(dec, [Sym(chunks.path + "[*]")])]).canon())
        it.ctx.exits.append(("try", canon(VOpaque("collected", [m]))))
        return VOpaque("ok_of", [VOpaque("collected", [m])])
    return c


def c_poly_from_slice(it, recv, a):
    v = chunk_decoder(32, "BlsScalar::from_slice")(it, recv, a)
    return VOk(VStruct("Polynomial", {"coeffs": VOpaque("leading_zeros_truncated", [v])}))


u = unit("serial.Polynomial.from_slice", POLY, "Polynomial::from_slice", [("bytes", sym("bytes"))], c_poly_from_slice, out_x)
def c_truncate(it, recv, a):
    """Polynomial::truncate_leading_zeros (unit kernels.truncate_leading_zeros): pops the zero coefficients off the top"""
    recv.fields["coeffs"] = VOpaque("leading_zeros_truncated", [recv.fields["coeffs"]])
    return UNIT


u.extra_contracts = {"BlsScalar::from_slice": lambda it, recv, a: VOpaque("BlsScalar::from_slice", list(a)), ".truncate_leading_zeros": c_truncate}


def c_ck_from_slice(it, recv, a):
    v = chunk_decoder(48, "G1Affine::from_slice")(it, recv, a)
    return VOk(VStruct("CommitKey", {"powers_of_g": v}))


u = unit("serial.CommitKey.from_slice", KEY, "CommitKey::from_slice", [("bytes", sym("bytes"))], c_ck_from_slice, out_x)
u.extra_contracts = {"G1Affine::from_slice": lambda it, recv, a: VOpaque("G1Affine::from_slice", list(a))}


# ------------------------------------------------------------------ PublicParameters::from_slice
def c_pp_from_slice(it, recv, a):
    """NotEnoughBytes unless more than OpeningKey::SIZE bytes are present (so the commit key is never empty); the opening key is read with its
    checked decoder from the first 240 bytes, ALL remaining bytes go to CommitKey::from_slice"""
    b = a[0]
    X = it.ctx.exits
    X.append(("err_if", VOpaque("le", [VOpaque("len", [b]), 240]), "Error::NotEnoughBytes"))
    it.ctx.event("read", 0, "OpeningKey")
    X.append(("try", "read 0 (OpeningKey) fails => Err"))
    X.append(("try", "CommitKey::from_slice fails => Err"))
    return VOk(VStruct("PublicParameters", {"commit_key": VOpaque("CommitKey::from_slice", [VOpaque("rest_after_reads", [b])]),
                                            "opening_key": VOpaque("read", [0, "OpeningKey"])}))


u = unit("serial.PublicParameters.from_slice", SRS, "PublicParameters::from_slice", [("bytes", sym("bytes"))], c_pp_from_slice, out_r)
u.extra_contracts = {"CommitKey::from_slice": lambda it, recv, a: ("fallible", "CommitKey::from_slice fails => Err",
                                                                    VOpaque("CommitKey::from_slice", [VOpaque("rest_after_reads", [Sym("bytes")]) if True else a[0]]))}


# ------------------------------------------------------------------ encoders
def c_ck_to_var_bytes(it, recv, a):
    """the compressed encodings of the powers, in order, back to back - nothing before, between or after them"""
    pw = Sym(recv.path + ".powers_of_g")
    return VOpaque("collected", [Sym(VOpaque("flat_map_each", [pw, VOpaque("to_bytes", [Sym(pw.path + "[*]")])]).canon())])


def out_res(res, args, ctx):
    return {"result": res, "exits": list(ctx.exits)}


u = unit("serial.CommitKey.to_var_bytes", KEY, "CommitKey::to_var_bytes", [("self", sym("self"))], c_ck_to_var_bytes, out_res)
u.extra_contracts = {".to_vec": lambda it, recv, a: recv}


def c_pp_to_var_bytes(it, recv, a):
    """opening key (fixed 240 bytes) first, then the commit key's encoding"""
    return VArr([Sym(canon(VOpaque("to_bytes", [Sym(recv.path + ".opening_key")]))), Sym(canon(VOpaque("CommitKey::to_var_bytes", [Sym(recv.path + ".commit_key")])))], "sections")


u = unit("serial.PublicParameters.to_var_bytes", SRS, "PublicParameters::to_var_bytes", [("self", sym("self"))], c_pp_to_var_bytes, out_res)
def _section(x):
    return Sym(x.base.path) if isinstance(x, VSymIter) else (Sym(canon(x)) if not isinstance(x, Sym) else x)


u.extra_contracts = {"commit_key.to_var_bytes": lambda it, recv, a: VOpaque("CommitKey::to_var_bytes", [recv]),
                     ".to_vec": lambda it, recv, a: VArr([_section(recv)], "sections"),
                     ".extend": lambda it, recv, a: (recv.items.append(_section(a[0])), UNIT)[1] if isinstance(recv, VArr) else NotImplemented}


def lemma_pp_framing():
    """Contract-level lemma: PublicParameters::from_slice reads the opening key from the first OpeningKey::SIZE = 240 bytes (the encoder's
    first section is `opening_key.to_bytes()`, a [u8; 240]) and hands ALL remaining bytes to CommitKey::from_slice (the encoder's second and
    last section is `commit_key.to_var_bytes()`); CommitKey::from_slice cuts 48-byte chunks and to_var_bytes emits one 48-byte to_bytes() per
    power: decode(encode(pp)) reads every item where it was written."""
    from vlib.ring import Interp, Ctx
    w = c_pp_to_var_bytes(Interp(Ctx(), CONTRACTS, SZ, "lemma"), Sym("self"), [])
    itr = Interp(Ctx(), CONTRACTS, SZ, "lemma")
    r = c_pp_from_slice(itr, None, [Sym("bytes")])
    ok = (len(w.items) == 2 and canon(w.items[0]) == "to_bytes(self.opening_key)" and itr.ctx.log and itr.ctx.log[0][:3] == ("read", 0, "OpeningKey")
          and canon(r.v.fields["commit_key"]) == "CommitKey::from_slice(rest_after_reads(bytes))" and SZ["OpeningKey::SIZE"] == 48 + 2 * 96)
    return [{"id": "lemma.pp_framing", "unit": "lemma.pp_framing", "kind": "lemma", "text": lemma_pp_framing.__doc__.split(":")[1][:200],
             "status": "discharged" if ok else "failed", "detail": None, "backend": "ringcheck"}]


LEMMAS.append(lemma_pp_framing)

"""Ring/trace units: the five custom-gate widgets and the permutation widget, prover side
(compute_quotient_i / compute_linearization) and verifier side (compute_linearization_commitment).
Contracts are stated with specs/ring/protocol.py."""
from vlib.ring import Unit, Sym, VArr, VTuple, as_poly as P, sym, vec, msm, OutsideFragment
from vlib.poly import Poly, S, C
import protocol as pr

W = "src/proof_system/widget/"


def fld(v, name):
    if isinstance(v, Sym):
        return P(Sym(f"{v.path}.{name}"))
    raise OutsideFragment(f"field {name} of non-symbolic value")


def evs(e):
    """the 15 evaluations carried by a proof, as ring variables rooted at `e`"""
    names = ["a_eval", "b_eval", "c_eval", "d_eval", "a_w_eval", "b_w_eval", "d_w_eval", "q_arith_eval",
             "q_c_eval", "q_l_eval", "q_r_eval", "s_sigma_1_eval", "s_sigma_2_eval", "s_sigma_3_eval", "z_eval"]
    return {n: fld(e, n) for n in names}


def ret(res, args, ctx):
    return {"result": res}


def pushes(si, pi):
    def f(res, args, ctx):
        sc, pt = args[si], args[pi]
        return {"n_scalars": len(sc.items), "n_points": len(pt.items), "msm": msm(sc, pt)}
    return f


def push(args, si, pi, scalar, point):
    args[si].items.append(scalar)
    args[pi].items.append(point)


UNITS = []
CONTRACTS = {}


def unit(name, file, fn, params, contract, outputs=ret, keys=(), **kw):
    u = Unit(name, file, fn, params, contract, outputs, **kw)
    UNITS.append(u)
    for k in keys:
        CONTRACTS[k] = contract
    return u


# ------------------------------------------------------------------ leaf helpers
def c_delta(it, recv, a):
    return pr.delta(P(a[0]))


unit("range.delta", W + "range/proverkey.rs", "delta", [("f", sym("f"))], c_delta, keys=["delta"])
unit("logic.delta", W + "logic/proverkey.rs", "delta", [("f", sym("f"))], c_delta)


def c_delta_xor_and(it, recv, a):
    return pr.logic_op_poly(P(a[0]), P(a[1]), P(a[2]), P(a[3]), P(a[4]))


unit("logic.delta_xor_and", W + "logic/proverkey.rs", "delta_xor_and",
     [(n, sym(n)) for n in ["a", "b", "w", "c", "q_c"]], c_delta_xor_and, keys=["delta_xor_and"])


def c_extract_bit(it, recv, a):
    return P(a[1]) - 2 * P(a[0])


def c_check_bit(it, recv, a):
    b = P(a[0])
    return b * (b - 1) * (b + 1)


FB = W + "ecc/scalar_mul/fixed_base/"
unit("fixed_base.extract_bit", FB + "proverkey.rs", "extract_bit", [("acc", sym("acc")), ("acc_w", sym("acc_w"))],
     c_extract_bit, keys=["extract_bit"])
unit("fixed_base.check_bit_consistency", FB + "proverkey.rs", "check_bit_consistency", [("bit", sym("bit"))],
     c_check_bit, keys=["check_bit_consistency"])

CONSTS = {"EDWARDS_D": S("EDWARDS_D"), "K1": S("K1"), "K2": S("K2"), "K3": S("K3")}


# ------------------------------------------------------------------ arithmetic
def sel(recv, name, which):
    """selector `name` of a prover key: which = 'i' -> evaluation at `index`, 'poly' -> the polynomial"""
    if which == "i":
        return P(Sym(f"{recv.path}.{name}.1[index]"))
    return P(Sym(f"{recv.path}.{name}.0"))


def c_arith_q(it, recv, a):
    _idx, ai, bi, ci, di = a
    q = lambda n: sel(recv, n, "i")
    return pr.arith_id(P(ai), P(bi), P(ci), P(di), q("q_m"), q("q_l"), q("q_r"), q("q_o"), q("q_f"), q("q_c")) * q("q_arith")


unit("arithmetic.compute_quotient_i", W + "arithmetic/proverkey.rs", "ProverKey::compute_quotient_i",
     [("self", sym("self")), ("index", sym("index"))] + [(n, sym(n)) for n in ["a_i", "b_i", "c_i", "d_i"]],
     c_arith_q, keys=["arithmetic.compute_quotient_i"], consts=CONSTS)


def c_arith_lin(it, recv, a):
    e = evs(a[0])
    q = lambda n: sel(recv, n, "poly")
    return pr.arith_id(e["a_eval"], e["b_eval"], e["c_eval"], e["d_eval"], q("q_m"), q("q_l"), q("q_r"), q("q_o"),
                       q("q_f"), q("q_c")) * e["q_arith_eval"]


unit("arithmetic.compute_linearization", W + "arithmetic/proverkey.rs", "ProverKey::compute_linearization",
     [("self", sym("self")), ("evaluations", sym("evaluations"))], c_arith_lin,
     keys=["arithmetic.compute_linearization"], consts=CONSTS)


def comm(recv, name):
    return P(Sym(f"{recv.path}.{name}.0"))


def c_arith_vk(it, recv, a):
    scalars, points, e_ = a
    e = evs(e_)
    qa = e["q_arith_eval"]
    # [D] contribution: (a b [q_M] + a [q_L] + b [q_R] + c [q_O] + d [q_F] + [q_C]) * q_arith(z)
    for s, n in [(e["a_eval"] * e["b_eval"], "q_m"), (e["a_eval"], "q_l"), (e["b_eval"], "q_r"),
                 (e["c_eval"], "q_o"), (e["d_eval"], "q_f"), (C(1), "q_c")]:
        scalars.items.append(s * qa)
        points.items.append(comm(recv, n))
    return None


VKP = lambda: [("self", sym("self")), ("sep", sym("sep")), ("scalars", vec), ("points", vec), ("evaluations", sym("evaluations"))]

unit("arithmetic.compute_linearization_commitment", W + "arithmetic/verifierkey.rs",
     "alloc::VerifierKey::compute_linearization_commitment",
     [("self", sym("self")), ("scalars", vec), ("points", vec), ("evaluations", sym("evaluations"))],
     c_arith_vk, outputs=pushes(1, 2), keys=["arithmetic.compute_linearization_commitment"], consts=CONSTS)


# ------------------------------------------------------------------ range
def range_ident(e, sep):
    return pr.range_id(e["a_eval"], e["b_eval"], e["c_eval"], e["d_eval"], e["d_w_eval"], sep * sep) * sep


def c_range_q(it, recv, a):
    _i, sep, ai, bi, ci, di, diw = a
    sep = P(sep)
    return pr.range_id(P(ai), P(bi), P(ci), P(di), P(diw), sep * sep) * sep * sel(recv, "q_range", "i")


unit("range.compute_quotient_i", W + "range/proverkey.rs", "ProverKey::compute_quotient_i",
     [("self", sym("self")), ("index", sym("index")), ("sep", sym("sep"))] + [(n, sym(n)) for n in ["a_i", "b_i", "c_i", "d_i", "d_i_w"]],
     c_range_q, keys=["range.compute_quotient_i"], consts=CONSTS)


def c_range_lin(it, recv, a):
    sep, e_ = a
    return range_ident(evs(e_), P(sep)) * sel(recv, "q_range", "poly")


unit("range.compute_linearization", W + "range/proverkey.rs", "ProverKey::compute_linearization",
     [("self", sym("self")), ("sep", sym("sep")), ("evaluations", sym("evaluations"))], c_range_lin,
     keys=["range.compute_linearization"], consts=CONSTS)


def c_range_vk(it, recv, a):
    sep, scalars, points, e_ = a
    push(a, 1, 2, range_ident(evs(e_), P(sep)), comm(recv, "q_range"))


unit("range.compute_linearization_commitment", W + "range/verifierkey.rs",
     "alloc::VerifierKey::compute_linearization_commitment", VKP(), c_range_vk, outputs=pushes(2, 3),
     keys=["range.compute_linearization_commitment"], consts=CONSTS)


# ------------------------------------------------------------------ logic
def logic_ident(e, sep):
    return pr.logic_id(e["a_eval"], e["a_w_eval"], e["b_eval"], e["b_w_eval"], e["c_eval"], e["d_eval"], e["d_w_eval"],
                       e["q_c_eval"], sep * sep) * sep


def c_logic_q(it, recv, a):
    _i, sep, ai, aiw, bi, biw, ci, di, diw = a
    sep = P(sep)
    return pr.logic_id(P(ai), P(aiw), P(bi), P(biw), P(ci), P(di), P(diw), sel(recv, "q_c", "i"), sep * sep) * sep \
        * sel(recv, "q_logic", "i")


unit("logic.compute_quotient_i", W + "logic/proverkey.rs", "ProverKey::compute_quotient_i",
     [("self", sym("self")), ("index", sym("index")), ("sep", sym("sep"))]
     + [(n, sym(n)) for n in ["a_i", "a_i_w", "b_i", "b_i_w", "c_i", "d_i", "d_i_w"]],
     c_logic_q, keys=["logic.compute_quotient_i"], consts=CONSTS)


def c_logic_lin(it, recv, a):
    sep, e_ = a
    return logic_ident(evs(e_), P(sep)) * sel(recv, "q_logic", "poly")


unit("logic.compute_linearization", W + "logic/proverkey.rs", "ProverKey::compute_linearization",
     [("self", sym("self")), ("sep", sym("sep")), ("evaluations", sym("evaluations"))], c_logic_lin,
     keys=["logic.compute_linearization"], consts=CONSTS)


def c_logic_vk(it, recv, a):
    sep, scalars, points, e_ = a
    push(a, 1, 2, logic_ident(evs(e_), P(sep)), comm(recv, "q_logic"))


unit("logic.compute_linearization_commitment", W + "logic/verifierkey.rs",
     "alloc::VerifierKey::compute_linearization_commitment", VKP(), c_logic_vk, outputs=pushes(2, 3),
     keys=["logic.compute_linearization_commitment"], consts=CONSTS)


# ------------------------------------------------------------------ fixed base
def fixed_ident(e, sep):
    return pr.fixed_id(e["a_eval"], e["a_w_eval"], e["b_eval"], e["b_w_eval"], e["c_eval"], e["d_eval"], e["d_w_eval"],
                       e["q_l_eval"], e["q_r_eval"], e["q_c_eval"], sep * sep) * sep


def c_fixed_q(it, recv, a):
    _i, sep, ai, aiw, bi, biw, ci, di, diw = a
    sep = P(sep)
    return pr.fixed_id(P(ai), P(aiw), P(bi), P(biw), P(ci), P(di), P(diw), sel(recv, "q_l", "i"), sel(recv, "q_r", "i"),
                       sel(recv, "q_c", "i"), sep * sep) * sep * sel(recv, "q_fixed_group_add", "i")


unit("fixed_base.compute_quotient_i", FB + "proverkey.rs", "ProverKey::compute_quotient_i",
     [("self", sym("self")), ("index", sym("index")), ("sep", sym("sep"))]
     + [(n, sym(n)) for n in ["a_i", "a_i_w", "b_i", "b_i_w", "c_i", "d_i", "d_i_w"]],
     c_fixed_q, keys=["fixed_base.compute_quotient_i"], consts=CONSTS)


def c_fixed_lin(it, recv, a):
    sep, e_ = a
    return fixed_ident(evs(e_), P(sep)) * sel(recv, "q_fixed_group_add", "poly")


unit("fixed_base.compute_linearization", FB + "proverkey.rs", "ProverKey::compute_linearization",
     [("self", sym("self")), ("sep", sym("sep")), ("evaluations", sym("evaluations"))], c_fixed_lin,
     keys=["fixed_base.compute_linearization"], consts=CONSTS)


def c_fixed_vk(it, recv, a):
    sep, scalars, points, e_ = a
    push(a, 1, 2, fixed_ident(evs(e_), P(sep)), comm(recv, "q_fixed_group_add"))


unit("fixed_base.compute_linearization_commitment", FB + "verifierkey.rs",
     "alloc::VerifierKey::compute_linearization_commitment", VKP(), c_fixed_vk, outputs=pushes(2, 3),
     keys=["fixed_base.compute_linearization_commitment"], consts=CONSTS)


# ------------------------------------------------------------------ variable base (curve addition)
CA = W + "ecc/curve_addition/"


def var_ident(e, sep):
    # wires: a=x1 b=y1 c=x2 d=y2 ; next row: a_w=x3 b_w=y3 d_w=x1*y2
    return pr.var_id(e["a_eval"], e["b_eval"], e["c_eval"], e["d_eval"], e["a_w_eval"], e["b_w_eval"], e["d_w_eval"],
                     sep * sep) * sep


def c_var_q(it, recv, a):
    _i, sep, ai, aiw, bi, biw, ci, di, diw = a
    sep = P(sep)
    return pr.var_id(P(ai), P(bi), P(ci), P(di), P(aiw), P(biw), P(diw), sep * sep) * sep \
        * sel(recv, "q_variable_group_add", "i")


unit("curve_addition.compute_quotient_i", CA + "proverkey.rs", "ProverKey::compute_quotient_i",
     [("self", sym("self")), ("index", sym("index")), ("sep", sym("sep"))]
     + [(n, sym(n)) for n in ["a_i", "a_i_w", "b_i", "b_i_w", "c_i", "d_i", "d_i_w"]],
     c_var_q, keys=["variable_base.compute_quotient_i"], consts=CONSTS)


def c_var_lin(it, recv, a):
    sep, e_ = a
    return var_ident(evs(e_), P(sep)) * sel(recv, "q_variable_group_add", "poly")


unit("curve_addition.compute_linearization", CA + "proverkey.rs", "ProverKey::compute_linearization",
     [("self", sym("self")), ("sep", sym("sep")), ("evaluations", sym("evaluations"))], c_var_lin,
     keys=["variable_base.compute_linearization"], consts=CONSTS)


def c_var_vk(it, recv, a):
    sep, scalars, points, e_ = a
    push(a, 1, 2, var_ident(evs(e_), P(sep)), comm(recv, "q_variable_group_add"))


unit("curve_addition.compute_linearization_commitment", CA + "verifierkey.rs",
     "alloc::VerifierKey::compute_linearization_commitment", VKP(), c_var_vk, outputs=pushes(2, 3),
     keys=["variable_base.compute_linearization_commitment"], consts=CONSTS)


# ------------------------------------------------------------------ permutation
PM = W + "permutation/"
WIRES = ["a_i", "b_i", "c_i", "d_i"]


def c_perm_ident_i(it, recv, a):
    _i, ai, bi, ci, di, zi, alpha, beta, gamma = a
    x = P(Sym(f"{recv.path}.linear_evaluations[index]"))
    return pr.perm_identity_term(P(ai), P(bi), P(ci), P(di), x, P(zi), P(alpha), P(beta), P(gamma))


unit("permutation.quotient_identity_i", PM + "proverkey.rs", "ProverKey::compute_quotient_identity_range_check_i",
     [("self", sym("self")), ("index", sym("index"))] + [(n, sym(n)) for n in WIRES + ["z_i", "alpha", "beta", "gamma"]],
     c_perm_ident_i, keys=["self.compute_quotient_identity_range_check_i"], consts=CONSTS)


def c_perm_copy_i(it, recv, a):
    _i, ai, bi, ci, di, ziw, alpha, beta, gamma = a
    s = lambda k: P(Sym(f"{recv.path}.s_sigma_{k}.1[index]"))
    return pr.perm_copy_term(P(ai), P(bi), P(ci), P(di), s(1), s(2), s(3), s(4), P(ziw), P(alpha), P(beta), P(gamma))


unit("permutation.quotient_copy_i", PM + "proverkey.rs", "ProverKey::compute_quotient_copy_range_check_i",
     [("self", sym("self")), ("index", sym("index"))] + [(n, sym(n)) for n in WIRES + ["z_i_w", "alpha", "beta", "gamma"]],
     c_perm_copy_i, keys=["self.compute_quotient_copy_range_check_i"], consts=CONSTS)


def c_perm_one_i(it, recv, a):
    return pr.perm_first_term(P(a[0]), P(a[1]))


unit("permutation.quotient_first_i", PM + "proverkey.rs", "ProverKey::compute_quotient_term_check_one_i",
     [("self", sym("self")), ("z_i", sym("z_i")), ("l1_alpha_sq", sym("l1_alpha_sq"))], c_perm_one_i,
     keys=["self.compute_quotient_term_check_one_i"], consts=CONSTS)


def c_perm_q(it, recv, a):
    _i, ai, bi, ci, di, zi, ziw, alpha, l1a, beta, gamma = a
    x = P(Sym(f"{recv.path}.linear_evaluations[index]"))
    s = lambda k: P(Sym(f"{recv.path}.s_sigma_{k}.1[index]"))
    A, B, Cc, Dd = P(ai), P(bi), P(ci), P(di)
    return (pr.perm_identity_term(A, B, Cc, Dd, x, P(zi), P(alpha), P(beta), P(gamma))
            + pr.perm_copy_term(A, B, Cc, Dd, s(1), s(2), s(3), s(4), P(ziw), P(alpha), P(beta), P(gamma))
            + pr.perm_first_term(P(zi), P(l1a)))


unit("permutation.compute_quotient_i", PM + "proverkey.rs", "ProverKey::compute_quotient_i",
     [("self", sym("self")), ("index", sym("index"))]
     + [(n, sym(n)) for n in WIRES + ["z_i", "z_i_w", "alpha", "l1_alpha_sq", "beta", "gamma"]],
     c_perm_q, keys=["permutation.compute_quotient_i"], consts=CONSTS)


def c_perm_lin_ident(it, recv, a):
    (ae, be, ce, de), z, (alpha, beta, gamma), zpoly = [x.items if isinstance(x, VTuple) else x for x in a]
    # alpha * prod(wire + beta k z + gamma) * z(X)
    return pr.perm_identity_term(P(ae), P(be), P(ce), P(de), P(z), P(zpoly), P(alpha), P(beta), P(gamma))


T4 = lambda names: (lambda: VTuple([Sym(n) for n in names]))

unit("permutation.linearizer_identity", PM + "proverkey.rs", "ProverKey::compute_linearizer_identity_range_check",
     [("self", sym("self")), ("evals", T4(["a_eval", "b_eval", "c_eval", "d_eval"])), ("z_challenge", sym("z_challenge")),
      ("abg", T4(["alpha", "beta", "gamma"])), ("z_poly", sym("z_poly"))],
     c_perm_lin_ident, keys=["self.compute_linearizer_identity_range_check"], consts=CONSTS)


def c_perm_lin_copy(it, recv, a):
    (ae, be, ce), z_eval, s1, s2, s3, (alpha, beta, gamma), s4poly = [x.items if isinstance(x, VTuple) else x for x in a]
    # -(a+βσ1+γ)(b+βσ2+γ)(c+βσ3+γ) β z(zω) α σ4(X)      [the d-wire factor is linearised: d + β σ4(X) + γ -> β σ4(X)]
    return -((P(ae) + P(beta) * P(s1) + P(gamma)) * (P(be) + P(beta) * P(s2) + P(gamma)) * (P(ce) + P(beta) * P(s3) + P(gamma))
             * P(beta) * P(z_eval) * P(alpha)) * P(s4poly)


unit("permutation.linearizer_copy", PM + "proverkey.rs", "ProverKey::compute_linearizer_copy_range_check",
     [("self", sym("self")), ("evals", T4(["a_eval", "b_eval", "c_eval"])), ("z_eval", sym("z_eval")),
      ("sigma_1_eval", sym("sigma_1_eval")), ("sigma_2_eval", sym("sigma_2_eval")), ("sigma_3_eval", sym("sigma_3_eval")),
      ("abg", T4(["alpha", "beta", "gamma"])), ("s_sigma_4_poly", sym("s_sigma_4_poly"))],
     c_perm_lin_copy, keys=["self.compute_linearizer_copy_range_check"], consts=CONSTS)


def c_perm_vk(it, recv, a):
    scalars, points, e_, z, u, abg, l1, z_comm = a
    alpha, beta, gamma = [P(x) for x in abg.items]
    e = evs(e_)
    z, u, l1 = P(z), P(u), P(l1)
    # z_comm: alpha*prod(wire + beta k z + gamma) + alpha^2 L1(z)   (+ u: the shifted opening of z, batched here)
    x = pr.perm_identity_term(e["a_eval"], e["b_eval"], e["c_eval"], e["d_eval"], z, C(1), alpha, beta, gamma)
    push(a, 0, 1, x + l1 * alpha * alpha + u, P(z_comm))
    y = -((e["a_eval"] + beta * e["s_sigma_1_eval"] + gamma) * (e["b_eval"] + beta * e["s_sigma_2_eval"] + gamma)
          * (e["c_eval"] + beta * e["s_sigma_3_eval"] + gamma) * beta * e["z_eval"] * alpha)
    push(a, 0, 1, y, comm(recv, "s_sigma_4"))


unit("permutation.compute_linearization_commitment", PM + "verifierkey.rs",
     "alloc::VerifierKey::compute_linearization_commitment",
     [("self", sym("self")), ("scalars", vec), ("points", vec), ("evaluations", sym("evaluations")),
      ("z_challenge", sym("z_challenge")), ("u_challenge", sym("u_challenge")), ("abg", T4(["alpha", "beta", "gamma"])),
      ("l1_eval", sym("l1_eval")), ("z_comm", sym("z_comm"))],
     c_perm_vk, outputs=pushes(1, 2), keys=["permutation.compute_linearization_commitment"], consts=CONSTS)


# ------------------------------------------------------------------ replay recipes (how to rebuild a counterexample on the real code)
WP = "crate::proof_system::widget::"
RECIPES = {
    "range.delta": dict(kind="scalar_fn", path=WP + "range::proverkey::delta", args=["f"]),
    "logic.delta": dict(kind="scalar_fn", path=WP + "logic::proverkey::delta", args=["f"]),
    "logic.delta_xor_and": dict(kind="scalar_fn", path=WP + "logic::proverkey::delta_xor_and", args=["&a", "&b", "&w", "&c", "&q_c"]),
    "fixed_base.extract_bit": dict(kind="scalar_fn", path=WP + "ecc::scalar_mul::fixed_base::proverkey::extract_bit", args=["&acc", "&acc_w"]),
    "fixed_base.check_bit_consistency": dict(kind="scalar_fn", path=WP + "ecc::scalar_mul::fixed_base::proverkey::check_bit_consistency", args=["bit"]),
    "arithmetic.compute_linearization_commitment": dict(kind="vk_widget", struct=WP + "arithmetic::VerifierKey",
        fields=["q_m", "q_l", "q_r", "q_o", "q_f", "q_c", "q_arith"], call_args=["scalars", "points", "evaluations"]),
    "range.compute_linearization_commitment": dict(kind="vk_widget", struct=WP + "range::VerifierKey", fields=["q_range"],
        call_args=["sep", "scalars", "points", "evaluations"]),
    "logic.compute_linearization_commitment": dict(kind="vk_widget", struct=WP + "logic::VerifierKey", fields=["q_c", "q_logic"],
        call_args=["sep", "scalars", "points", "evaluations"]),
    "fixed_base.compute_linearization_commitment": dict(kind="vk_widget", struct=WP + "ecc::scalar_mul::fixed_base::VerifierKey",
        fields=["q_l", "q_r", "q_fixed_group_add"], call_args=["sep", "scalars", "points", "evaluations"]),
    "curve_addition.compute_linearization_commitment": dict(kind="vk_widget", struct=WP + "ecc::curve_addition::VerifierKey",
        fields=["q_variable_group_add"], call_args=["sep", "scalars", "points", "evaluations"]),
    "arithmetic.compute_quotient_i": dict(kind="pk_quotient", struct=WP + "arithmetic::ProverKey",
        fields=["q_m", "q_l", "q_r", "q_o", "q_f", "q_c", "q_arith"], call_args=["a_i", "b_i", "c_i", "d_i"]),
    "range.compute_quotient_i": dict(kind="pk_quotient", struct=WP + "range::ProverKey", fields=["q_range"],
        call_args=["sep", "a_i", "b_i", "c_i", "d_i", "d_i_w"]),
    "logic.compute_quotient_i": dict(kind="pk_quotient", struct=WP + "logic::ProverKey", fields=["q_c", "q_logic"],
        call_args=["sep", "a_i", "a_i_w", "b_i", "b_i_w", "c_i", "d_i", "d_i_w"]),
    "fixed_base.compute_quotient_i": dict(kind="pk_quotient", struct=WP + "ecc::scalar_mul::fixed_base::ProverKey",
        fields=["q_l", "q_r", "q_c", "q_fixed_group_add"], call_args=["sep", "a_i", "a_i_w", "b_i", "b_i_w", "c_i", "d_i", "d_i_w"]),
    "curve_addition.compute_quotient_i": dict(kind="pk_quotient", struct=WP + "ecc::curve_addition::ProverKey",
        fields=["q_variable_group_add"], call_args=["sep", "a_i", "a_i_w", "b_i", "b_i_w", "c_i", "d_i", "d_i_w"]),
    "arithmetic.compute_linearization": dict(kind="pk_linearization", struct=WP + "arithmetic::ProverKey",
        fields=["q_m", "q_l", "q_r", "q_o", "q_f", "q_c", "q_arith"], call_args=["evaluations"]),
    "range.compute_linearization": dict(kind="pk_linearization", struct=WP + "range::ProverKey", fields=["q_range"], call_args=["sep", "evaluations"]),
    "logic.compute_linearization": dict(kind="pk_linearization", struct=WP + "logic::ProverKey", fields=["q_c", "q_logic"], call_args=["sep", "evaluations"]),
    "fixed_base.compute_linearization": dict(kind="pk_linearization", struct=WP + "ecc::scalar_mul::fixed_base::ProverKey",
        fields=["q_l", "q_r", "q_c", "q_fixed_group_add"], call_args=["sep", "evaluations"]),
    "curve_addition.compute_linearization": dict(kind="pk_linearization", struct=WP + "ecc::curve_addition::ProverKey",
        fields=["q_variable_group_add"], call_args=["sep", "evaluations"]),
}
for _u in UNITS:
    if _u.name in RECIPES:
        _u.replay = RECIPES[_u.name]

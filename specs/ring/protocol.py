"""Independent statement of the gate identities and of the verification equation (PLONK paper, TurboPLONK
custom gates as documented by the property list).  Written as polynomial expressions over symbols; nothing in
this file is derived from the code under verification.

Conventions: a,b,c,d = wire values on the row; aw,bw,dw = wire values on the NEXT row; sep = the per-widget
separation challenge; the widget's term in the quotient is  selector * sep * identity(kappa = sep^2).
"""
from vlib.poly import Poly, S, C

D = S("EDWARDS_D")          # twisted Edwards d of JubJub (a = -1)
K1, K2, K3 = S("K1"), S("K2"), S("K3")


def delta(f):
    """vanishes exactly on {0,1,2,3} (over a field)"""
    return f * (f - 1) * (f - 2) * (f - 3)


# ---- arithmetic:  q_M ab + q_L a + q_R b + q_O c + q_F d + q_C (+ PI)
def arith_id(a, b, c, d, qm, ql, qr, qo, qf, qc):
    return qm * a * b + ql * a + qr * b + qo * c + qf * d + qc


# ---- range: the four base-4 differences of the accumulator chain d -> c -> b -> a -> d_next are quads
def range_id(a, b, c, d, dw, kappa):
    return (delta(c - 4 * d) + delta(b - 4 * c) * kappa + delta(a - 4 * b) * kappa ** 2
            + delta(dw - 4 * a) * kappa ** 3)


# ---- logic: quads qa,qb,qd of the three accumulators, product wire w = qa*qb, and the AND/XOR relation
def logic_quads(a, aw, b, bw, d, dw):
    return aw - 4 * a, bw - 4 * b, dw - 4 * d


def logic_op_poly(qa, qb, w, qd, qc):
    """Aztec TurboPLONK logic relation.  For qa,qb in {0..3}, w = qa*qb:  == 0  iff  qd = qa AND qb (qc = +1)
    resp. qa XOR qb (qc = -1).  (That semantic reading is checked separately, exhaustively, on the polynomial
    extracted from the code: lemma `logic.quad_semantics`.)"""
    F = w * (w * (4 * w - 18 * (qa + qb) + 81) + 18 * (qa * qa + qb * qb) - 81 * (qa + qb) + 83)
    E = 3 * (qa + qb + qd) - 2 * F
    B = qc * (9 * qd - 3 * (qa + qb))
    return B + E


def logic_id(a, aw, b, bw, c, d, dw, qc, kappa):
    qa, qb, qd = logic_quads(a, aw, b, bw, d, dw)
    return (delta(qa) + delta(qb) * kappa + delta(qd) * kappa ** 2 + (c - qa * qb) * kappa ** 3
            + logic_op_poly(qa, qb, c, qd, qc) * kappa ** 4)


# ---- twisted Edwards addition law, a = -1:  (x1,y1)+(x2,y2) = (x3,y3)
#      x3 (1 + d x1 x2 y1 y2) = x1 y2 + y1 x2 ;  y3 (1 - d x1 x2 y1 y2) = y1 y2 + x1 x2
def edwards_x_residual(x1, y1, x2, y2, x3, x1y2=None, y1x2=None):
    x1y2 = x1 * y2 if x1y2 is None else x1y2
    y1x2 = y1 * x2 if y1x2 is None else y1x2
    return (x1y2 + y1x2) - x3 * (1 + D * x1y2 * y1x2)


def edwards_y_residual(x1, y1, x2, y2, y3, x1y2=None, y1x2=None):
    x1y2 = x1 * y2 if x1y2 is None else x1y2
    y1x2 = y1 * x2 if y1x2 is None else y1x2
    return (y1 * y2 + x1 * x2) - y3 * (1 - D * x1y2 * y1x2)


# ---- variable-base curve addition row: wires (x1,y1,x2,y2), next row (x3,y3,_,x1*y2)
def var_id(x1, y1, x2, y2, x3, y3, x1y2, kappa):
    return ((x1 * y2 - x1y2) + edwards_x_residual(x1, y1, x2, y2, x3, x1y2=x1y2) * kappa
            + edwards_y_residual(x1, y1, x2, y2, y3, x1y2=x1y2) * kappa ** 2)


# ---- fixed-base row: accumulate (x_alpha,y_alpha) = bit ? (bit*x_beta, y_beta) : (0,1) into (acc_x,acc_y)
def fixed_id(acc_x, acc_x_w, acc_y, acc_y_w, xy_alpha, acc_bit, acc_bit_w, x_beta, y_beta, xy_beta, kappa):
    bit = acc_bit_w - 2 * acc_bit
    bit_ok = bit * (bit - 1) * (bit + 1)                 # bit in {-1,0,1}
    y_alpha = bit * bit * (y_beta - 1) + 1
    x_alpha = bit * x_beta
    xy_ok = bit * xy_beta - xy_alpha
    # Edwards sum of (acc_x,acc_y) and (x_alpha,y_alpha), with x_alpha*y_alpha supplied on the wire xy_alpha
    x_res = acc_x_w * (1 + D * acc_x * acc_y * xy_alpha) - (acc_x * y_alpha + acc_y * x_alpha)
    y_res = acc_y_w * (1 - D * acc_x * acc_y * xy_alpha) - (acc_y * y_alpha + acc_x * x_alpha)
    return bit_ok + xy_ok * kappa + x_res * kappa ** 2 + y_res * kappa ** 3


# ---- permutation argument (4 wires, cosets 1,K1,K2,K3)
def perm_identity_term(a, b, c, d, x, z, alpha, beta, gamma):
    return (a + beta * x + gamma) * (b + beta * K1 * x + gamma) * (c + beta * K2 * x + gamma) \
        * (d + beta * K3 * x + gamma) * z * alpha


def perm_copy_term(a, b, c, d, s1, s2, s3, s4, zw, alpha, beta, gamma):
    return -((a + beta * s1 + gamma) * (b + beta * s2 + gamma) * (c + beta * s3 + gamma)
             * (d + beta * s4 + gamma) * zw * alpha)


def perm_first_term(z, l1_alpha_sq):
    return (z - 1) * l1_alpha_sq

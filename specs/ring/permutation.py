"""Ring/trace units for src/composer/permutation.rs (C05: the prover's grand-product vector; its only ways to leave the function)."""
from vlib.ring import (Unit, Sym, VArr, VIter, VTuple, VOpaque, VStruct, VOk, UNIT, as_poly as P, sym, OutsideFragment, canon)
from vlib.poly import Poly, C, S

UNITS = []
CONTRACTS = {}
LEMMAS = []
PM = "src/composer/permutation.rs"


def unit(name, file, fn, params, contract, outputs, **kw):
    u = Unit(name, file, fn, params, contract, outputs, **kw)
    UNITS.append(u)
    return u


PARAMS = [("self", sym("self")), ("domain", sym("domain")), ("wires", sym("wires")), ("beta", sym("beta")), ("gamma", sym("gamma")),
          ("sigma_evaluations", sym("sigma_evaluations"))]


# ---- generic (any n): the ONLY exit is the panic on a zero denominator; the accumulation loop itself is not modelled here
GEN = {
    "domain.size": lambda it, recv, a: Sym("n"),
    "domain.elements": lambda it, recv, a: VOpaque("elements", [recv]),
    ".collect": lambda it, recv, a: VOpaque("collected", [recv]) if isinstance(recv, VOpaque) else NotImplemented,
    "Self::permutation_numerators": lambda it, recv, a: Sym("numerators"),
    "Self::permutation_denominators": lambda it, recv, a: Sym("denominators"),
    "batch_inversion": lambda it, recv, a: (it.ctx.event("batch_inversion", canon(a[0])), UNIT)[1],
}


def c_perm_vec_generic(it, recv, a):
    it.ctx.exits.append(("panic_unless", VOpaque("all", [Sym("denominators"), VOpaque("ne", [Sym("denominators[*]"), 0])])))
    it.ctx.event("batch_inversion", "denominators")
    return VOpaque("havoc:permutation")


u = unit("permutation.compute_permutation_vec.exits", PM, "Permutation::compute_permutation_vec", PARAMS, c_perm_vec_generic,
         lambda res, args, ctx: {"exits": list(ctx.exits), "effects": list(ctx.log), "result": res}, trace_only=True, tracked=())
u.extra_contracts = GEN


# ---- instances (n rows): z_0 = 1, z_{i+1} = z_i * num_i / den_i for i + 1 < n  (the last factor is NOT applied: the vector has n
# entries and closes cyclically only for satisfied copy constraints -- that closure is checked by the quotient, not here)
def inst(n):
    def c_batch(it, recv, a):
        v = a[0]
        # contract of util::batch_inversion (kernels units) for entries known non-zero (the assert above)
        for i in range(len(v.items)):
            v.items[i] = P(Sym(f"inv({canon(P(v.items[i]))})"))
        return UNIT
    con = dict(GEN)
    con.update({
        "domain.size": lambda it, recv, a: n,
        "Self::permutation_numerators": lambda it, recv, a: VArr([Sym(f"num{i}") for i in range(n)], "vec"),
        "Self::permutation_denominators": lambda it, recv, a: VArr([Sym(f"den{i}") for i in range(n)], "vec"),
        "batch_inversion": c_batch,
    })

    def c(it, recv, a):
        for i in range(n):
            d = it.decided(f"eq(den{i}, int:0)")
            if d is None:
                raise OutsideFragment("path does not decide a denominator")
            if d:
                it.ctx.exits.append(("panic", "assert!(denominators . iter () . all (| value | * value != BlsScalar :: zero ()) , \"permutation denomin) is false"))
                break
        z = [P(1)]
        for i in range(n - 1):
            z.append(z[-1] * P(Sym(f"num{i}")) * P(Sym(f"inv(den{i})")))
        return VArr(z[:n], "vec")

    def out(res, args, ctx):
        ex = list(ctx.exits)
        if ex:       # the function panics on this path: there is no result
            return {"exits": [e[0] for e in ex]}
        return {"exits": [], "result": res}
    u = unit(f"permutation.compute_permutation_vec[n={n}]", PM, "Permutation::compute_permutation_vec", PARAMS, c, out, path_dependent=True)
    u.extra_contracts = con
    u.max_paths = 256


for n_ in (1, 2, 4):
    inst(n_)


# ------------------------------------------------------------------ compute_sigma_permutations (instances): one cycle per witness
def WD(col, row):
    return VOpaque("WireData::" + col, [row])


def mk_perm(wmap):
    return lambda: VStruct("Permutation", {"witness_map": VArr([VTuple([Sym(f"w{k}"), VArr(list(ws), "vec")]) for k, ws in enumerate(wmap)], "map")})


def c_sigmas(n, wmap):
    def c(it, recv, a):
        """sigma maps every wire slot to the NEXT slot of the same witness, the last one back to the first: ONE closed cycle per
        witness, whatever its length; slots of no witness map to themselves"""
        cols = ["Left", "Right", "Output", "Fourth"]
        sig = {(c_, r): WD(c_, r) for c_ in cols for r in range(n)}
        for ws in wmap:
            m = len(ws)
            for k, w in enumerate(ws):
                col, row = w.name.split("::")[1], w.args[0]
                sig[(col, row)] = ws[(k + 1) % m]
        return VArr([VArr([sig[(c_, r)] for r in range(n)], "vec") for c_ in cols], "array")
    return c


def slots(n):
    return [WD(c_, r) for r in range(n) for c_ in ("Left", "Right", "Output", "Fourth")]


_S5 = slots(5)
INST = [
    (2, [[WD("Left", 0), WD("Right", 1)], [WD("Output", 0)], [WD("Fourth", 1), WD("Left", 1), WD("Output", 1)]]),
    (5, [_S5[:17], _S5[17:20]]),                      # a witness wired into 17 slots (more than any fixed block size below 17)
    (5, [_S5[:16], _S5[16:20]]),
    (9, [slots(9)[:33], slots(9)[33:36]]),            # 33 slots
]
for k_, (n_, wm_) in enumerate(INST):
    u = unit(f"permutation.compute_sigma_permutations[{k_}:n={n_},fanout={max(len(w) for w in wm_)}]", PM, "Permutation::compute_sigma_permutations",
             [("self", mk_perm(wm_)), ("n", (lambda n_=n_: n_))], c_sigmas(n_, wm_), lambda res, args, ctx: {"result": res})

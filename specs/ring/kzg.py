"""Ring/trace units for KZG10 (C20): the aggregated opening witness and the batched check."""
from vlib.ring import (VIter, Unit, Sym, VArr, VTuple, VOpaque, VLabel, VStruct, VOk, VErr, VCoeffVec, UNIT, as_poly as P, sym, vec,
                       OutsideFragment, canon)
from vlib.poly import Poly, S, C
import widgets as w
import verifier as vf

UNITS = []
CONTRACTS = dict(vf.CONTRACTS)
KEY = "src/commitment_scheme/kzg10/key.rs"


def unit(name, file, fn, params, contract, outputs=None, keys=(), **kw):
    u = Unit(name, file, fn, params, contract, outputs or w.ret, **kw)
    UNITS.append(u)
    for k in keys:
        CONTRACTS[k] = contract
    return u


CONTRACTS["Polynomial::zero"] = lambda it, recv, a: C(0)
CONTRACTS["Polynomial::from_coefficients_vec"] = lambda it, recv, a: P(a[0])
CONTRACTS[".ruffini"] = lambda it, recv, a: VOpaque("ruffini", [recv, a[0]])


def c_aggregate_witness(it, recv, a):
    """W(X) = ( sum_j v^j p_j(X) ) / (X - z)  by Ruffini's rule; the zero polynomial for an empty list.  The power of v is
    POSITIONAL: polynomial j gets v^j whatever its value (the verifier assigns powers by position)."""
    polys, point, v = a
    if not polys.items:
        return C(0)
    acc = C(0)
    for j, p in enumerate(polys.items):
        acc = acc + P(p) * P(v) ** j
    return VOpaque("ruffini", [acc, point])


for n in (0, 1, 3, 4):
    unit(f"kzg.compute_aggregate_witness[{n}]", KEY, "CommitKey::compute_aggregate_witness",
         [("polynomials", (lambda k=n: VArr([Sym(f"p{i}") for i in range(k)], "slice"))), ("point", sym("point")), ("v_challenge", sym("v_challenge"))],
         c_aggregate_witness, trace_only=True, tracked=("coefficients", "power", "polynomial"))


# ------------------------------------------------------------------ batch_challenge / batch_check
CONTRACTS["G1Projective::identity"] = lambda it, recv, a: C(0)
CONTRACTS["G1Projective::from"] = lambda it, recv, a: P(a[0])
CONTRACTS["G1Affine::from"] = lambda it, recv, a: P(a[0])


def proofs_arr(n):
    return lambda: VArr([Sym(f"proof{i}") for i in range(n)], "slice")


def points_arr(n):
    return lambda: VArr([Sym(f"z{i}") for i in range(n)], "slice")


def batch_challenge_spec(it, points, proofs):
    """the random-linear-combination challenge is squeezed only after the WHOLE batch is absorbed: domain separator, batch
    length, and per entry: point, polynomial commitment, claimed evaluation, witness commitment (in order)"""
    vf.m_append_message(it, None, [VLabel("dom-sep"), VLabel("kzg10-batch-check-v1")])
    vf.m_append_u64(it, None, [VLabel("batch-len"), len(proofs.items)])
    for z, pr in zip(points.items, proofs.items):
        vf.c_append_scalar(it, None, [VLabel("batch-point"), z])
        vf.c_append_commitment(it, None, [VLabel("batch-polynomial-commitment"), Sym(pr.path + ".commitment_to_polynomial")])
        vf.c_append_scalar(it, None, [VLabel("batch-evaluation"), Sym(pr.path + ".evaluated_point")])
        vf.c_append_commitment(it, None, [VLabel("batch-witness-commitment"), Sym(pr.path + ".commitment_to_witness")])
    return vf.c_challenge_scalar(it, None, [VLabel("batch-challenge")])


def c_batch_challenge(it, recv, a):
    _t, points, proofs = a
    return batch_challenge_spec(it, points, proofs)


CONTRACTS["batch_challenge"] = c_batch_challenge
for n in (1, 2, 3):
    unit(f"kzg.batch_challenge[{n}]", KEY, "batch_challenge", [("transcript", vf.TR), ("points", points_arr(n)), ("proofs", proofs_arr(n))],
         c_batch_challenge, vf.out_log_ret)


def c_powers_of(it, recv, a):
    x, d = a
    if not isinstance(d, int):
        raise OutsideFragment("powers_of with symbolic degree")
    return VArr([P(x) ** i for i in range(d + 1)], "vec")


CONTRACTS["util::powers_of"] = c_powers_of


def c_batch_check(it, recv, a):
    points, proofs, _t = a
    n, m = len(proofs.items), len(points.items)
    if n == 0 or n != m:
        return VErr("Error::ProofVerificationError")        # rejected before any arithmetic
    u = P(batch_challenge_spec(it, points, proofs))
    g = S(recv.path + ".g")
    total_c, total_w, e_sum = C(0), C(0), C(0)
    for i, (z, pr) in enumerate(zip(points.items, proofs.items)):
        Ci, Wi, ei = S(pr.path + ".commitment_to_polynomial.0"), S(pr.path + ".commitment_to_witness.0"), S(pr.path + ".evaluated_point")
        total_c = total_c + u ** i * (Ci + P(z) * Wi)        # EVERY entry contributes its commitment ...
        e_sum = e_sum + u ** i * ei                          # ... and its claimed evaluation
        total_w = total_w + u ** i * Wi
    total_c = total_c - e_sum * g
    cond = VOpaque("ne", [VOpaque("final_exponentiation", [VOpaque("multi_miller_loop", [VArr([
        VTuple([-total_w, Sym(recv.path + ".prepared_x_h")]), VTuple([total_c, Sym(recv.path + ".prepared_h")])])])]),
        VOpaque("Gt::identity")])
    it.ctx.exits.append(("err_if", cond, "Error::PairingCheckFailure"))
    return VOk(UNIT)


for (m, n) in [(0, 0), (2, 1), (1, 1), (2, 2), (3, 3)]:
    unit(f"kzg.batch_check[{m},{n}]", KEY, "OpeningKey::batch_check",
         [("self", sym("self")), ("points", points_arr(m)), ("proofs", proofs_arr(n)), ("transcript", vf.TR)], c_batch_check, vf.out_verify)


# ------------------------------------------------------------------ CommitKey::from_raw_var_bytes: every point is checked individually
def c_from_raw_var_bytes(it, recv, a):
    """(C17) Ok(key) only if EVERY decoded point passed is_on_curve & is_torsion_free itself; the first point failing it
    yields Err(PointMalformed).  (The length-field arithmetic before the loop is outside this unit's tracked objects.)"""
    b = a[0]
    it.ctx.exits.append(("err_if", VOpaque("lt", [VOpaque("len", [b]), 8]), "Error::NotEnoughBytes"))
    ln = VOpaque("havoc:len")
    it.ctx.exits.append(("err_if", VOpaque("eq", [ln, 0]), canon(VOpaque("Error::InvalidData"))))
    inner = VOpaque("checked_mul", [ln, 97])
    it.ctx.exits.append(("try", f"{inner.canon()} is None => Err(Error::NotEnoughBytes)"))
    outer = VOpaque("checked_add", [8, VOpaque("some_of", [inner])])
    it.ctx.exits.append(("try", f"{outer.canon()} is None => Err(Error::NotEnoughBytes)"))
    it.ctx.exits.append(("err_if", VOpaque("ne", [VOpaque("len", [b]), VOpaque("some_of", [outer])]), "Error::NotEnoughBytes"))
    chunks = Sym(VOpaque("chunks_exact", [VOpaque("slice", [b, 8, "end"]), 97]).canon())
    elem = Sym(chunks.path + "[*]")
    pt = VOpaque("G1Affine::from_slice_unchecked", [elem])
    valid = VOpaque("and", [VOpaque("is_on_curve", [pt]), VOpaque("is_torsion_free", [pt])])
    # per point, in this order: (1) only the CANONICAL raw encoding (flag byte 0/1, both coordinates' limbs below the base-field modulus) may
    # reach the unchecked dependency decoder - G1Affine::from_slice_unchecked takes limbs and flag as they come, and `subtle::Choice::from`
    # debug-asserts the flag (dependency preconditions, DESIGN 3.3); (2) the decoded point is on the curve and in the subgroup
    it.ctx.event("for_each_in_order", chunks.path, (), (("err_if", VOpaque("not", [VOpaque("raw_point_is_canonical", [elem])]), "Error::PointMalformed"),
                                                        ("err_if", VOpaque("not", [valid]), "Error::PointMalformed"),))
    return VOk(VStruct("CommitKey", {"powers_of_g": VArr([VOpaque("for_each_pushed", [chunks, pt])], "vec")}))


def c_from_slice_unchecked(it, recv, a):
    """ASSUMED dependency contract (dusk-bls12_381 0.14.2 g1/dusk.rs): no check at all; REQUIRES flag byte <= 1 (debug assertion in
    subtle::Choice::from) and reduced limbs for the result to be a canonical field element.  The requirement is met when the path has
    already left with an error unless `raw_point_is_canonical(chunk)` (the crate's guard; its meaning is the Kani twin
    kzg.raw_point_is_canonical)"""
    c = a[0]
    want = canon(VOpaque("not", [VOpaque("raw_point_is_canonical", [c])]))
    seen = [e for e in it.ctx.exits if e[0] == "err_if" and canon(e[1]) == want]
    if not seen and not getattr(it.ctx, "is_contract", False):
        it.ctx.unmet = getattr(it.ctx, "unmet", []) + [f"G1Affine::from_slice_unchecked({canon(c)[:60]}) on bytes that were not checked to be the canonical raw encoding "
                                                       "(flag byte <= 1, limbs below the modulus)"]
    return VOpaque("G1Affine::from_slice_unchecked", [c])


CONTRACTS["G1Affine::from_slice_unchecked"] = lambda it, recv, a: VOpaque("G1Affine::from_slice_unchecked", [a[0]])


def out_raw(res, args, ctx):
    o = vf.out_verify(res, args, ctx)
    o["unmet_dependency_preconditions"] = [] if getattr(ctx, "is_contract", False) else list(getattr(ctx, "unmet", []))
    return o


RAW_CK_SCENARIO = r"""
#[test]
fn __NAME__() {
    // candidate failing inputs of the checked decoder: a prover's own bytes with (a) the infinity-flag byte of the first raw commit-key point
    // set to 2, 3, 0x80, 0xff and (b) the x coordinate's limbs replaced by x + p (unreduced, same field element)
    use crate::prelude::*;
    use rand::rngs::StdRng;
    use rand::SeedableRng;
    #[derive(Default)] struct Empty;
    impl Circuit for Empty { fn circuit(&self, _c: &mut Composer) -> Result<(), Error> { Ok(()) } }
    fn be(b: &[u8], k: usize) -> usize { u64::from_be_bytes(b[8 * k..8 * k + 8].try_into().unwrap()) as usize }
    let mut rng = StdRng::seed_from_u64(3);
    let pp = PublicParameters::setup(1 << 5, &mut rng).unwrap();
    let (prover, _v) = Compiler::compile::<Empty>(&pp, b"flag").unwrap();
    let bytes = prover.to_bytes();
    let at = 48 + be(&bytes, 0) + be(&bytes, 1) + 8;
    let mut bad: Vec<String> = Vec::new();
    for flag in [2u8, 3, 0x80, 0xff] {
        let mut b = bytes.clone();
        b[at + 96] = flag;
        match std::panic::catch_unwind(|| Prover::try_from_bytes(&b).map(|_| ())) {
            Err(_) => bad.push(format!("Prover::try_from_bytes PANICKED on infinity-flag byte {flag:#x}")),
            Ok(Ok(())) => bad.push(format!("Prover::try_from_bytes ACCEPTED infinity-flag byte {flag:#x}")),
            Ok(Err(_)) => {}
        }
    }
    let p: [u64; 6] = [0xb9feffffffffaaab, 0x1eabfffeb153ffff, 0x6730d2a0f6b0f624, 0x64774b84f38512bf, 0x4b1ba7b6434bacd7, 0x1a0111ea397fe69a];
    let mut b = bytes.clone();
    let mut carry = 0u128;
    for i in 0..6 {
        let limb = u64::from_le_bytes(b[at + 8 * i..at + 8 * i + 8].try_into().unwrap());
        let s = limb as u128 + p[i] as u128 + carry;
        b[at + 8 * i..at + 8 * i + 8].copy_from_slice(&(s as u64).to_le_bytes());
        carry = s >> 64;
    }
    if carry == 0 {
        match std::panic::catch_unwind(|| Prover::try_from_bytes(&b).map(|_| ())) {
            Err(_) => bad.push("Prover::try_from_bytes PANICKED on unreduced limbs".to_string()),
            Ok(Ok(())) => bad.push("Prover::try_from_bytes ACCEPTED a commit-key point whose x limbs are x + p (non-canonical field element)".to_string()),
            Ok(Err(_)) => {}
        }
    }
    assert!(bad.is_empty(), "REPLAY-VIOLATION-REPRODUCED: {:?}", bad);
}
"""

_ru = unit("kzg.CommitKey::from_raw_var_bytes", KEY, "CommitKey::from_raw_var_bytes", [("bytes", sym("bytes"))], c_from_raw_var_bytes,
           out_raw, trace_only=True, tracked=("powers_of_g", "point", "chunk", "point_is_valid"))
_ru.extra_contracts = {"G1Affine::from_slice_unchecked": c_from_slice_unchecked,
                       "raw_point_is_canonical": lambda it, recv, a: VOpaque("raw_point_is_canonical", [a[0]])}
_sc = {"what": "Prover::try_from_bytes on a prover's own bytes with the first raw commit-key point's infinity flag set to 2/3/0x80/0xff, and with its x limbs "
               "replaced by x + p", "src": RAW_CK_SCENARIO}
_ru.scenarios = {"unmet_dependency_preconditions": _sc, "transcript_log": _sc, "exits": _sc}


# ------------------------------------------------------------------ AggregateProof::flatten (instances: k parts)
def mk_aggregate(k):
    return lambda: VStruct("AggregateProof", {"commitment_to_witness": Sym("W"), "evaluated_points": VArr([Sym(f"e{i}") for i in range(k)], "vec"),
                                              "commitments_to_polynomials": VArr([Sym(f"C{i}") for i in range(k)], "vec")})


def c_flatten(k):
    def c(it, recv, a):
        """the single opening claim  sum_i v^i e_i  against  sum_i v^i C_i  with POSITIONAL, pairwise distinct powers v^0 .. v^(k-1);
        the witness commitment is passed through"""
        v = P(a[0])
        ev = sum((P(Sym(f"e{i}")) * (v ** i) for i in range(k)), P(0))
        cm = sum((P(Sym(f"C{i}.0")) * (v ** i) for i in range(k)), P(0))
        return VStruct("Proof", {"commitment_to_witness": Sym("W"), "evaluated_point": ev, "commitment_to_polynomial": cm})
    return c


def _c_powers_of(it, recv, a):
    x, d = P(a[0]), a[1]
    if not isinstance(d, int):
        raise OutsideFragment("powers_of with symbolic degree")
    return VArr([x ** i for i in range(d + 1)], "vec")


for k_ in range(1, 8):
    u = unit(f"kzg.AggregateProof.flatten[{k_}]", "src/commitment_scheme/kzg10/proof.rs", "alloc::AggregateProof::flatten",
             [("self", mk_aggregate(k_)), ("v_challenge", sym("v"))], c_flatten(k_), lambda res, args, ctx: {"result": res})
    u.extra_contracts = {"powers_of": _c_powers_of, ".par_iter": lambda it, recv, a: VIter(list(recv.items)) if isinstance(recv, VArr) else NotImplemented}


# ------------------------------------------------------------------ CommitKey::commit: degree rule FIRST, then the linear image of the coefficient vector
def c_check_degree(it, recv, a):
    """Err(PolynomialDegreeTooLarge) exactly when the degree exceeds the key's max_degree (the arithmetic is a Verus unit)"""
    return ("fallible_if", VOpaque("gt", [a[0], VOpaque("max_degree", [recv])]), "Error::PolynomialDegreeTooLarge", UNIT)




def c_commit(it, recv, a):
    """commit(p): the ONLY exit is the degree rule, checked on EVERY polynomial before anything is computed; the result is the
    multi-scalar product of the key's powers with the coefficient vector (msm_variable_base = sum coeff_i * [x^i]G, ASSUMED)"""
    poly = a[0]
    it.ctx.exits.append(("err_if", VOpaque("gt", [VOpaque("degree", [poly]), VOpaque("max_degree", [recv])]), "Error::PolynomialDegreeTooLarge"))
    return VOk(VOpaque("Commitment", [VOpaque("msm_variable_base", [Sym(recv.path + ".powers_of_g"), poly])]))


def out_exits_result(res, args, ctx):
    return {"exits": list(ctx.exits), "result": res}


_cu = unit("kzg.CommitKey.commit", KEY, "CommitKey::commit", [("self", sym("self")), ("polynomial", sym("polynomial"))], c_commit, out_exits_result)
_cu.extra_contracts = {"msm_variable_base": lambda it, recv, a: VOpaque("msm_variable_base", [a[0], a[1]]),
                       "Commitment::from": lambda it, recv, a: VOpaque("Commitment", [a[0]]),
                       "self.check_commit_degree_is_within_bounds": c_check_degree,
                       "self.max_degree": lambda it, recv, a: VOpaque("max_degree", [recv]),
                       "polynomial.degree": lambda it, recv, a: VOpaque("degree", [recv])}
_cu.helper_files = [KEY, "src/fft/polynomial.rs", "src/util.rs"]

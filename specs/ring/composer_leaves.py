"""Ring/trace units for the two leaf methods of Composer that the Verus units use by (assumed) contract:
`append_witness_internal` and `append_custom_gate_internal`.  They touch hashbrown maps, so Verus cannot take
them; here their effect TRACE is decided: which row is pushed, when the public-input map is written, and that the
permutation map is updated for every appended row (copy constraints of every row are recorded)."""
from vlib.ring import Unit, Sym, VArr, VTuple, VOpaque, VStruct, UNIT, as_poly as P, sym, OutsideFragment, canon
import widgets as w

UNITS = []
CONTRACTS = {}
CM = "src/composer.rs"


def unit(name, file, fn, params, contract, outputs, keys=(), **kw):
    u = Unit(name, file, fn, params, contract, outputs, **kw)
    UNITS.append(u)
    return u


def out_log(res, args, ctx):
    return {"effects": list(ctx.log), "result": res}


def ev(it, *a):
    it.ctx.event(*a)
    return UNIT


CONTRACTS["constraints.len"] = lambda it, recv, a: VOpaque("len", [recv])
CONTRACTS["witnesses.len"] = lambda it, recv, a: VOpaque("len", [recv])
CONTRACTS["constraints.push"] = lambda it, recv, a: ev(it, "push_row", canon(a[0]))
CONTRACTS["witnesses.push"] = lambda it, recv, a: ev(it, "push_witness", canon(a[0]))
CONTRACTS["public_inputs.insert"] = lambda it, recv, a: ev(it, "public_inputs.insert", canon(a[0]), canon(a[1]))
# the permutation map at the level of its PRIMITIVE: "wire w is registered in the cycle of witness x" (witness_map[x].push / .extend); the
# helpers built on it (add_witnesses_to_map, add_witness_to_map, whatever a change introduces) are inlined from src/composer/permutation.rs
def c_wires_of(it, recv, a):
    return VOpaque("wires_of", [a[0]])


def c_register(it, recv, a):
    """witness_map.get_mut(x).unwrap().push(w) / .extend(ws): one `perm.register(x, w)` per wire, in order"""
    if isinstance(recv, VOpaque) and recv.name == "unwrap" and recv.args and isinstance(recv.args[0], VOpaque):
        recv = recv.args[0]              # `.get_mut(x).unwrap()`: every witness handed to a gate was allocated (see valid_witnesses)
    if not (isinstance(recv, VOpaque) and recv.name == "wires_of"):
        return NotImplemented
    from vlib.ring import VIter
    items = a[0].items if isinstance(a[0], (VArr, VIter)) else [a[0]]
    for w_ in items:
        ev(it, "perm.register", canon(recv.args[0]), canon(w_))
    return UNIT


CONTRACTS["witness_map.get_mut"] = c_wires_of
CONTRACTS[".push"] = c_register
CONTRACTS[".extend"] = c_register
CONTRACTS["self.valid_witnesses"] = lambda it, recv, a: True      # ASSUMED here: every witness handed to a gate was allocated (wf(Composer), Verus view)
CONTRACTS[".valid_witnesses"] = CONTRACTS["self.valid_witnesses"]
for _k in ("Left", "Right", "Output", "Fourth"):
    CONTRACTS["WireData::" + _k] = (lambda it, recv, a, _k=_k: VOpaque("WireData::" + _k, [a[0]]))
CONTRACTS["perm.new_witness"] = lambda it, recv, a: ev(it, "perm.new_witness")
CONTRACTS["constraint.witness"] = lambda it, recv, a: VOpaque("wire", [recv, a[0]])
CONTRACTS["constraint.coeff"] = lambda it, recv, a: VOpaque("coeff", [recv, a[0]])
CONTRACTS["constraint.has_public_input"] = lambda it, recv, a: VOpaque("has_public_input", [recv])
CONTRACTS["Witness::new"] = lambda it, recv, a: VOpaque("Witness", [a[0]])

SEL = {"q_m": "Multiplication", "q_l": "Left", "q_r": "Right", "q_o": "Output", "q_f": "Fourth", "q_c": "Constant",
       "q_arith": "Arithmetic", "q_range": "Range", "q_logic": "Logic", "q_fixed_group_add": "GroupAddFixedBase",
       "q_variable_group_add": "GroupAddVariableBase"}


def c_append_custom_gate_internal(it, recv, a):
    c = a[0]
    n = VOpaque("len", [Sym(recv.path + ".constraints")])
    wire = lambda k: VOpaque("wire", [c, VOpaque("WiredWitness::" + k)])
    coeff = lambda k: VOpaque("coeff", [c, VOpaque("Selector::" + k)])
    fields = {k: coeff(v) for k, v in SEL.items()}
    fields.update({"a": wire("A"), "b": wire("B"), "c": wire("C"), "d": wire("D")})
    # 1. the row: the constraint's eleven gate selectors and four wires, verbatim
    ev(it, "push_row", canon(VStruct("Gate", fields)))
    # 2. a public input is registered for this row iff the constraint carries one (zero-valued ones included)
    it.ctx.event("if", canon(VOpaque("has_public_input", [c])),
                 (("public_inputs.insert", canon(n), canon(coeff("PublicInput"))),))
    # 3. EVERY row enters the permutation map: each of its four wires is registered in the cycle of the witness it carries
    for k, wd in (("A", "Left"), ("B", "Right"), ("C", "Output"), ("D", "Fourth")):
        ev(it, "perm.register", canon(wire(k)), canon(VOpaque("WireData::" + wd, [n])))
    return UNIT


_u = unit("composer.append_custom_gate_internal.trace", CM, "Composer::append_custom_gate_internal",
          [("self", sym("self")), ("constraint", sym("constraint"))], c_append_custom_gate_internal, out_log)
_u.helper_files = ["src/composer/permutation.rs"]
_u.max_paths = 2048


def c_append_witness_internal(it, recv, a):
    n = VOpaque("len", [Sym(recv.path + ".witnesses")])
    ev(it, "perm.new_witness")
    ev(it, "push_witness", canon(a[0]))
    return VOpaque("Witness", [n])


unit("composer.append_witness_internal.trace", CM, "Composer::append_witness_internal",
     [("self", sym("self")), ("witness", sym("witness"))], c_append_witness_internal, out_log)

# `impl Default for Constraint { fn default() -> Self { Self::new() } }`: discharges the contract the Verus units assume
CONTRACTS["Self::new"] = lambda it, recv, a: VOpaque("Constraint::new")
unit("composer.Constraint::default", "src/composer/constraint_system/constraint.rs", "<Constraint as Default>::default", [],
     lambda it, recv, a: VOpaque("Constraint::new"), lambda res, args, ctx: {"result": res})

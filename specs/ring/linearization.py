"""Ring units for the PROVER side of round 5: the linearisation polynomial r(X) (src/proof_system/linearization_poly.rs and the
prover half of the permutation widget).  The verifier reconstructs [r] from the commitments (C03 units); the prover must open the
polynomial with exactly those coefficients - the two sides are compared with ONE independent statement of r(X) (PLONK paper,
round 5, four-wire variant), never with each other.

    r(X) =  sum over the five gate widgets ( gate identity with the wire values replaced by the proof's evaluations and the
            selectors kept as polynomials )
          + PI(z)
          + alpha   * prod_{i<4} (w_i(z) + beta k_i z + gamma) * z(X)
          - alpha   * beta * z(z w) * prod_{i<3} (w_i(z) + beta sigma_i(z) + gamma) * sigma_4(X)
          + alpha^2 * L_1(z) * z(X)                      [L_1 = first Lagrange polynomial of the CIRCUIT'S domain of size n]
          - Z_H(z)  * ( t_low(X) + z^n t_mid(X) + z^2n t_high(X) + z^3n t_fourth(X) )

Polynomials are ring symbols (every operation used on them is linear); `pow`, `Z_H`, `L_1` and `PI(z)` are uninterpreted functions of
(domain, z) - the point of the units is WHICH domain and WHICH point they are applied to."""
from vlib.ring import (Unit, Sym, VArr, VTuple, VOpaque, VStruct, as_poly as P, sym, OutsideFragment, canon)
from vlib.poly import Poly, S, C
import protocol as pr
import widgets as w

UNITS = []
CONTRACTS = dict(w.CONTRACTS)
CONSTS = dict(w.CONSTS)
LP = "src/proof_system/linearization_poly.rs"
PM = w.PM
HELPERS = [PM + "proverkey.rs", LP, "src/fft/domain.rs"]


def unit(name, file, fn, params, contract, outputs=None, keys=(), **kw):
    kw.setdefault("consts", CONSTS)
    u = Unit(name, file, fn, params, contract, outputs or w.ret, **kw)
    u.helper_files = HELPERS
    UNITS.append(u)
    for k in keys:
        CONTRACTS[k] = contract
    return u


# ------------------------------------------------------------------ dependency / kernel contracts (ASSUMED, uninterpreted)
def lagrange_all(domain, tau):
    return VOpaque("lagrange_coefficients", [domain, tau])


def L1(domain, tau):
    return P(VOpaque("idx", [lagrange_all(domain, tau), 0]))


CONTRACTS["domain.evaluate_all_lagrange_coefficients"] = lambda it, recv, a: lagrange_all(recv, a[0])
CONTRACTS[".evaluate_all_lagrange_coefficients"] = lambda it, recv, a: lagrange_all(recv, a[0])
CONTRACTS["domain.evaluate_vanishing_polynomial"] = lambda it, recv, a: VOpaque("Z_H", [recv, a[0]])
CONTRACTS["domain.size"] = lambda it, recv, a: Sym("n")
CONTRACTS[".pow"] = lambda it, recv, a: VOpaque("pow", [recv, a[0]])
CONTRACTS[".degree"] = lambda it, recv, a: VOpaque("degree", [recv])
CONTRACTS["EvaluationDomain::new"] = lambda it, recv, a: ("fallible", "EvaluationDomain::new => Err(InvalidEvalDomainSize)", VOpaque("domain_of", [a[0]]))
CONTRACTS["proof::alloc::compute_barycentric_eval"] = lambda it, recv, a: VOpaque("PI_at", [a[0], a[1], a[2]])
CONTRACTS["compute_barycentric_eval"] = CONTRACTS["proof::alloc::compute_barycentric_eval"]


def unpack(x):
    return x.items if isinstance(x, VTuple) else x


# ------------------------------------------------------------------ permutation, prover side
def c_check_is_one(it, recv, a):
    domain, z, alpha_sq, zpoly = a
    return P(zpoly) * L1(domain, z) * P(alpha_sq)


unit("permutation.linearizer_check_is_one", PM + "proverkey.rs", "ProverKey::compute_linearizer_check_is_one",
     [("self", sym("self")), ("domain", sym("domain")), ("z_challenge", sym("z_challenge")), ("alpha_sq", sym("alpha_sq")),
      ("z_coeffs", sym("z_coeffs"))], c_check_is_one, keys=["self.compute_linearizer_check_is_one"])


def perm_lin(s4poly, z, abg, wires, sigmas, z_eval, zpoly, domain):
    alpha, beta, gamma = [P(x) for x in abg]
    ae, be, ce, de = [P(x) for x in wires]
    s1, s2, s3 = [P(x) for x in sigmas]
    ident = pr.perm_identity_term(ae, be, ce, de, P(z), P(zpoly), alpha, beta, gamma)
    copy = -((ae + beta * s1 + gamma) * (be + beta * s2 + gamma) * (ce + beta * s3 + gamma) * beta * P(z_eval) * alpha) * P(s4poly)
    one = P(zpoly) * L1(domain, z) * alpha * alpha
    return ident + copy + one


def c_perm_lin(it, recv, a):
    if len(a) != 7:
        return NotImplemented            # another signature: the caller sees the real body instead (inline fallback)
    z, abg, wires, sigmas, z_eval, zpoly, domain = [unpack(x) for x in a]
    return perm_lin(Sym(f"{recv.path}.s_sigma_4.0"), z, abg, wires, sigmas, z_eval, zpoly, domain)


unit("permutation.compute_linearization", PM + "proverkey.rs", "ProverKey::compute_linearization",
     [("self", sym("self")), ("z_challenge", sym("z_challenge")), ("abg", w.T4(["alpha", "beta", "gamma"])),
      ("evals", w.T4(["a_eval", "b_eval", "c_eval", "d_eval"])), ("sigmas", w.T4(["sigma_1_eval", "sigma_2_eval", "sigma_3_eval"])),
      ("z_eval", sym("z_eval")), ("z_poly", sym("z_poly")), ("domain", sym("domain"))],
     c_perm_lin, keys=["permutation.compute_linearization"])


# ------------------------------------------------------------------ the five gate widgets, summed
def gate_lin(pk, ch, ev):
    e = VOpaque  # noqa
    out = C(0)
    for wid, sepname in [("arithmetic", None), ("range", "range_separation"), ("logic", "logic_separation"),
                         ("fixed_base", "fixed_base_separation"), ("variable_base", "variable_base_separation")]:
        recv = Sym(f"{pk.path}.{wid}")
        c = w.CONTRACTS[f"{wid}.compute_linearization"]
        args = [ev] if sepname is None else [Sym(f"{ch.path}.{sepname}"), ev]
        out = out + P(c(None, recv, args))
    return out


def c_circuit_sat(it, recv, a):
    ch, ev, pk = a
    return gate_lin(pk, ch, ev)


unit("linearization.compute_circuit_satisfiability", LP, "compute_circuit_satisfiability",
     [("challenges", sym("challenges")), ("evaluations", sym("evaluations")), ("prover_key", sym("prover_key"))],
     c_circuit_sat, keys=["compute_circuit_satisfiability"])


# ------------------------------------------------------------------ r(X)
def c_lin_compute(it, recv, a):
    pk, ch, zpoly, ev, domain, t_low, t_mid, t_high, t_fourth, pis = a
    f = lambda n: P(Sym(f"{ch.path}.{n}"))
    e = lambda n: P(Sym(f"{ev.path}.{n}"))
    z = Sym(f"{ch.path}.z")
    gates = gate_lin(pk, ch, ev)
    pi = P(VOpaque("PI_at", [pis, z, domain]))
    perm = perm_lin(Sym(f"{pk.path}.permutation.s_sigma_4.0"), z, [f("alpha"), f("beta"), f("gamma")],
                    [e("a_eval"), e("b_eval"), e("c_eval"), e("d_eval")], [e("s_sigma_1_eval"), e("s_sigma_2_eval"), e("s_sigma_3_eval")],
                    e("z_eval"), zpoly, domain)
    n = P(Sym("n"))
    zp = lambda k: P(VOpaque("pow", [z, VArr([k * n, 0, 0, 0], "array")]))
    quot = P(t_low) + P(t_mid) * zp(1) + P(t_high) * zp(2) + P(t_fourth) * zp(3)
    zh = P(VOpaque("Z_H", [domain, z]))
    return gates + pi + perm - zh * quot


_lin = unit("linearization.compute", LP, "compute",
     [("prover_key", sym("prover_key")), ("challenges", sym("challenges")), ("z_poly", sym("z_poly")), ("evaluations", sym("evaluations")),
      ("domain", sym("domain")), ("t_low_poly", sym("t_low_poly")), ("t_mid_poly", sym("t_mid_poly")), ("t_high_poly", sym("t_high_poly")),
      ("t_fourth_poly", sym("t_fourth_poly")), ("pub_inputs", sym("pub_inputs"))],
     c_lin_compute, keys=["linearization_poly::compute.exact"])

# candidate failing input for a linearisation that does not use the circuit's domain / point: degenerate (zero) blinders make the masked
# permutation polynomial lose its top coefficients, which is exactly when a domain derived from its degree goes wrong
import prover as _pv  # noqa: E402
_sc = {"what": "Prover::prove + Verifier::verify on the empty circuit / an 8-bit range circuit with a caller-scripted RNG whose blinding "
               "draws are zero (masks 0x3fff, 0x7ff, 0x3800, 0x700, 0x600, 0xff over the 14 draws)", "src": _pv.DEGENERATE_RNG_SCENARIO}
_lin.scenarios = {"result": _sc, "exits": _sc}

"""Ring/trace unit for the row-replay loop of CompressedCircuit::from_bytes (C15): every serialized row is rebuilt from ITS OWN
selector tuple and wires, independently of the rows before it; the only state carried from row to row is the public-input cursor."""
from vlib.ring import (Unit, Sym, VArr, VIter, VTuple, VOpaque, VStruct, VOk, UNIT, as_poly as P, sym, OutsideFragment, canon)
import gadgets as g

UNITS = []
CONTRACTS = {}
CP = "src/composer/compress.rs"

SELS = [("Multiplication", "q_m"), ("Left", "q_l"), ("Right", "q_r"), ("Output", "q_o"), ("Fourth", "q_f"), ("Constant", "q_c"),
        ("Arithmetic", "q_arith"), ("Range", "q_range"), ("Logic", "q_logic"), ("GroupAddFixedBase", "q_fixed_group_add"),
        ("GroupAddVariableBase", "q_variable_group_add")]


def c_cset(it, recv, a):
    if not isinstance(recv, VStruct):
        return VOpaque("set", [recv, a[0], a[1]])
    d = dict(recv.fields)
    d["sel:" + canon(a[0])] = a[1]
    return VStruct("Constraint", d)


def c_wire(w):
    def f(it, recv, a):
        if not isinstance(recv, VStruct):
            return VOpaque("with_wire_" + w, [recv, a[0]])
        d = dict(recv.fields)
        d[w] = a[0]
        return VStruct("Constraint", d)
    return f


def ev(it, *a):
    it.ctx.event(*a)


CON = {
    "Constraint::default": lambda it, recv, a: VStruct("Constraint", {}),
    ".set": c_cset,
    ".a": c_wire("a"), ".b": c_wire("b"), ".c": c_wire("c"), ".d": c_wire("d"),
    ".public": lambda it, recv, a: VStruct("Constraint", dict(recv.fields, pi=a[0])) if isinstance(recv, VStruct) else VOpaque("public", [recv, a[0]]),
    "Self::remap_witness": lambda it, recv, a: (ev(it, "remap_witness", canon(a[2])), VOpaque("remapped", [a[2]]))[1],
    "composer.append_custom_gate": lambda it, recv, a: (ev(it, "append_custom_gate", a[0]), UNIT)[1],
    "Composer::uninitialized": lambda it, recv, a: Sym("composer"),
    # naming convention of a pre-sizing constructor (none exists in the pinned tree): an uninitialized composer with memory RESERVED in
    # proportion to every argument - the reservation sizes are part of the decoder's observable behaviour (C15 / C17: bounded by the capacity)
    "Composer::with_capacity": lambda it, recv, a: ([it.ctx.exits.append(("alloc", canon(x))) for x in a if not isinstance(x, int)], Sym("composer"))[1],
    ".copied": lambda it, recv, a: recv,
    # the decoding prefix: each step under its own contract elsewhere (Verus units compress.py: packed_size_limit, reader) or assumed
    "Self::packed_size_limit": lambda it, recv, a: ("fallible", "packed_size_limit overflows => Err(InvalidCompressedCircuit)", VOpaque("packed_size_limit", list(a))),
    "miniz_oxide::inflate::decompress_to_vec_with_limit": lambda it, recv, a: VOpaque("inflate", list(a)),
    ".map_err": lambda it, recv, a: ("fallible", "inflate fails or exceeds the limit => Err(InvalidCompressedCircuit)", VOpaque("inflated", [recv])) if isinstance(recv, VOpaque) and recv.name == "inflate" else NotImplemented,
    "Self::unpack_bounded": lambda it, recv, a: ("fallible", "unpack_bounded fails => Err", VOpaque("circuit", list(a))),
    "scalar_map": lambda it, recv, a: VOpaque("scalar_map", list(a)),
    ".validate_indices": lambda it, recv, a: ("fallible", "validate_indices fails => Err", UNIT),
    # the canonical field decoder of the dependency (CtOption: None for values >= r) and a KNOWN non-canonical constructor
    "BlsScalar::from_bytes": lambda it, recv, a: VOpaque("BlsScalar::from_bytes", list(a)),
    "BlsScalar::from_raw": lambda it, recv, a: VOpaque("BlsScalar::from_raw", list(a)),
    ".into": lambda it, recv, a: recv,
}


def c_from_bytes(it, recv, a):
    """per serialized row (generic element row = constraints[*], index i): the selector tuple polynomials[row.polynomial] is looked
    up (InvalidCompressedCircuit if absent), each of its eleven entries is looked up in the scalar table (same error), the four
    wires are remapped in the order a, b, c, d, the row is Constraint::default() with exactly those eleven selectors and four
    wires, it is made public (value 0) iff the public-input cursor points at i -- the cursor then advances by one -- and it is
    appended as a custom gate.  Nothing else is carried from one row to the next."""
    X = it.ctx.exits
    # prefix (not modelled beyond its exits): size limit, inflate, unpack, index validation, scalar table
    X.append(("try", "packed_size_limit overflows => Err(InvalidCompressedCircuit)"))
    X.append(("try", "inflate fails or exceeds the limit => Err(InvalidCompressedCircuit)"))
    X.append(("try", "unpack_bounded fails => Err"))
    X.append(("try", "validate_indices fails => Err"))
    # the scalar table: EVERY serialized scalar goes through the canonical decoder; a non-canonical one is Err(BlsScalarMalformed)
    from vlib.ring import VErr
    circ = "circuit(inflated(inflate(compressed, packed_size_limit(max_constraints))), max_constraints)"
    # (one early exit: the first scalar, in table order, that the canonical decoder refuses - the normal form shared by the loop-with-`?`
    # and the `collect::<Result<..>>()?` spellings)
    X.append(("try", "collected(map_each(" + circ + ".scalars, BlsScalar::from_bytes(" + circ + ".scalars[*]) is None => Err(Error::BlsScalarMalformed)))"))
    sub_log, sub_exits = [], []
    row, i = Sym("circuit(inflated(inflate(compressed, packed_size_limit(max_constraints))), max_constraints).constraints[*]"), Sym("circuit(inflated(inflate(compressed, packed_size_limit(max_constraints))), max_constraints).constraints[#]")
    poly = VOpaque("get", [Sym("circuit(inflated(inflate(compressed, packed_size_limit(max_constraints))), max_constraints).polynomials"), Sym(canon(row) + ".polynomial")])
    sub_exits.append(("try", f"{canon(poly)} is None => Err(Error::InvalidCompressedCircuit)"))
    tup = VOpaque("some_of", [poly])
    vals = {}
    for _name, f in SELS:
        q = VOpaque("get", [VOpaque("havoc:version_scalars"), Sym(canon(tup) + "." + f)])
        sub_exits.append(("try", f"{canon(q)} is None => Err(Error::InvalidCompressedCircuit)"))
        vals[f] = VOpaque("some_of", [q])
    wires = {}
    for w in "abcd":
        sub_log.append(("remap_witness", canon(Sym(canon(row) + "." + w))))
        wires[w] = VOpaque("remapped", [Sym(canon(row) + "." + w)])
    fields = {"sel:Selector::" + n: vals[f] for n, f in SELS}
    fields.update(wires)
    pi = Sym("carried:pi")
    cur = VOpaque("get", [Sym("circuit(inflated(inflate(compressed, packed_size_limit(max_constraints))), max_constraints).public_inputs"), pi])
    is_pub = it.decided(canon(VOpaque("is_some", [cur])))
    hit = it.decided(canon(VOpaque("eq", [VOpaque("some_of", [cur]), i]))) if is_pub else False
    if is_pub is None or hit is None:
        raise OutsideFragment(f"from_bytes: the path does not decide the public-input test (decided: {it.decided_keys})")
    if hit:
        fields["pi"] = P(0)
    sub_log.append(("append_custom_gate", VStruct("Constraint", fields)))
    sub_log.append(("carried_update", "pi", P(pi) + 1 if hit else pi))
    it.ctx.event("for_each_in_order", "circuit(inflated(inflate(compressed, packed_size_limit(max_constraints))), max_constraints).constraints", tuple(sub_log), tuple(sub_exits))
    return VOk(Sym("composer"))


def _bounded_alloc(e):
    """a reservation whose size was VALIDATED against the capacity before (the row / selector / scalar counts pass unpack_bounded's checks
    against max_constraints) is within the property's bound and is not part of the compared behaviour; any other reservation is"""
    if not (isinstance(e, tuple) and e and e[0] == "alloc"):
        return False
    import re as _re
    return bool(_re.fullmatch(r"len\(circuit\(.*\)\.(constraints|polynomials|scalars|public_inputs)\)", str(e[1])))


def _dedupe_remaps(key, v):
    """`remap_witness(label)` is idempotent (the second call for a label is a map hit without any effect): once the path's label equalities
    are applied, repeated remaps of one label inside a row are the same trace as a single one"""
    def go(x):
        if isinstance(x, tuple):
            out, seen = [], set()
            for y in x:
                y = go(y)
                if isinstance(y, tuple) and len(y) == 2 and y[0] == "remap_witness":
                    if y[1] in seen:
                        continue
                    seen.add(y[1])
                out.append(y)
            return tuple(out)
        if isinstance(x, list):
            return [go(y) for y in x]
        return x
    return go(v) if key == "composer_ops" else v


u = Unit("compress.from_bytes.row_replay", CP, "CompressedCircuit::from_bytes", [("compressed", sym("compressed")), ("max_constraints", sym("max_constraints"))],
         c_from_bytes, lambda res, args, ctx: {"composer_ops": list(ctx.log), "exits": [e for e in ctx.exits if not _bounded_alloc(e)], "result": res},
         trace_only=True, tracked=("composer",), path_dependent=True)
u.extra_contracts = CON
u.post_norm = _dedupe_remaps
u.helper_files = ["src/composer.rs"]
u.track_allocs = True
UNITS.append(u)


# ------------------------------------------------------------------ PackedCircuitReader::unpack_array_len, per TAG (instances)
# second opinion for the Verus unit (which states the same for all inputs but needs callee wrappers for the byte conversions)
def mk_reader(tag, n):
    return lambda: VStruct("PackedCircuitReader", {"remaining": VArr([tag] + [Sym(f"b{i}") for i in range(1, n)], "slice")})


def c_take(it, recv, a):
    """PackedCircuitReader::take (Verus unit compress.PackedCircuitReader::take): the first len bytes, reader advanced; Err if short"""
    from vlib.ring import VView
    rem, n = recv.fields["remaining"], a[0]
    if n > len(rem.items):
        return ("fallible", "always", VOpaque("never"))
    head = VView(rem, 0, n)
    recv.fields["remaining"] = VView(rem, n, len(rem.items))
    return VOk(head)


def be(bs):
    v = P(0)
    for b in bs:
        v = v * 256 + P(b)
    return v


def c_unpack_array_len(tag, n):
    def c(it, recv, a):
        """MessagePack array header: fixarray 0x90|len, array16 0xdc + 2 bytes BIG-endian, array32 0xdd + 4 bytes BIG-endian; any other
        tag and any truncated header is Err(InvalidCompressedCircuit); the header bytes are consumed"""
        rem = recv.fields["remaining"]
        b = list(rem.items)
        if 0x90 <= tag <= 0x9f:
            return VOk(tag & 0x0f)
        if tag == 0xdc and n >= 3:
            return VOk(VOpaque("u16::from_be_bytes", [VArr(b[1:3], "array")]))
        if tag == 0xdd and n >= 5:
            return ("fallible", "usize::try_from(u32) fails => Err(InvalidCompressedCircuit)", VOpaque("u32::from_be_bytes", [VArr(b[1:5], "array")]))
        from vlib.ring import VErr
        return VErr("Error::InvalidCompressedCircuit")
    return c


UAL = {"self.take": c_take,
       "u16::from_be_bytes": lambda it, recv, a: VOpaque("u16::from_be_bytes", [VArr(list(a[0].items), "array")]),
       "u32::from_be_bytes": lambda it, recv, a: VOpaque("u32::from_be_bytes", [VArr(list(a[0].items), "array")]),
       "u16::from_le_bytes": lambda it, recv, a: VOpaque("u16::from_le_bytes", [VArr(list(a[0].items), "array")]),
       "u32::from_le_bytes": lambda it, recv, a: VOpaque("u32::from_le_bytes", [VArr(list(a[0].items), "array")]),
       "usize::try_from": lambda it, recv, a: VOpaque("usize::try_from", list(a)),
       ".map_err": lambda it, recv, a: ("fallible", "usize::try_from(u32) fails => Err(InvalidCompressedCircuit)", recv.args[0]) if isinstance(recv, VOpaque) and recv.name == "usize::try_from" else NotImplemented}
for (tag_, n_) in [(0x90, 1), (0x9f, 3), (0xdc, 3), (0xdc, 5), (0xdd, 5), (0xdd, 7), (0x00, 4), (0xde, 4), (0xa0, 2)]:
    u = Unit(f"compress.unpack_array_len[tag={tag_:#x},len={n_}]", CP, "PackedCircuitReader::unpack_array_len", [("self", mk_reader(tag_, n_))],
             c_unpack_array_len(tag_, n_), lambda res, args, ctx: {"result": res, "exits": list(ctx.exits)})
    u.extra_contracts = UAL
    UNITS.append(u)


# ------------------------------------------------------------------ scalar_map: the index table shared by encoder and decoder
def c_scalar_map(it, recv, a):
    """indices 0, 1, 2 for 0, 1, -1; with the hades optimisation every round constant and then every MDS entry gets the NEXT FREE
    index unless the value is already in the table (entry().or_insert(len)): an index, once given, is never reassigned"""
    ins = lambda k: ("map.or_insert", "scalars", k, "len(scalars)")
    sub = (("for_each_in_order", "hades::constants", (ins("hades::constants[*]"),), ()),
           ("for_each_in_order", "hades::mds", (("for_each_in_order", "hades::mds[*]", (ins("hades::mds[*][*]"),), ()),), ()))
    it.ctx.event("if", "hades_optimization", sub)
    return VOpaque("map:scalars")


SM = {"hades::constants": lambda it, recv, a: VOpaque("hades::constants"), "hades::mds": lambda it, recv, a: VOpaque("hades::mds"),
      ".collect": lambda it, recv, a: VOpaque("map:scalars"),
      ".len": lambda it, recv, a: Sym("len(scalars)") if canon(recv) == "map:scalars" else NotImplemented,
      ".entry": lambda it, recv, a: VOpaque("entry", [a[0]]) if canon(recv) == "map:scalars" else NotImplemented,
      ".insert": lambda it, recv, a: (it.ctx.event("map.insert", "scalars", canon(a[0]), canon(a[1])), UNIT)[1] if canon(recv) == "map:scalars" else NotImplemented,
      ".or_insert": lambda it, recv, a: (it.ctx.event("map.or_insert", "scalars", canon(recv.args[0]), canon(a[0])), UNIT)[1] if isinstance(recv, VOpaque) and recv.name == "entry" else NotImplemented,
      "scalars.insert": lambda it, recv, a: (it.ctx.event("map.insert", "scalars", canon(a[0]), canon(a[1])), UNIT)[1]}
u = Unit("compress.scalar_map", CP, "scalar_map", [("hades_optimization", sym("hades_optimization"))], c_scalar_map,
         lambda res, args, ctx: {"effects": list(ctx.log), "result": res})
u.extra_contracts = SM
UNITS.append(u)


# ------------------------------------------------------------------ from_composer (the ENCODER): index assignment of selector values
def n_ins(it, which):
    return sum(1 for e_ in it.ctx.log if e_ and e_[0] == "map.or_insert" and e_[1] == which)


def fc_len(it, recv, a):
    c = canon(recv)
    if c in ("map:scalars", "map:polynomials"):
        w = c[4:]
        return Sym(f"len({w})#{n_ins(it, w)}")       # the table's length AFTER the insertions made so far in this iteration
    return NotImplemented


def fc_entry(it, recv, a):
    c = canon(recv)
    if c in ("map:scalars", "map:polynomials"):
        return VOpaque("entry", [VOpaque(c), a[0]])
    return NotImplemented


def fc_or_insert(it, recv, a):
    if isinstance(recv, VOpaque) and recv.name == "entry":
        w = canon(recv.args[0])[4:]
        it.ctx.event("map.or_insert", w, canon(recv.args[1]), canon(a[0]))
        return VOpaque("index_of", [VOpaque(w), recv.args[1]])
    return NotImplemented


FC = {"scalar_map": lambda it, recv, a: VOpaque("map:scalars"), "HashMap::new": lambda it, recv, a: VOpaque("map:polynomials"),
      ".len": fc_len, ".entry": fc_entry, ".or_insert": fc_or_insert, ".index": lambda it, recv, a: VOpaque("index", [recv]),
      ".split_off": lambda it, recv, a: VOpaque("split_off", [recv, a[0]]), ".sort": lambda it, recv, a: UNIT,
      "CompressedPolynomial::default": lambda it, recv, a: VOpaque("CompressedPolynomial::default")}
SEL_ORDER = ["q_m", "q_l", "q_r", "q_o", "q_f", "q_c", "q_arith", "q_range", "q_logic", "q_fixed_group_add", "q_variable_group_add"]


def c_from_composer(it, recv, a):
    """per row, in this order q_m, q_l, q_r, q_o, q_f, q_c, q_arith, q_range, q_logic, q_fixed, q_var: the selector VALUE gets the next
    free index of the scalar table -- the table's length at THAT moment -- unless it already has one; then the tuple of the eleven
    indices gets the next free index of the polynomial table unless it already has one"""
    g = "composer.constraints[*]"
    sub = []
    for k, f in enumerate(SEL_ORDER):
        sub.append(("map.or_insert", "scalars", f"{g}.{f}", f"len(scalars)#{k}"))
    tup = VStruct("CompressedPolynomial", {f: VOpaque("index_of", [VOpaque("scalars"), Sym(f"{g}.{f}")]) for f in SEL_ORDER})
    sub.append(("map.or_insert", "polynomials", canon(tup), "len(polynomials)#0"))
    it.ctx.event("for_each_in_order", "composer.constraints", tuple(sub))
    # the header of the description that is packed: the flag as given, the number of witnesses the composer ALLOCATED (the decoder
    # validates every wire label against it), the public-input rows
    # ... and the rows: row i of the description carries the wire LABELS of gate i (a, b, c, d in this order) and the index its selector
    # tuple got in the polynomial table
    row = VStruct("CompressedConstraint", dict({w_: VOpaque("index", [Sym(f"{g}.{w_}")]) for w_ in ("a", "b", "c", "d")},
                                               polynomial=VOpaque("index_of", [VOpaque("polynomials"), tup])))
    rows = VOpaque("collected", [VOpaque("map_each", [Sym("composer.constraints"), row])])
    it.ctx.event("pack.header", "hades_optimization=hades_optimization", "witnesses=len(composer.witnesses)", "constraints=" + canon(rows))
    return VOpaque("havoc:result")


def fc_pack(it, recv, a):
    from vlib.ring import VStruct as _VS
    if isinstance(recv, _VS) and "witnesses" in recv.fields and "hades_optimization" in recv.fields:
        it.ctx.event("pack.header", "hades_optimization=" + canon(recv.fields["hades_optimization"]), "witnesses=" + canon(recv.fields["witnesses"]),
                     "constraints=" + canon(recv.fields.get("constraints")))
        return UNIT
    return NotImplemented


u = Unit("compress.from_composer.index_assignment", CP, "CompressedCircuit::from_composer",
         [("hades_optimization", sym("hades_optimization")), ("composer", sym("composer"))], c_from_composer,
         lambda res, args, ctx: {"effects": [e_ for e_ in ctx.log if e_ and e_[0] == "for_each_in_order" and e_[1] == "composer.constraints"],
                                 "header": [e_ for e_ in ctx.log if e_ and e_[0] == "pack.header"]},
         trace_only=True, tracked=("scalars", "polynomials"), consts={"BlsScalar::SIZE": 32})
u.extra_contracts = dict(FC, **{".pack": fc_pack})
UNITS.append(u)


# ------------------------------------------------------------------ unpack_bounded: every collection is read under ITS OWN bound
def c_unpack_bounded(it, recv, a):
    """hades flag; public inputs (at most max_constraints); witness count; scalars (at most 11 * max_constraints: eleven selector
    values per row); polynomials and constraints (at most max_constraints each); InvalidCompressedCircuit if the product overflows, if
    any read fails or exceeds its bound, or if bytes are left over"""
    mc = a[1]
    X = it.ctx.exits
    ms = VOpaque("checked_mul", [mc, 11])
    X.append(("try", f"{canon(ms)} is None => Err(Error::InvalidCompressedCircuit)"))
    lim = VOpaque("some_of", [ms])
    for k, (what, bound) in enumerate([("unpack", None), ("unpack_vec", mc), ("unpack", None), ("unpack_vec", lim), ("unpack_vec", mc), ("unpack_vec", mc)]):
        it.ctx.event(what, *([canon(bound)] if bound is not None else []))
        X.append(("try", f"reader.{what} #{k} fails => Err"))
    X.append(("err_if", VOpaque("not", [VOpaque("is_empty", [VOpaque("reader")])]), "Error::InvalidCompressedCircuit"))
    return VOk(VOpaque("havoc:circuit"))


def rd(what):
    def f(it, recv, a):
        k = sum(1 for e_ in it.ctx.log if e_ and e_[0] in ("unpack", "unpack_vec"))
        it.ctx.event(what, *[canon(x) for x in a])
        return ("fallible", f"reader.{what} #{k} fails => Err", VOpaque(f"item{k}"))
    return f


u = Unit("compress.unpack_bounded", CP, "CompressedCircuit::unpack_bounded", [("packed", sym("packed")), ("max_constraints", sym("max_constraints"))],
         c_unpack_bounded, lambda res, args, ctx: {"reads": list(ctx.log), "exits": list(ctx.exits)})
u.extra_contracts = {"PackedCircuitReader::new": lambda it, recv, a: VOpaque("reader"), ".unpack": rd("unpack"), ".unpack_vec": rd("unpack_vec"),
                     ".is_empty": lambda it, recv, a: VOpaque("is_empty", [recv])}
UNITS.append(u)

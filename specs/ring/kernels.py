"""Ring units for C19 kernels that are decided per INSTANCE (a fixed length, all element values symbolic): the real function is
executed on a vector of k symbols, every zero / non-zero pattern is a separate path, and the result is compared exactly.
For a fixed length this covers every input; the bound is on the LENGTH only (stated in the obligation text)."""
from vlib.ring import (Unit, Sym, VArr, VIter, VTuple, VOpaque, VStruct, VOk, UNIT, as_poly as P, sym, OutsideFragment, canon)
from vlib.poly import Poly, C, S

UNITS = []
CONTRACTS = {}
LEMMAS = []
MAXLEN = 5


def unit(name, file, fn, params, contract, outputs, **kw):
    u = Unit(name, file, fn, params, contract, outputs, **kw)
    u.max_paths = 2048
    UNITS.append(u)
    return u


# ------------------------------------------------------------------------------------------------ util::batch_inversion
def mk_vec(k):
    return lambda: VArr([Sym(f"v{i}") for i in range(k)], "slice")


def c_batch_inversion(k):
    def c(it, recv, a):
        """every non-zero entry is replaced by its inverse, zero entries stay.  With Z = the set of entries decided zero on the
        path and T = prod_{j not in Z} v_j (non-zero: a field has no zero divisors), the inverse of v_i is stated in the product
        form  inv(T) * prod_{j not in Z, j != i} v_j   (== 1/v_i because inv(T) * T == 1)."""
        v = a[0]
        zero = []
        for i in range(k):
            d = it.decided(f"eq(v{i}, int:0)")
            if d is None:
                raise OutsideFragment(f"batch_inversion: the path does not decide v{i} == 0")
            zero.append(d)
        T = P(1)
        for i in range(k):
            if not zero[i]:
                T = T * P(Sym(f"v{i}"))
        inv = P(Sym(f"inv({canon(T)})"))
        for i in range(k):
            if not zero[i]:
                rest = P(1)
                for j in range(k):
                    if j != i and not zero[j]:
                        rest = rest * P(Sym(f"v{j}"))
                v.items[i] = inv * rest
        it.ctx.unwraps = [f"inv({canon(T)})"]
        return UNIT
    return c


for k in range(0, MAXLEN + 1):
    unit(f"kernels.batch_inversion[len={k}]", "src/util.rs", "batch_inversion", [("v", mk_vec(k))], c_batch_inversion(k),
         lambda res, args, ctx: {"v": VArr(list(args[0].items), "slice"), "unwrap_arguments": list(getattr(ctx, "unwraps", []))},
         path_dependent=True, replay={"kind": "batch_inversion", "k": k})


# ------------------------------------------------------------------------------------------------ Polynomial kernels (instances)
PF = "src/fft/polynomial.rs"


def mk_poly(name, k):
    return lambda: VStruct("Polynomial", {"coeffs": VArr([Sym(f"{name}{i}") for i in range(k)], "vec")})


def coeffs(p):
    return p.fields["coeffs"].items


def c_from_coefficients_vec(it, recv, a):
    """uninterpreted constructor here; its own truncation contract is the unit kernels.truncate_leading_zeros"""
    return VOpaque("Polynomial::from_coefficients_vec", [VArr(list(a[0].items), "vec")])


def c_ruffini(k):
    def c(it, recv, a):
        """quotient of p(X) by (X - z) in closed form: q_i = sum_{j > i} p_j z^(j-i-1)  (so that q(X)(X - z) + p(z) == p(X));
        the remainder is dropped; the coefficient list goes to from_coefficients_vec"""
        p = [P(x) for x in coeffs(recv)]
        z = P(a[0])
        q = []
        for i in range(max(k - 1, 0)):
            s = P(0)
            for j in range(i + 1, k):
                s = s + p[j] * (z ** (j - i - 1))
            q.append(s)
        return VOpaque("Polynomial::from_coefficients_vec", [VArr(q, "vec")])
    return c


for k in range(0, 7):
    u = unit(f"kernels.ruffini[len={k}]", PF, "Polynomial::ruffini", [("self", mk_poly("p", k)), ("z", sym("z"))], c_ruffini(k),
             lambda res, args, ctx: {"result": res})
    u.extra_contracts = {"Polynomial::from_coefficients_vec": c_from_coefficients_vec}


def lemma_ruffini_identity():
    """the closed form used as the contract IS division by (X - z): q(X) (X - z) + p(z) == p(X), checked as a polynomial identity
    in p_0.., z, X for every instance length"""
    obs = []
    for k in range(0, 7):
        p = [P(Sym(f"p{i}")) for i in range(k)]
        z, X = P(Sym("z")), P(Sym("X"))
        q = []
        for i in range(max(k - 1, 0)):
            s = P(0)
            for j in range(i + 1, k):
                s = s + p[j] * (z ** (j - i - 1))
            q.append(s)
        qx = P(0)
        for i, c in enumerate(q):
            qx = qx + c * (X ** i)
        px = P(0)
        pz = P(0)
        for i, c in enumerate(p):
            px = px + c * (X ** i)
            pz = pz + c * (z ** i)
        ok = (qx * (X - z) + pz - px).is_zero()
        obs.append({"id": f"lemma.ruffini_identity[len={k}]", "unit": "lemma.ruffini_identity", "kind": "lemma",
                    "text": "q(X)(X - z) + p(z) == p(X) for the contract's closed-form quotient", "status": "discharged" if ok else "failed",
                    "detail": None, "backend": "ringcheck"})
    return obs


LEMMAS.append(lemma_ruffini_identity)


# ---- evaluate
def c_powers_of(it, recv, a):
    """util::powers_of(x, d) == [x^0, .., x^d]  (proved for all d in Verus: kernels.rs unit, C20(c))"""
    x, d = P(a[0]), a[1]
    if not isinstance(d, int):
        raise OutsideFragment("powers_of with symbolic degree")
    return VArr([x ** i for i in range(d + 1)], "vec")


CONTRACTS["util::powers_of"] = c_powers_of


def poly_value(cs):
    X = P(Sym("X"))
    s = P(0)
    for i, c in enumerate(cs):
        s = s + P(c) * (X ** i)
    return s


def c_evaluate(k):
    def c(it, recv, a):
        """p(v) = sum_i p_i v^i"""
        s = P(0)
        for i, ci in enumerate(coeffs(recv)):
            s = s + P(ci) * (P(a[0]) ** i)
        return s
    return c


for k in range(0, 7):
    unit(f"kernels.evaluate[len={k}]", PF, "Polynomial::evaluate", [("self", mk_poly("p", k)), ("value", sym("v"))], c_evaluate(k),
         lambda res, args, ctx: {"result": res})


# ---- results that are polynomials: compared as VALUES in X (independent of trailing zeros) + normalisation of the result
def normalised(cs, ctx):
    """the last coefficient is non-zero ON THIS PATH: syntactically a non-zero constant, or decided non-zero by the path"""
    if not cs:
        return True
    last = P(cs[-1])
    if not last.vars():
        return not last.is_zero()
    key = f"eq({canon(last)}, int:0)"
    for c, t in getattr(ctx, "pcs", []):
        if canon(c) == key:
            return not t
    return "unknown"


def out_poly(sel):
    def out(res, args, ctx):
        if getattr(ctx, "is_contract", False):
            return {"value": res, "normalised": True}
        p = sel(res, args)
        cs = coeffs(p)
        return {"value": poly_value(cs), "normalised": normalised(cs, ctx)}
    return out


def binop_contract(sign, scale=None):
    def c(it, recv, a):
        other = a[0]
        f = P(1)
        if isinstance(other, VTuple):        # AddAssign<(BlsScalar, &Polynomial)>
            f, other = P(other.items[0]), other.items[1]
        return poly_value(coeffs(recv)) + (poly_value(coeffs(other)) * f) * sign
    return c


res_sel = lambda res, args: res
self_sel = lambda res, args: args[0]
for (la, lb) in [(a_, b_) for a_ in range(0, 4) for b_ in range(0, 4)]:
    tag = f"[len={la},{lb}]"
    unit(f"kernels.poly_add{tag}", PF, "<Polynomial as Add<&'aPolynomial>>::add", [("self", mk_poly("a", la)), ("other", mk_poly("b", lb))],
         binop_contract(1), out_poly(res_sel))
    unit(f"kernels.poly_sub{tag}", PF, "<Polynomial as Sub<&'aPolynomial>>::sub", [("self", mk_poly("a", la)), ("other", mk_poly("b", lb))],
         binop_contract(-1), out_poly(res_sel))
    unit(f"kernels.poly_add_assign{tag}", PF, "<Polynomial as AddAssign<&'aPolynomial>>::add_assign", [("self", mk_poly("a", la)), ("other", mk_poly("b", lb))],
         binop_contract(1), out_poly(self_sel))
    unit(f"kernels.poly_sub_assign{tag}", PF, "<Polynomial as SubAssign<&'aPolynomial>>::sub_assign", [("self", mk_poly("a", la)), ("other", mk_poly("b", lb))],
         binop_contract(-1), out_poly(self_sel))
    unit(f"kernels.poly_add_assign_scaled{tag}", PF, "<Polynomial as AddAssign<(BlsScalar,&'aPolynomial)>>::add_assign",
         [("self", mk_poly("a", la)), ("arg", (lambda lb=lb: VTuple([Sym("f"), mk_poly("b", lb)()])))],
         binop_contract(1), out_poly(self_sel))

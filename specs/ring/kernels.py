"""Ring units for C19 kernels that are decided per INSTANCE (a fixed length, all element values symbolic): the real function is
executed on a vector of k symbols, every zero / non-zero pattern is a separate path, and the result is compared exactly.
For a fixed length this covers every input; the bound is on the LENGTH only (stated in the obligation text)."""
from vlib.ring import (Unit, Sym, VArr, VIter, VTuple, VOpaque, VStruct, VOk, UNIT, as_poly as P, sym, OutsideFragment, canon, inv_sym, InfeasiblePath)
from vlib.poly import Poly, C, S

import os
THOROUGH = os.environ.get("VERIF_TIER") == "thorough"      # thorough tier: larger instance sizes (same units, wider ranges)
UNITS = []
CONTRACTS = {}
LEMMAS = []
MAXLEN = 7 if THOROUGH else 5


def unit(name, file, fn, params, contract, outputs, **kw):
    u = Unit(name, file, fn, params, contract, outputs, **kw)
    u.max_paths = 2048
    UNITS.append(u)
    return u


# ------------------------------------------------------------------------------------------------ util::batch_inversion
def mk_vec(k):
    return lambda: VArr([Sym(f"v{i}") for i in range(k)], "slice")


def c_batch_inversion(k):
    def c(it, recv, a):
        """every non-zero entry is replaced by its inverse, zero entries stay.  With Z = the set of entries decided zero on the
        path and T = prod_{j not in Z} v_j (non-zero: a field has no zero divisors), the inverse of v_i is stated in the product
        form  inv(T) * prod_{j not in Z, j != i} v_j   (== 1/v_i because inv(T) * T == 1)."""
        v = a[0]
        zero = []
        for i in range(k):
            d = it.decided(f"eq(v{i}, int:0)")
            if d is None:
                raise OutsideFragment(f"batch_inversion: the path does not decide v{i} == 0")
            zero.append(d)
        T = P(1)
        for i in range(k):
            if not zero[i]:
                T = T * P(Sym(f"v{i}"))
        inv = P(inv_sym(T))
        for i in range(k):
            if not zero[i]:
                rest = P(1)
                for j in range(k):
                    if j != i and not zero[j]:
                        rest = rest * P(Sym(f"v{j}"))
                v.items[i] = inv * rest
        it.ctx.unwraps = [f"inv({canon(T)})"]
        return UNIT
    return c


for k in range(0, MAXLEN + 1):
    unit(f"kernels.batch_inversion[len={k}]", "src/util.rs", "batch_inversion", [("v", mk_vec(k))], c_batch_inversion(k),
         lambda res, args, ctx: {"v": VArr(list(args[0].items), "slice"), "unwrap_arguments": list(getattr(ctx, "unwraps", []))},
         path_dependent=True, replay={"kind": "batch_inversion", "k": k})


# ------------------------------------------------------------------------------------------------ Polynomial kernels (instances)
PF = "src/fft/polynomial.rs"


def mk_poly(name, k):
    return lambda: VStruct("Polynomial", {"coeffs": VArr([Sym(f"{name}{i}") for i in range(k)], "vec")})


def coeffs(p):
    return p.fields["coeffs"].items


def c_from_coefficients_vec(it, recv, a):
    """uninterpreted constructor here; its own truncation contract is the unit kernels.truncate_leading_zeros"""
    return VOpaque("Polynomial::from_coefficients_vec", [VArr(list(a[0].items), "vec")])


def c_ruffini(k):
    def c(it, recv, a):
        """quotient of p(X) by (X - z) in closed form: q_i = sum_{j > i} p_j z^(j-i-1)  (so that q(X)(X - z) + p(z) == p(X));
        the remainder is dropped; the coefficient list goes to from_coefficients_vec"""
        p = [P(x) for x in coeffs(recv)]
        z = P(a[0])
        q = []
        for i in range(max(k - 1, 0)):
            s = P(0)
            for j in range(i + 1, k):
                s = s + p[j] * (z ** (j - i - 1))
            q.append(s)
        return VOpaque("Polynomial::from_coefficients_vec", [VArr(q, "vec")])
    return c


for k in range(0, 10 if THOROUGH else 7):
    u = unit(f"kernels.ruffini[len={k}]", PF, "Polynomial::ruffini", [("self", mk_poly("p", k)), ("z", sym("z"))], c_ruffini(k),
             lambda res, args, ctx: {"result": res}, replay={"kind": "ruffini", "k": k})
    u.extra_contracts = {"Polynomial::from_coefficients_vec": c_from_coefficients_vec}


def lemma_ruffini_identity():
    """the closed form used as the contract IS division by (X - z): q(X) (X - z) + p(z) == p(X), checked as a polynomial identity
    in p_0.., z, X for every instance length"""
    obs = []
    for k in range(0, 10 if THOROUGH else 7):
        p = [P(Sym(f"p{i}")) for i in range(k)]
        z, X = P(Sym("z")), P(Sym("X"))
        q = []
        for i in range(max(k - 1, 0)):
            s = P(0)
            for j in range(i + 1, k):
                s = s + p[j] * (z ** (j - i - 1))
            q.append(s)
        qx = P(0)
        for i, c in enumerate(q):
            qx = qx + c * (X ** i)
        px = P(0)
        pz = P(0)
        for i, c in enumerate(p):
            px = px + c * (X ** i)
            pz = pz + c * (z ** i)
        ok = (qx * (X - z) + pz - px).is_zero()
        obs.append({"id": f"lemma.ruffini_identity[len={k}]", "unit": "lemma.ruffini_identity", "kind": "lemma",
                    "text": "q(X)(X - z) + p(z) == p(X) for the contract's closed-form quotient", "status": "discharged" if ok else "failed",
                    "detail": None, "backend": "ringcheck"})
    return obs


LEMMAS.append(lemma_ruffini_identity)


# ---- evaluate
def c_powers_of(it, recv, a):
    """util::powers_of(x, d) == [x^0, .., x^d]  (proved for all d in Verus: kernels.rs unit, C20(c))"""
    x, d = P(a[0]), a[1]
    if not isinstance(d, int):
        raise OutsideFragment("powers_of with symbolic degree")
    return VArr([x ** i for i in range(d + 1)], "vec")


CONTRACTS["util::powers_of"] = c_powers_of


def poly_value(cs):
    X = P(Sym("X"))
    s = P(0)
    for i, c in enumerate(cs):
        s = s + P(c) * (X ** i)
    return s


def c_evaluate(k):
    def c(it, recv, a):
        """p(v) = sum_i p_i v^i"""
        s = P(0)
        for i, ci in enumerate(coeffs(recv)):
            s = s + P(ci) * (P(a[0]) ** i)
        return s
    return c


for k in range(0, 10 if THOROUGH else 7):
    unit(f"kernels.evaluate[len={k}]", PF, "Polynomial::evaluate", [("self", mk_poly("p", k)), ("value", sym("v"))], c_evaluate(k),
         lambda res, args, ctx: {"result": res}, replay={"kind": "evaluate", "k": k})


# ---- results that are polynomials: compared as VALUES in X (independent of trailing zeros) + normalisation of the result
def normalised(cs, ctx):
    """the last coefficient is non-zero ON THIS PATH: syntactically a non-zero constant, or decided non-zero by the path"""
    if not cs:
        return True
    last = P(cs[-1])
    if not last.vars():
        return not last.is_zero()
    key = f"eq({canon(last)}, int:0)"
    for c, t in getattr(ctx, "pcs", []):
        if canon(c) == key:
            return not t
    return "unknown"


def out_poly(sel):
    def out(res, args, ctx):
        if getattr(ctx, "is_contract", False):
            return {"value": res, "normalised": True}
        p = sel(res, args)
        cs = coeffs(p)
        return {"value": poly_value(cs), "normalised": normalised(cs, ctx)}
    return out


def binop_contract(sign, scale=None):
    def c(it, recv, a):
        other = a[0]
        f = P(1)
        if isinstance(other, VTuple):        # AddAssign<(BlsScalar, &Polynomial)>
            f, other = P(other.items[0]), other.items[1]
        return poly_value(coeffs(recv)) + (poly_value(coeffs(other)) * f) * sign
    return c


res_sel = lambda res, args: res
self_sel = lambda res, args: args[0]
for (la, lb) in [(a_, b_) for a_ in range(0, 4) for b_ in range(0, 4)]:
    tag = f"[len={la},{lb}]"
    unit(f"kernels.poly_add{tag}", PF, "<Polynomial as Add<&'aPolynomial>>::add", [("self", mk_poly("a", la)), ("other", mk_poly("b", lb))],
         binop_contract(1), out_poly(res_sel), replay={"kind": "poly_binop", "la": la, "lb": lb, "op": "add"})
    unit(f"kernels.poly_sub{tag}", PF, "<Polynomial as Sub<&'aPolynomial>>::sub", [("self", mk_poly("a", la)), ("other", mk_poly("b", lb))],
         binop_contract(-1), out_poly(res_sel), replay={"kind": "poly_binop", "la": la, "lb": lb, "op": "sub"})
    unit(f"kernels.poly_add_assign{tag}", PF, "<Polynomial as AddAssign<&'aPolynomial>>::add_assign", [("self", mk_poly("a", la)), ("other", mk_poly("b", lb))],
         binop_contract(1), out_poly(self_sel), replay={"kind": "poly_binop", "la": la, "lb": lb, "op": "add_assign"})
    unit(f"kernels.poly_sub_assign{tag}", PF, "<Polynomial as SubAssign<&'aPolynomial>>::sub_assign", [("self", mk_poly("a", la)), ("other", mk_poly("b", lb))],
         binop_contract(-1), out_poly(self_sel), replay={"kind": "poly_binop", "la": la, "lb": lb, "op": "sub_assign"})
    unit(f"kernels.poly_add_assign_scaled{tag}", PF, "<Polynomial as AddAssign<(BlsScalar,&'aPolynomial)>>::add_assign",
         [("self", mk_poly("a", la)), ("arg", (lambda lb=lb: VTuple([Sym("f"), mk_poly("b", lb)()])))],
         binop_contract(1), out_poly(self_sel))


# ------------------------------------------------------------------------------------------------ FFT kernels (instances n = 2^k)
# omega is a SYMBOL w with the defining relation of a primitive n-th root of unity for n = 2^k >= 2:  w^(n/2) == -1
# (hence w^n == 1 and sum_i w^(i d) == 0 for d != 0 mod n).  Both sides are reduced with that single rule before comparison.
DM = "src/fft/domain.rs"


def reduce_root(p, var, n):
    """normal form modulo var^(n/2) + 1"""
    p = P(p)
    if n < 2:
        return p.subst({var: C(1)})
    h = n // 2
    out = {}
    from vlib.poly import R_BLS
    for m, c in p.norm().items():
        e = dict(m).get(var, 0)
        q, r = divmod(e, h)
        m2 = tuple(sorted((v, k) for v, k in ((v, (r if v == var else k)) for v, k in m) if k))
        out[m2] = (out.get(m2, 0) + (c if q % 2 == 0 else -c)) % R_BLS
    return Poly({m: c for m, c in out.items() if c})


def c_pow(it, recv, a):
    from vlib.ring import _deref
    e = a[0]
    if isinstance(e, VArr) and len(e.items) == 4 and all(isinstance(x, int) for x in e.items) and e.items[1:] == [0, 0, 0] and e.items[0] <= 1 << 16:
        return P(_deref(recv)) ** e.items[0]
    return NotImplemented


FFTC = {".pow": c_pow, ".pow_vartime": c_pow}


def dft(a, w, n):
    return [sum((P(a[j]) * (P(w) ** (i * j)) for j in range(n)), P(0)) for i in range(n)]


def mk_arr(name, k):
    return lambda: VArr([Sym(f"{name}{i}") for i in range(k)], "slice")


def c_serial_fft(n):
    def c(it, recv, a):
        """a'_i = sum_j a_j w^(i j)   (the DFT over the subgroup generated by w)"""
        arr = a[0]
        vals = dft(list(arr.items), Sym("w"), n)
        for i in range(n):
            arr.items[i] = vals[i]
        return UNIT
    return c


def out_fft(n, var="w"):
    def out(res, args, ctx):
        return {"a": [reduce_root(x, var, n) for x in args[0].items], "exits": list(ctx.exits)}
    return out


for lg in range(0, 8 if THOROUGH else 6):
    n_ = 1 << lg
    u = unit(f"kernels.serial_fft[n={n_}]", DM, "alloc::serial_fft", [("a", mk_arr("a", n_)), ("omega", sym("w")), ("log_n", (lambda lg=lg: lg))],
             c_serial_fft(n_), out_fft(n_))
    u.extra_contracts = FFTC


# ---- EvaluationDomain::{fft, ifft, coset_fft, coset_ifft}: resize to the domain, transform, scale / shift
def mk_domain(n):
    lg = n.bit_length() - 1
    return lambda: VStruct("EvaluationDomain", {"size": n, "log_size_of_group": lg, "size_as_field_element": Sym("n_field"), "size_inv": Sym("n_inv"),
                                                "group_gen": Sym("w"), "group_gen_inv": Sym("wi"), "generator_inv": Sym("gi")})


def c_best_fft(it, recv, a):
    """best_fft(a, omega, log_n): the DFT of a w.r.t. omega (serial_fft for |a| < 2^12: units kernels.best_fft / kernels.serial_fft;
    the rayon paths for larger inputs are NOT under contract)"""
    arr, om, lg = a
    n = len(arr.items)
    if n != 1 << lg:
        it.ctx.exits.append(("panic", "assert_eq!(n, 1 << log_n) fails"))
        return UNIT
    vals = dft(list(arr.items), om, n)
    for i in range(n):
        arr.items[i] = vals[i]
    return UNIT


def par_as_serial(it, recv, a):
    """ASSUMED (rayon): par_iter_mut().for_each(f) applies f exactly once to every element; f touches only its own element"""
    from vlib.ring import VRefCell
    return VIter([VRefCell(recv, i) for i in range(len(recv.items))])


DOMC = dict(FFTC)
DOMC.update({"best_fft": c_best_fft, ".par_iter_mut": par_as_serial, "GENERATOR": None})
DOMC.pop("GENERATOR")


def c_dom(kind, n, m):
    def c(it, recv, a):
        """input shorter than the domain is zero-padded, longer input is CUT to the domain size (callers never pass one)"""
        src = [P(x) for x in a[0].items][:n] + [P(0)] * max(0, n - m)
        w, wi, ninv, g, gi = Sym("w"), Sym("wi"), P(Sym("n_inv")), P(Sym("g")), P(Sym("gi"))
        if kind == "fft":
            out = dft(src, w, n)
        elif kind == "ifft":
            out = [x * ninv for x in dft(src, wi, n)]
        elif kind == "coset_fft":
            out = dft([src[j] * (g ** j) for j in range(len(src))], w, n)
        else:
            out = [x * ninv * (gi ** i) for i, x in enumerate(dft(src, wi, n))]
        return VArr(out, "vec")
    return c


def out_dom(n, var):
    return lambda res, args, ctx: {"result": [reduce_root(x, var, n) for x in res.items], "exits": list(ctx.exits)}


for n_ in ((1, 2, 4, 8, 16, 32) if THOROUGH else (1, 2, 4, 8)):
    for m_ in sorted({0, 1, n_ - 1, n_, n_ + 1} - {-1}):
        for kind, var in (("fft", "w"), ("ifft", "wi"), ("coset_fft", "w"), ("coset_ifft", "wi")):
            pname = "coeffs" if "ifft" not in kind else "evals"
            u = unit(f"kernels.domain.{kind}[n={n_},len={m_}]", DM, f"alloc::EvaluationDomain::{kind}", [("self", mk_domain(n_)), (pname, mk_arr("a", m_))],
                     c_dom(kind, n_, m_), out_dom(n_, var), consts={"GENERATOR": Sym("g")})
            u.extra_contracts = DOMC


# ---- the same four transforms END TO END: no callee contract below the entry point (best_fft, serial_fft, the bit reversal and whatever
# helpers the current source has are executed from their real bodies), so the units survive a restructuring of the internals
E2E = dict(FFTC)
E2E.update({".par_iter_mut": par_as_serial})
for (n_, m_) in ((2, 1), (4, 2), (4, 4), (8, 3), (8, 4), (8, 8)) + (((16, 5), (16, 8), (16, 16), (32, 16)) if THOROUGH else ()):
    for kind, var in (("fft", "w"), ("ifft", "wi"), ("coset_fft", "w"), ("coset_ifft", "wi")):
        pname = "coeffs" if "ifft" not in kind else "evals"
        u = unit(f"kernels.domain.{kind}.end_to_end[n={n_},len={m_}]", DM, f"alloc::EvaluationDomain::{kind}", [("self", mk_domain(n_)), (pname, mk_arr("a", m_))],
                 c_dom(kind, n_, m_), out_dom(n_, var), consts={"GENERATOR": Sym("g")})
        u.extra_contracts = E2E
        u.max_paths = 256
        u.max_inline_depth = 6


# ---- best_fft (std build): below the parallel threshold it IS serial_fft
def c_best_fft_small(n):
    def c(it, recv, a):
        it.ctx.event("serial_fft", canon(a[0]), canon(a[1]), canon(a[2]))
        return UNIT
    return c


for lg in (0, 1, 3, 5):
    n_ = 1 << lg
    u = unit(f"kernels.best_fft[n={n_}]", DM, "alloc::best_fft", [("a", mk_arr("a", n_)), ("omega", sym("w")), ("log_n", (lambda lg=lg: lg))],
             c_best_fft_small(n_), lambda res, args, ctx: {"effects": list(ctx.log), "exits": list(ctx.exits)})
    u.extra_contracts = {"serial_fft": lambda it, recv, a: (it.ctx.event("serial_fft", canon(a[0]), canon(a[1]), canon(a[2])), UNIT)[1]}


# ---- best_fft, the path ABOVE the parallel threshold, executed at small sizes with the threshold constant lowered (instance parameter
# `__threshold_override__`; the engine refuses any use of the lowered constant other than a comparison with a length).  BOUNDED stand-in
# for the large sizes: same code path (bit reversal, per-stage twiddle, chunked butterflies through rayon, the final-stage split), small n.
def _par_chunks_any(it, recv, a):
    return par_chunks(it, recv, a) if isinstance(recv, VArr) else NotImplemented


for (lg, T_, final_min) in ((2, 1, None), (3, 1, None), (3, 4, 4), (4, 4, 4), (5, 2, None), (5, 8, 8)) + (((6, 4, 4), (7, 16, 16)) if THOROUGH else ()):
    n_ = 1 << lg
    u = unit(f"kernels.best_fft.above_threshold[n={n_},threads={T_},final_min={final_min}]", DM, "alloc::best_fft",
             [("a", mk_arr("a", n_)), ("omega", sym("w")), ("log_n", (lambda lg=lg: lg))], c_serial_fft(n_), out_fft(n_))
    u.consts = dict(u.consts, __threshold_override__={"PARALLEL_FFT_MIN_LEN": 4})
    u.extra_contracts = dict(FFTC, **{"rayon::current_num_threads": (lambda it, recv, a, T_=T_: T_), ".par_chunks_mut": _par_chunks_any,
                                      ".par_iter": lambda it, recv, a: VIter(list(recv.items)) if isinstance(recv, VArr) else NotImplemented,
                                      ".into_par_iter": lambda it, recv, a: VIter(list(recv.items)) if isinstance(recv, (VArr, VIter)) else NotImplemented})
    if final_min is not None:
        # should_parallelize_final_fft_stages(len, threads) = len >= PARALLEL_FINAL_FFT_MIN_LEN && threads >= 4: module constant lowered the same way
        u.consts = dict(u.consts, PARALLEL_FINAL_FFT_MIN_LEN=final_min)


def lemma_fft_round_trip():
    """Contract-level lemma: with wi = w^-1 (= w^(n-1)), n_inv = 1/n and gi = 1/g, the four transforms are mutually inverse:
    ifft(fft(a)) == a and coset_ifft(coset_fft(a)) == a  (exact, modulo w^(n/2) == -1), for n = 1, 2, 4, 8, 16."""
    from vlib.poly import R_BLS
    obs = []
    for n in (1, 2, 4, 8, 16):
        a = [P(Sym(f"a{i}")) for i in range(n)]
        w = P(Sym("w"))
        ninv = C(pow(n, -1, R_BLS))
        wi = w ** (n - 1) if n > 1 else P(1)
        ok = True
        f = dft(a, Sym("w"), n)
        back = [sum((f[j] * (wi ** (i * j)) for j in range(n)), P(0)) * ninv for i in range(n)]
        for i in range(n):
            if not (reduce_root(back[i], "w", n) - a[i]).is_zero():
                ok = False
        # coset: g, gi with g*gi = 1: the shifts cancel termwise  (g^j on the way in, gi^j on the way out)
        g, gi = P(Sym("g")), P(Sym("gi"))
        cf = dft([a[j] * (g ** j) for j in range(n)], Sym("w"), n)
        cback = [sum((cf[j] * (wi ** (i * j)) for j in range(n)), P(0)) * ninv * (gi ** i) for i in range(n)]
        for i in range(n):
            r = reduce_root(cback[i], "w", n)
            # r must be a_i * g^i * gi^i
            if not (r - a[i] * (g ** i) * (gi ** i)).is_zero():
                ok = False
        obs.append({"id": f"lemma.fft_round_trip[n={n}]", "unit": "lemma.fft_round_trip", "kind": "lemma",
                    "text": "ifft(fft(a)) == a and coset_ifft(coset_fft(a)) == a * (g gi)^i for the contracts' DFT formulas", "status": "discharged" if ok else "failed",
                    "detail": None, "backend": "ringcheck"})
    return obs


LEMMAS.append(lemma_fft_round_trip)


# ---- parallel_butterfly_chunk: the thread count is an INSTANCE PARAMETER (rayon::current_num_threads() := T)
def par_chunks(it, recv, a):
    """ASSUMED (rayon): par_chunks_mut(k) yields the same disjoint chunks as chunks_mut(k); zip / for_each visit every tuple exactly
    once; the closure touches only its own chunks => any schedule gives the result of the sequential order"""
    from vlib.ring import VView
    n, k = len(recv.items), a[0]
    if not isinstance(k, int) or k <= 0:
        raise OutsideFragment("par_chunks_mut with a non-positive / symbolic chunk length (would panic)")
    return VIter([VView(recv, i, min(i + k, n)) for i in range(0, n, k)])


def c_butterfly(m):
    def c(it, recv, a):
        """radix-2 butterfly of the two halves with twiddles w_m^j:  l_j' = l_j + w_m^j r_j,  r_j' = l_j - w_m^j r_j  (j < m),
        the same for every thread count"""
        chunk = a[0]
        wm = P(Sym("wm"))
        l = [P(chunk.items[j]) for j in range(m)]
        r = [P(chunk.items[m + j]) for j in range(m)]
        for j in range(m):
            t = r[j] * (wm ** j)
            chunk.items[j] = l[j] + t
            chunk.items[m + j] = l[j] - t
        return UNIT
    return c


PB = [(1, 1), (2, 1), (4, 3), (8, 4), (8, 17), (16, 5), (16, 16), (32, 17), (512, 16), (512, 17)]
if THOROUGH:
    PB += [(m, t) for m in (64, 256, 1024) for t in (1, 2, 7, 13, 16, 17)]
for (m_, T_) in PB:
    u = unit(f"kernels.parallel_butterfly_chunk[m={m_},threads={T_}]", DM, "alloc::parallel_butterfly_chunk",
             [("chunk", mk_arr("c", 2 * m_)), ("m", (lambda m_=m_: m_)), ("w_m", sym("wm"))], c_butterfly(m_),
             lambda res, args, ctx: {"chunk": list(args[0].items), "exits": list(ctx.exits)})
    u.extra_contracts = dict(FFTC, **{"rayon::current_num_threads": (lambda it, recv, a, T_=T_: T_), ".par_chunks_mut": par_chunks,
                                      ".par_iter": lambda it, recv, a: VIter(list(recv.items)) if isinstance(recv, VArr) else NotImplemented,
                                      ".into_par_iter": lambda it, recv, a: VIter(list(recv.items)) if isinstance(recv, (VArr, VIter)) else NotImplemented})
for m_ in (1, 2, 8):
    u = unit(f"kernels.butterfly_chunk[m={m_}]", DM, "alloc::butterfly_chunk",
             [("chunk", mk_arr("c", 2 * m_)), ("m", (lambda m_=m_: m_)), ("w_m", sym("wm"))], c_butterfly(m_),
             lambda res, args, ctx: {"chunk": list(args[0].items), "exits": list(ctx.exits)})
    u.extra_contracts = FFTC


# ---- util::powers_of, instances (backstop for the Verus unit, which holds for all degrees but depends on the loop's text)
for d_ in range(0, 6):
    unit(f"kernels.powers_of[d={d_}]", "src/util.rs", "powers_of", [("scalar", sym("x")), ("max_degree", (lambda d_=d_: d_))],
         (lambda it, recv, a, d_=d_: VArr([P(Sym("x")) ** i for i in range(d_ + 1)], "vec")), lambda res, args, ctx: {"result": res})


# ---- closed-form vanishing evaluations over the coset: (g w^i)^d - 1 for i < n
def vanishing_expected(n, d):
    g, w = P(Sym("g")), P(Sym("w"))
    return [reduce_root((g ** d) * (w ** (i * d)) - 1, "w", n) for i in range(n)]


def out_vanish(n):
    def out(res, args, ctx):
        items = res.items if hasattr(res, "items") else res
        return {"result": [reduce_root(x, "w", n) for x in items], "exits": list(ctx.exits)}
    return out


for n_ in (4, 8):
    for d_ in (0, 1, 2, 3, 5, 6, 7):
        if d_ >= n_:
            continue
        u = unit(f"kernels.vanishing_poly_over_coset[n={n_},d={d_}]", DM, "alloc::EvaluationDomain::vanishing_poly_over_coset",
                 [("self", mk_domain(n_)), ("poly_degree", (lambda d_=d_: d_))],
                 (lambda it, recv, a, n_=n_, d_=d_: VIter(vanishing_expected(n_, d_))), out_vanish(n_), consts={"GENERATOR": Sym("g")})
        u.extra_contracts = DOMC


def c_matches_vanishing(n, d):
    def c(it, recv, a):
        """true iff the degree is below the domain size, there are exactly n evaluations and evaluation i == (g w^i)^d - 1"""
        ev = a[1]
        if not (d < n) or len(ev.items) != n:
            return False
        exp = dft_free_expected = [(P(Sym("g")) ** d) * (P(Sym("w")) ** (i * d)) - 1 for i in range(n)]
        for i in range(n):
            k = it.decided(canon(VOpaque("eq", [ev.items[i], exp[i]])))
            if k is None:
                raise OutsideFragment(f"matches_vanishing: evaluation {i} not decided (keys: {it.decided_keys})")
            if not k:
                return False
        return True
    return c


for (n_, d_, m_) in [(4, 1, 4), (4, 3, 4), (4, 2, 3), (4, 4, 4), (8, 5, 8)]:
    u = unit(f"kernels.matches_vanishing_poly_over_coset[n={n_},d={d_},len={m_}]", DM, "alloc::EvaluationDomain::matches_vanishing_poly_over_coset",
             [("self", mk_domain(n_)), ("poly_degree", (lambda d_=d_: d_)), ("evaluations", mk_arr("e", m_))],
             c_matches_vanishing(n_, d_), lambda res, args, ctx: {"result": res, "exits": list(ctx.exits)}, consts={"GENERATOR": Sym("g")}, path_dependent=True)
    u.extra_contracts = DOMC


# ---- closed-form Lagrange evaluations: EvaluationDomain::evaluate_all_lagrange_coefficients(tau), instances n = 1, 2, 4, 8
def c_bi_nonzero(it, recv, a):
    """batch_inversion by CONTRACT (unit kernels.batch_inversion) on entries that cannot be zero here: the entries are tau - w^i and this
    branch is only reached when tau^n != 1, i.e. tau is not an n-th root of unity (MATHEMATICAL FACT used: (w^i)^n == 1).  Product form."""
    v = a[0]
    items = v.items if hasattr(v, "items") else None
    if items is None:
        raise OutsideFragment("batch_inversion on a non-concrete vector")
    vals = [P(x) for x in items]
    T = P(1)
    for x in vals:
        T = T * x
    inv = P(inv_sym(T))
    for i in range(len(vals)):
        rest = P(1)
        for j in range(len(vals)):
            if j != i:
                rest = rest * vals[j]
        items[i] = inv * rest
    return UNIT


def c_lagrange_all(n):
    def c(it, recv, a):
        """L_i(tau) for all i < n.  tau outside the domain (tau^n != 1): L_i(tau) = (tau^n - 1)/n * w^i / (tau - w^i), stated in product form
        with T = prod_j (tau - w^j):  (tau^n - 1) * n_inv * w^i * inv(T) * prod_{j != i} (tau - w^j).  tau inside the domain: the unit
        vector of the FIRST index i with w^i == tau (all zero if no index matches)."""
        tau, w, ninv = P(a[0]), P(Sym("w")), P(Sym("n_inv"))
        inside = it.decided(canon(VOpaque("eq", [tau ** n, C(1)])))
        if inside is None:
            raise OutsideFragment("evaluate_all_lagrange_coefficients: the path does not decide tau^n == 1")
        if inside:
            out = [P(0)] * n
            for i in range(n):
                d = it.decided(canon(VOpaque("eq", [reduce_root(w ** i, "w", n) if False else w ** i, tau])))
                if d is None:
                    d = it.decided(canon(VOpaque("eq", [tau, w ** i])))
                if d is None:
                    raise OutsideFragment(f"evaluate_all_lagrange_coefficients: the path does not decide w^{i} == tau (keys: {it.decided_keys})")
                if d:
                    out[i] = P(1)
                    break
            return VArr(out, "vec")
        u = [tau - w ** i for i in range(n)]
        T = P(1)
        for x in u:
            T = T * x
        inv = P(inv_sym(T))
        out = []
        for i in range(n):
            rest = P(1)
            for j in range(n):
                if j != i:
                    rest = rest * u[j]
            out.append((tau ** n - 1) * ninv * (w ** i) * inv * rest)
        return VArr(out, "vec")
    return c


for n_ in ((1, 2, 4, 8, 16) if THOROUGH else (1, 2, 4, 8)):
    u = unit(f"kernels.evaluate_all_lagrange_coefficients[n={n_}]", DM, "alloc::EvaluationDomain::evaluate_all_lagrange_coefficients",
             [("self", mk_domain(n_)), ("tau", sym("tau"))], c_lagrange_all(n_),
             (lambda res, args, ctx, n_=n_: {"result": [reduce_root(x, "w", n_) for x in res.items], "exits": list(ctx.exits)}), path_dependent=True)
    u.extra_contracts = dict(DOMC, **{"batch_inversion": c_bi_nonzero, ".as_mut_slice": lambda it, recv, a: recv})
    u.diff_norm = (lambda d, n_=n_: reduce_root(d, "w", n_))
    u.helper_files = ["src/util.rs"]


# ---- polynomial product  &a * &b  (FFT based): instances (la, lb); contract = schoolbook convolution
def mk_domain_exact(n):
    """a domain instance whose inverse constants are tied to w and n: group_gen_inv = w^(n-1), size_inv = 1/n (a field constant)"""
    from vlib.poly import R_BLS
    lg = n.bit_length() - 1
    return VStruct("EvaluationDomain", {"size": n, "log_size_of_group": lg, "size_as_field_element": C(n), "size_inv": C(pow(n, -1, R_BLS)),
                                        "group_gen": Sym("w"), "group_gen_inv": (P(Sym("w")) ** (n - 1)) if n > 1 else C(1), "generator_inv": Sym("gi")})


def c_domain_new(it, recv, a):
    """EvaluationDomain::new(k): the domain of size next_power_of_two(k) (unit capacity / decoders: its arithmetic; here: an instance)"""
    k = a[0]
    if not isinstance(k, int):
        raise OutsideFragment("EvaluationDomain::new with a symbolic size in an instance unit")
    n = 1
    while n < k:
        n *= 2
    it.ctx.domain_n = n
    return ("fallible", "EvaluationDomain::new => Err", mk_domain_exact(n))


def c_poly_mul(la, lb):
    def c(it, recv, a):
        """zero if either operand is the zero polynomial (no coefficients / all decided zero); otherwise the convolution
        c_k = sum_{i+j=k} a_i b_j, handed to from_coefficients_vec padded to the domain size next_power_of_two(la + lb)"""
        x = [P(v) for v in coeffs(recv)]
        y = [P(v) for v in coeffs(a[0])]

        def is_zero(name, k):
            """`coeffs.is_empty() || coeffs.iter().all(|c| c == 0)`: `all` stops at the first non-zero coefficient"""
            for i in range(k):
                d = it.decided(f"eq({name}{i}, int:0)")
                if d is None:
                    return None
                if not d:
                    return False
            return True
        zx = is_zero("a", la)
        if zx is None:
            raise OutsideFragment("poly mul: the path does not decide whether self is zero")
        if zx:
            return VStruct("Polynomial", {"coeffs": VArr([], "vec")})
        zy = is_zero("b", lb)
        if zy is None:
            raise OutsideFragment("poly mul: the path does not decide whether other is zero")
        if zy:
            return VStruct("Polynomial", {"coeffs": VArr([], "vec")})
        n = 1
        while n < la + lb:
            n *= 2
        out = [P(0)] * n
        for i in range(la):
            for j in range(lb):
                out[i + j] = out[i + j] + x[i] * y[j]
        return VOpaque("Polynomial::from_coefficients_vec", [VArr(out, "vec")])
    return c


def out_poly_mul(res, args, ctx):
    """the PRODUCT POLYNOMIAL is what is compared: the coefficient list handed to from_coefficients_vec modulo trailing zero entries (how
    far the list is padded, and whether a transform is used at all, is not part of the contract)"""
    n = getattr(ctx, "domain_n", None)
    if isinstance(res, VOpaque) and res.name == "Polynomial::from_coefficients_vec":
        # coefficients the path decided to be zero ARE zero (exact substitution), before trailing zeros are dropped
        zero = {}
        for c_, t_ in getattr(ctx, "pcs", []) or []:
            if t_ and isinstance(c_, VOpaque) and c_.name == "eq" and len(c_.args) == 2:
                import re as _re
                l_, r_ = canon(c_.args[0]), canon(c_.args[1])
                if r_ in ("int:0", "0") and _re.fullmatch(r"[ab]\d+", l_):
                    zero[l_] = C(0)
        items = [(reduce_root(x, "w", n) if n else P(x)).subst(zero) for x in res.args[0].items]
        while items and P(items[-1]).is_zero():
            items.pop()
        res = VOpaque(res.name, [VArr(items, "vec")])
    return {"result": res, "exits": [e for e in ctx.exits]}


PMUL = [(0, 2), (1, 1), (1, 2), (2, 2), (2, 3), (3, 3)] + ([(4, 5), (1, 17), (9, 9), (8, 8)] if THOROUGH else [])
for (la_, lb_) in PMUL:
    u = unit(f"kernels.poly_mul[la={la_},lb={lb_}]", PF, "<Polynomial as Mul<&'aPolynomial>>::mul",
             [("self", mk_poly("a", la_)), ("other", mk_poly("b", lb_))], c_poly_mul(la_, lb_), out_poly_mul, path_dependent=True)
    u.extra_contracts = dict(DOMC, **{"EvaluationDomain::new": c_domain_new, "Polynomial::from_coefficients_vec": c_from_coefficients_vec,
                                      ".expect": lambda it, recv, a: (recv[2] if isinstance(recv, tuple) and recv and recv[0] == "fallible" else recv)})
    u.helper_files = [DM, "src/fft/evaluations.rs", PF]


# ---- polynomial product, ALL lengths (structure only): which domain the product is interpolated over
PRODUCT_DOMAIN = VOpaque("product_domain", [])


def c_poly_mul_struct(it, recv, a):
    """for operands of ANY length: zero if either operand is zero; otherwise both coefficient vectors are transformed over ONE domain,
    multiplied pointwise and interpolated back, and that domain is built by EvaluationDomain::new(k) with
    k >= degree(self) + degree(other) + 1 (the number of coefficients of the product) - so the cyclic convolution IS the product."""
    other = a[0]
    z = it.decided(canon(VOpaque("or", [VOpaque("is_zero", [recv]), VOpaque("is_zero", [other])])))
    if z is None:
        raise OutsideFragment(f"poly mul (structural): the path does not decide `self.is_zero() || other.is_zero()` (keys: {it.decided_keys})")
    if z:
        return VOpaque("Polynomial::zero", [])
    it.ctx.exits.append(("panic_if_err", "EvaluationDomain::new => Err"))
    it.ctx.domain_ok = True
    fa = VOpaque("Evaluations", [VOpaque("fft", [PRODUCT_DOMAIN, Sym(recv.path + ".coeffs")]), PRODUCT_DOMAIN])
    fb = VOpaque("Evaluations", [VOpaque("fft", [PRODUCT_DOMAIN, Sym(other.path + ".coeffs")]), PRODUCT_DOMAIN])
    return VOpaque("interpolate", [P(fa) * P(fb)])          # `*=` on evaluations: the pointwise product


def c_product_domain_new(it, recv, a):
    """records whether the requested size covers the product: with len(x.coeffs) = degree(x) + 1 + slack_x (slack_x >= 0 for a non-zero x)
    the request minus (degree(self) + degree(other) + 1) must have no negative coefficient"""
    k = P(a[0])
    sub = {}
    for nme in ("self", "other"):
        sub[canon(VOpaque("len", [Sym(nme + ".coeffs")]))] = P(VOpaque("degree", [Sym(nme)])) + 1 + P(Sym("slack_" + nme))
    need = P(VOpaque("degree", [Sym("self")])) + P(VOpaque("degree", [Sym("other")])) + 1
    diff = k.subst(sub) - need
    ok = all(c >= 0 for c in diff.t.values())
    prev = getattr(it.ctx, "domain_ok", True)
    it.ctx.domain_ok = prev and ok
    it.ctx.domain_req = canon(k)
    return ("fallible", "EvaluationDomain::new => Err", PRODUCT_DOMAIN)


def out_poly_mul_struct(res, args, ctx):
    return {"result": res, "exits": list(ctx.exits),
            # True / False only (the offending request is in the unit's notes): the verdict must not depend on how the request is spelled
            "domain_covers_the_product": True if getattr(ctx, "is_contract", False) else bool(getattr(ctx, "domain_ok", True))}


_pm = unit("kernels.poly_mul[all lengths].structure", PF, "<Polynomial as Mul<&'aPolynomial>>::mul",
           [("self", sym("self")), ("other", sym("other"))], c_poly_mul_struct, out_poly_mul_struct, path_dependent=True)
_pm.extra_contracts = {
    ".is_zero": lambda it, recv, a: VOpaque("is_zero", [recv]),
    ".degree": lambda it, recv, a: VOpaque("degree", [recv]),
    "Polynomial::zero": lambda it, recv, a: VOpaque("Polynomial::zero", []),
    "EvaluationDomain::new": c_product_domain_new,
    ".expect": lambda it, recv, a: ((it.ctx.exits.append(("panic_if_err", recv[1])), recv[2])[1] if isinstance(recv, tuple) and recv and recv[0] == "fallible" else recv),
    ".fft": lambda it, recv, a: VOpaque("fft", [recv, a[0]]),
    "domain.fft": lambda it, recv, a: VOpaque("fft", [recv, a[0]]),
    "Evaluations::from_vec_and_domain": lambda it, recv, a: VOpaque("Evaluations", [a[0], a[1]]),
    ".interpolate": lambda it, recv, a: VOpaque("interpolate", [recv]),
}
_pm.helper_files = [PF]


# ---- closed-form public-input / first-Lagrange evaluations of the verifier: proof.rs compute_lagrange_and_barycentric_evaluations, instances
PR = "src/proof_system/proof.rs"


def mk_domain_sym():
    return VStruct("EvaluationDomain", {"size": Sym("n"), "size_as_field_element": Sym("n_field"), "size_inv": Sym("n_inv"),
                                        "group_gen": Sym("w"), "group_gen_inv": Sym("wi"), "generator_inv": Sym("gi"), "log_size_of_group": Sym("log_n")})


def c_lagrange_bary(k):
    def c(it, recv, a):
        """with D_0 = n (z - 1) and D_j = root_j z - 1 for every NON-ZERO public input j (zero inputs are skipped, the pairing of the
        remaining inputs with their roots is positional):  Err(ProofVerificationError) if some D is zero (z inside the domain);
        otherwise  l1 = z_h / D_0  and  pi = (z_h / n) * sum_j pi_j / D_j   (stated in product form over T = prod D)"""
        roots, evals, z, zh, dom = a
        z, zh = P(z), P(zh)
        nz = []
        for i in range(k):
            d = it.decided(f"eq(e{i}, int:0)")
            if d is None:
                raise OutsideFragment(f"lagrange/barycentric: the path does not decide e{i} == 0 (keys: {it.decided_keys})")
            if not d:
                nz.append(i)
        D = [P(Sym("n_field")) * (z - 1)] + [P(Sym(f"r{i}")) * z - 1 for i in nz]
        for d_ in D:
            dz = it.decided(canon(VOpaque("eq", [d_, C(0)])))
            if dz is None:
                dz = it.decided(canon(VOpaque("eq", [d_, 0])))
            if dz is None:
                raise OutsideFragment(f"lagrange/barycentric: the path does not decide whether a denominator is zero (keys: {it.decided_keys})")
            if dz:
                from vlib.ring import VErr
                return VErr("Error::ProofVerificationError")
        T = P(1)
        for d_ in D:
            T = T * d_
        inv = P(inv_sym(T))

        def inv_of(j):
            rest = P(1)
            for i_, d_ in enumerate(D):
                if i_ != j:
                    rest = rest * d_
            return inv * rest
        l1 = zh * inv_of(0)
        pi = P(0)
        for pos, i in enumerate(nz):
            pi = pi + P(Sym(f"e{i}")) * inv_of(pos + 1)
        pi = pi * zh * P(Sym("n_inv"))
        return VOk(VTuple([l1, pi]))
    return c


for k_ in (0, 1, 2, 3):
    u = unit(f"proof.compute_lagrange_and_barycentric_evaluations[inputs={k_}]", PR, "alloc::compute_lagrange_and_barycentric_evaluations",
             [("public_input_roots", mk_arr("r", k_)), ("evaluations", mk_arr("e", k_)), ("point", sym("z")), ("z_h_eval", sym("zh")), ("domain", mk_domain_sym)],
             c_lagrange_bary(k_), lambda res, args, ctx: {"result": res, "exits": list(ctx.exits)}, path_dependent=True)
    u.extra_contracts = {"batch_inversion": c_bi_nonzero}
    u.helper_files = ["src/util.rs"]


# ---- prover side: proof.rs compute_barycentric_eval (dense evaluation vector over the whole domain), instances n = 1, 2, 4
def c_bary_dense(n):
    def c(it, recv, a):
        """PI(z) = (z^n - 1)/n * sum_{i : e_i != 0} e_i / (w^-i z - 1); a denominator that is zero (z inside the domain) contributes nothing
        (batch_inversion leaves zeros - the prover's value is then not PI(z); z is a random challenge); product form over the non-zero ones"""
        ev_, z, dom = a
        z = P(z)
        wi = P(Sym("wi"))
        nz = []
        for i in range(n):
            d = it.decided(f"eq(e{i}, int:0)")
            if d is None:
                raise OutsideFragment(f"barycentric (dense): the path does not decide e{i} == 0 (keys: {it.decided_keys})")
            if not d:
                nz.append(i)
        D = [(wi ** i) * z - 1 for i in nz]
        live = []
        for d_ in D:
            dz = it.decided(canon(VOpaque("eq", [d_, C(0)])))
            if dz is None:
                dz = it.decided(canon(VOpaque("eq", [d_, 0])))
            if dz is None:
                dz = False if not P(d_).vars() else None
            if dz is None:
                raise OutsideFragment(f"barycentric (dense): the path does not decide whether a denominator is zero (keys: {it.decided_keys})")
            live.append(not dz)
        if live.count(False) > 1:
            # MATHEMATICAL FACT: the w^-i are pairwise distinct, so w^-i z == 1 holds for at most one i
            raise InfeasiblePath("two denominators w^-i z - 1 zero at once")
        T = P(1)
        for d_, l_ in zip(D, live):
            if l_:
                T = T * d_
        inv = P(inv_sym(T))
        tot = P(0)
        for pos, i in enumerate(nz):
            if not live[pos]:
                continue
            rest = P(1)
            for p2, d_ in enumerate(D):
                if p2 != pos and live[p2]:
                    rest = rest * d_
            tot = tot + P(Sym(f"e{i}")) * inv * rest
        return tot * (z ** n - 1) * P(Sym("n_inv"))
    return c


for n_ in (1, 2, 4):
    u = unit(f"proof.compute_barycentric_eval[n={n_}]", PR, "alloc::compute_barycentric_eval",
             [("evaluations", mk_arr("e", n_)), ("point", sym("z")), ("domain", mk_domain(n_))], c_bary_dense(n_),
             lambda res, args, ctx: {"result": res, "exits": list(ctx.exits)}, path_dependent=True)
    u.extra_contracts = dict(FFTC, **{".into_par_iter": lambda it, recv, a: (VIter(list(recv.items)) if isinstance(recv, (VArr, VIter)) else
                                                                           (VIter(list(range(recv.lo, recv.hi))) if hasattr(recv, "lo") and isinstance(recv.lo, int) and isinstance(recv.hi, int) else NotImplemented)),
                                      ".size": lambda it, recv, a: recv.fields["size"] if isinstance(recv, VStruct) else NotImplemented})
    u.helper_files = ["src/util.rs"]
    u.max_paths = 4096

"""Ring/trace unit for Compiler::preprocess (src/compiler.rs): the WIRING of the compiled keys, per instance size (k gates, all selector
values symbolic).  Contract, written from a table and not from the code's order of statements:

    column_S    = [gate_0.S, .., gate_{k-1}.S, 0, .., 0]            (padded to size = next_power_of_two(k))   for each of the 11 selectors S
    poly_S      = from_coefficients_vec(ifft(domain, column_S))      domain = EvaluationDomain::new(size - 1)
    comm_S      = commit(poly_S) or the default commitment
    evals_S     = Evaluations(coset_fft(domain_8n, poly_S), domain_8n)     domain_8n = EvaluationDomain::new(8 * domain.size())
    sigma_j     = compute_sigma_polynomials(perm, size, domain)[j]; its commitment is NOT defaulted (`?`)

and every field of the verifier key / prover key holds the object of the SAME selector (q_c, q_l, q_r are shared between widgets), the
permutation key also the coset evaluations of X, the keys go to Prover::new / Verifier::new with (label, .., size, constraints)."""
from vlib.ring import (Unit, Sym, VArr, VTuple, VOpaque, VStruct, VOk, VErr, UNIT, as_poly as P, sym, OutsideFragment, canon)
from vlib.poly import Poly, S, C

UNITS = []
CONTRACTS = {}
CP = "src/compiler.rs"
SELS = ["q_m", "q_l", "q_r", "q_o", "q_f", "q_c", "q_arith", "q_range", "q_logic", "q_fixed_group_add", "q_variable_group_add"]
GATE_FIELDS = SELS + ["w_a", "w_b", "w_c", "w_d"]


def mk_prover(k):
    def mk():
        gates = [VStruct("Gate", {f: Sym(f"g{i}.{f}") for f in GATE_FIELDS}) for i in range(k)]
        return VStruct("Composer", {"constraints": VArr(gates, "vec"), "perm": Sym("prover.perm"), "public_inputs": Sym("prover.public_inputs")})
    return mk


def npot(k):
    n = 1
    while n < k:
        n *= 2
    return n


def dom(arg):
    return VOpaque("domain_of", [arg])


def c_preprocess(k):
    def c(it, recv, a):
        label, ck, ok, prover = a
        X = it.ctx.exits
        size = npot(k)
        X.append(("try", "EvaluationDomain::new => Err"))
        domain = dom(size - 1)
        col, poly, comm, ev = {}, {}, {}, {}
        for s in SELS:
            col[s] = VArr([P(Sym(f"g{i}.{s}")) for i in range(k)] + [C(0)] * (size - k), "vec")
            poly[s] = VOpaque("from_coefficients_vec", [VOpaque("ifft", [domain, col[s]])])
        sig = VOpaque("compute_sigma_polynomials", [Sym("prover.perm"), size, domain])
        for j in range(4):
            poly[f"s_sigma_{j + 1}"] = VOpaque("idx", [sig, j])
        for s in SELS:
            comm[s] = VOpaque("unwrap_or_default", [VOpaque("commit", [ck, poly[s]])])
        for j in range(4):
            X.append(("try", "commit => Err"))
            comm[f"s_sigma_{j + 1}"] = VOpaque("ok_of_commit", [ck, poly[f"s_sigma_{j + 1}"]])
        X.append(("try", "EvaluationDomain::new => Err"))
        d8 = dom(C(8) * P(VOpaque("size", [domain])))
        for s in list(poly):
            ev[s] = VOpaque("Evaluations", [VOpaque("coset_fft", [d8, poly[s]]), d8])
        lin = VOpaque("Evaluations", [VOpaque("coset_fft", [d8, VArr([C(0), C(1)], "array")]), d8])
        pe = lambda s: VTuple([poly[s], ev[s]])
        vk = VStruct("VerifierKey", {
            "n": k,
            "arithmetic": VStruct("VerifierKey", {s: comm[s] for s in ["q_m", "q_l", "q_r", "q_o", "q_f", "q_c", "q_arith"]}),
            "logic": VStruct("VerifierKey", {"q_c": comm["q_c"], "q_logic": comm["q_logic"]}),
            "range": VStruct("VerifierKey", {"q_range": comm["q_range"]}),
            "fixed_base": VStruct("VerifierKey", {"q_l": comm["q_l"], "q_r": comm["q_r"], "q_fixed_group_add": comm["q_fixed_group_add"]}),
            "variable_base": VStruct("VerifierKey", {"q_variable_group_add": comm["q_variable_group_add"]}),
            "permutation": VStruct("VerifierKey", {f"s_sigma_{j}": comm[f"s_sigma_{j}"] for j in (1, 2, 3, 4)}),
        })
        pk = VStruct("ProverKey", {
            "n": VOpaque("size", [domain]),
            "arithmetic": VStruct("ProverKey", {s: pe(s) for s in ["q_m", "q_l", "q_r", "q_o", "q_f", "q_c", "q_arith"]}),
            "logic": VStruct("ProverKey", {"q_c": pe("q_c"), "q_logic": pe("q_logic")}),
            "range": VStruct("ProverKey", {"q_range": pe("q_range")}),
            "permutation": VStruct("ProverKey", dict({f"s_sigma_{j}": pe(f"s_sigma_{j}") for j in (1, 2, 3, 4)}, linear_evaluations=lin)),
            "variable_base": VStruct("ProverKey", {"q_variable_group_add": pe("q_variable_group_add")}),
            "fixed_base": VStruct("ProverKey", {"q_l": pe("q_l"), "q_r": pe("q_r"), "q_c": pe("q_c"), "q_fixed_group_add": pe("q_fixed_group_add")}),
            "v_h_coset_8n": VOpaque("compute_vanishing_poly_over_coset", [d8, VOpaque("size", [domain])]),
        })
        X.append(("try", "Prover::new => Err"))
        X.append(("try", "Verifier::new => Err"))
        lab = VOpaque("to_vec", [label])
        return VOk(VTuple([VOpaque("Prover::new", [lab, pk, ck, vk, size, k]),
                           VOpaque("Verifier::new", [lab, vk, ok, VOpaque("public_input_indexes", [Sym("prover")]), size, k])]))
    return c


def out(res, args, ctx):
    return {"exits": list(ctx.exits), "result": res}


EXTRA = {
    "EvaluationDomain::new": lambda it, recv, a: ("fallible", "EvaluationDomain::new => Err", dom(a[0] if isinstance(a[0], int) else P(a[0]))),
    ".ifft": lambda it, recv, a: VOpaque("ifft", [recv, VArr(list(a[0].items), "vec") if isinstance(a[0], VArr) else a[0]]),
    ".size": lambda it, recv, a: VOpaque("size", [recv]),
    ".coset_fft": lambda it, recv, a: VOpaque("coset_fft", [recv, a[0]]),
    ".compute_vanishing_poly_over_coset": lambda it, recv, a: VOpaque("compute_vanishing_poly_over_coset", [recv, a[0]]),
    "Polynomial::from_coefficients_vec": lambda it, recv, a: VOpaque("from_coefficients_vec", [a[0]]),
    "perm.compute_sigma_polynomials": lambda it, recv, a: VArr([VOpaque("idx", [VOpaque("compute_sigma_polynomials", [Sym("prover.perm"), a[0], a[1]]), j]) for j in range(4)], "array"),
    "commit_key.commit": lambda it, recv, a: ("fallible", "commit => Err", VOpaque("ok_of_commit", [recv, a[0]])),
    ".unwrap_or_default": lambda it, recv, a: VOpaque("unwrap_or_default", [VOpaque("commit", [recv[2].args[0], recv[2].args[1]])]) if isinstance(recv, tuple) and recv and recv[0] == "fallible" else NotImplemented,
    "Evaluations::from_vec_and_domain": lambda it, recv, a: VOpaque("Evaluations", [a[0], a[1]]),
    "Prover::new": lambda it, recv, a: ("fallible", "Prover::new => Err", VOpaque("Prover::new", list(a))),
    "Verifier::new": lambda it, recv, a: ("fallible", "Verifier::new => Err", VOpaque("Verifier::new", list(a))),
    ".public_input_indexes": lambda it, recv, a: VOpaque("public_input_indexes", [Sym("prover")]),
    ".constraints": lambda it, recv, a: len(recv.fields["constraints"].items),
    ".to_vec": lambda it, recv, a: VOpaque("to_vec", [recv]),
    ".clone": lambda it, recv, a: recv,
}

for k_ in (1, 3, 4, 5):
    u = Unit(f"compiler.preprocess[gates={k_}]", CP, "Compiler::preprocess",
             [("label", sym("label")), ("commit_key", sym("commit_key")), ("opening_key", sym("opening_key")), ("prover", mk_prover(k_))],
             c_preprocess(k_), out)
    u.extra_contracts = EXTRA
    UNITS.append(u)


# ------------------------------------------------------------------ the selector fill for ALL circuit sizes (symbolic gate list)
def c_fill_all(it, recv, a):
    """for every size: column S, handed to ifft, is the zero vector of length `size` with entry i set to gate_i.S for EVERY gate i of the
    composer (one generic assignment per gate, in order) - no gate is left out, whatever the number of gates"""
    cons = Sym("prover.constraints")
    for s_ in SELS:
        col = VOpaque("updated", [VOpaque("zeros", [Sym("size")]), Sym("prover.constraints[#]"), Sym(f"prover.constraints[*].{s_}")])
        it.ctx.event("ifft", canon(col))
    return UNIT


def out_fill(res, args, ctx):
    return {"ifft_inputs": [e for e in ctx.log if e and e[0] == "ifft"][:len(SELS)]}


_fu = Unit("compiler.preprocess[all sizes].selector_fill", CP, "Compiler::preprocess",
           [("label", sym("label")), ("commit_key", sym("commit_key")), ("opening_key", sym("opening_key")), ("prover", sym("prover"))],
           c_fill_all, out_fill, trace_only=True, tracked=tuple(SELS), consts={"__index_fill": True})
_fu.extra_contracts = dict(EXTRA, **{
    ".ifft": lambda it, recv, a: (it.ctx.event("ifft", canon(a[0])), VOpaque("ifft", [recv, a[0]]))[1],
    ".constraints": lambda it, recv, a: VOpaque("len", [Sym("prover.constraints")]),
    ".next_power_of_two": lambda it, recv, a: Sym("size"),
})
UNITS.append(_fu)

"""Registry: property -> units of each engine, claim text, assumptions.  MANIFEST.json is generated from this
file by tools/gen_manifest.py so that the two never disagree."""
import os
from vlib import runner

T_VERUS = [
    "Verus 0.2026.09.13 + bundled Z3 (soundness of the verifier and of its encoding of Rust)",
    "rustc 1.98.1 front end / CTFE for const assertions",
    "overlay tool (/verif/vlib/overlay.py + tools/vfx): insert-only annotation of the real source, every edit listed in coverage.overlay",
    "vstd specifications of core/alloc (Vec, slices, Option, Result, integer ops)",
]
T_RING = [
    "ring/trace checker /verif/vlib/ring.py + poly.py (symbolic execution of the real fn AST, exact polynomial normal form)",
    "syn 2 parser (tools/vfx) for the AST dump of the real source",
    "the independent protocol statement /verif/specs/ring/protocol.py, verifier.py (reviewed by hand)",
]
A_VERUS = [
    "64-bit target: `global size_of usize == 8`",
    "contracts marked external_body / assume_specification (listed in coverage.assumed_contracts) are assumed, not proved",
]
A_RING = [
    "RING model: BlsScalar + - * neg square double are the operations of a commutative ring of characteristic r "
    "(machine arithmetic treated as mathematical); G1 points and Polynomials form a module over it (msm, +, -, scalar *)",
    "callee contracts of dependencies used by R (merlin Transcript::{new,append_message,append_u64,challenge_bytes} as log events; "
    "msm_variable_base = sum s_i*P_i; batch_normalize = identity on group elements; pairing functions opaque)",
    "std iterator adaptors on collections of known length (iter/iter_mut/zip/map/filter/rev/skip/take/chain/enumerate/sum/any/all/eq, "
    "chunks(_mut), split_at(_mut), split_at_checked, swap, reverse, resize, clear, pop, last, extend_from_slice, copy_from_slice) have "
    "their documented semantics; adapters are evaluated eagerly and a write between an eager filter test and its lazy turn is reported as "
    "outside the fragment",
    "rayon: par_iter / par_iter_mut / into_par_iter / par_chunks(_mut) yield the items of their sequential counterparts, each exactly once, "
    "and the kernels' closures touch only their own item (so every schedule equals the sequential order); rayon::current_num_threads() is an "
    "instance parameter of the units that read it",
    "dependency constants with listed values: BlsScalar::CAPACITY = 254, BlsScalar::NUM_BITS = 255 (dusk-bls12_381 0.14.2 scalar.rs), "
    "usize::BITS = 64; BitIterator8 yields the 256 bits most significant first; BlsScalar::from_bytes is the canonical decoder "
    "(None for values >= r), BlsScalar::from_raw reduces mod r",
    "uninterpreted symbols: field inverses inv(p) (results stated in product form), roots of unity w with the single relation "
    "w^(n/2) = -1, dependency functions without a listed meaning (structural comparison only)",
    "statements outside R's fragment that mention no tracked object are havocked in trace-only units (their exits are recorded as "
    "unmodelled_exit entries); a code-side havoc facing an exact contract value is UNDECIDED, never a violation",
]

WIDGETS_PK = ("compute_quotient_i", "compute_linearization", "quotient_", "linearizer_", ".delta", "delta_xor_and", "extract_bit", "check_bit")


def pk_unit(n):
    return (n.endswith("compute_quotient_i") or n.endswith("compute_linearization") or "quotient_" in n or "linearizer_" in n
            or n.endswith(".delta") or n.endswith("delta_xor_and") or n.endswith("extract_bit") or n.endswith("check_bit_consistency"))


def vk_unit(n):
    return n.endswith("compute_linearization_commitment") or n.endswith(".delta") or n.endswith("delta_xor_and") \
        or n.endswith("extract_bit") or n.endswith("check_bit_consistency")


PROPS = {
    "C01": {
        "v_units": ["capacity.py", "compress.py"],
        "r": [("compress", lambda n: "unpack_array_len" in n),
              ("prover", lambda n: n.startswith("prover.") or n.startswith("lemma.") or n.startswith("quotient.")), ("verifier", lambda n: n.startswith("verifier.") or n.startswith("proof.verify")),
              ("linearization", None), ("serial", lambda n: "Prover." in n or "Verifier." in n or "framing[" in n),
              ("kzg", lambda n: "CommitKey.commit" in n), ("preprocess", None)],
        "claim": "function-level necessary conditions of completeness only: (a) prover/verifier agreement - the Fiat-Shamir schedule "
                 "the real prove_inner performs (trace-only symbolic run) is the protocol schedule, and is event-for-event the one "
                 "Proof::verify rebuilds from the returned proof (contract-level lemma); the two opening lists are the verifier's "
                 "batching order; (b) capacity chain: CommitKey::{max_degree,truncate}, PublicParameters::max_degree, "
                 "Compiler::max_constraints against their arithmetic specs for all sizes."
                 "Also: the unsatisfied-circuit decision of quotient_poly::compute, the inputs the prover hands to it (every public input of the instance interpolated at its row, the masked polynomials, the seven challenges), and PackedCircuitReader::unpack_array_len per tag (compressed route). Serialized route: Prover/Verifier::to_bytes and try_from_bytes agree on framing and exits (the decoder's only exits are the listed length / consistency checks; every encoder output - including an empty label - passes them; framing lemma). The prover's linearisation polynomial r(X) is the protocol's r(X) over the circuit's domain.",
        "technique": "contract-based deductive verification: ring/trace checker in trace-only mode on prove_inner + Verus on the capacity arithmetic",
        "level_note": "NOT decided: algebraic completeness (quotient divisibility, FFT, KZG, pairing). prove_inner statements that touch "
                      "neither transcript nor rng are havocked (listed in the evidence).",
        "design_ref": "DESIGN.md §4 C01",
        "assumptions": A_RING + A_VERUS,
        "trusted": T_RING + T_VERUS,
        "not_covered": ["algebraic completeness (A1)", "Prover::new index arithmetic (not yet under contract)"],
    },
    "C02": {
        "r": [("verifier", lambda n: n.startswith("proof.") or n.startswith("verifier.verify_with_version")), ("widgets", vk_unit),
              ("permutation", lambda n: "compute_sigma_permutations" in n), ("composer_leaves", lambda n: "internal" in n), ("preprocess", None)],
        "claim": "verifier-side necessary conditions of soundness only: in Proof::verify / verify_legacy the ONLY Ok path is "
                 "guarded by the pairing check on the two computed G1 elements (exit structure compared exactly); every one of the 15 "
                 "evaluations is bound in [E] with the matching batching coefficient and every opened commitment appears in [F] "
                 "(V2/V3; the known V1 gap for q_arith,q_c,q_l,q_r is part of the legacy contract); all five widget terms, the "
                 "permutation term and the four quotient shares are present with the protocol's scalars."
                 "Also: Permutation::compute_sigma_permutations closes exactly ONE cycle per witness (instances with fan-out 3, 16, 17, 33) and every appended row enters the permutation map (leaf trace); a callee's errors cannot be swallowed by a fallback in verify_with_version. Compiler::preprocess (instances of 1, 3, 4, 5 gates, all selector values symbolic): every selector column holds every gate's selector, and every field of the verifier key and of the prover key is the commitment / polynomial / coset evaluations of the column of the SAME selector.",
        "technique": "contract-based deductive verification: ring/trace contract checker (exact polynomial normal form, exit structure)",
        "level_note": "NOT decided: soundness against all provers (KZG binding, Schwartz-Zippel). Same units as C03, reported for the "
                      "obligations that are necessary for soundness.",
        "design_ref": "DESIGN.md §4 C02",
        "assumptions": A_RING,
        "trusted": T_RING,
        "not_covered": ["soundness proper (cryptographic reduction)"],
    },
    "C04": {
        "r": [("verifier", lambda n: n.startswith("verifier.") or n.startswith("transcript.") or n.startswith("widget.seed")),
              ("prover", lambda n: n.startswith("prover.transcript_for_version") or n.startswith("prover.prove_with_version") or n.startswith("prover.prove_inner"))],
        "claim": "Verifier::verify_with_version: length mismatch => Err(InconsistentPublicInputsLen) before anything else; every public "
                 "input absorbed in order right after the seeded transcript; V1 -> verify_legacy, V2/V3 -> verify; transcript seeding "
                 "(base/base_v3) absorbs label, constraints, all 15 verifier-key commitments (s_sigma_4 only in V3) and the domain size; "
                 "Prover::prove_with_version: V1 -> Err(UnsupportedProvingVersion), V2 -> prove_legacy, V3 -> prove_inner; the prover "
                 "absorbs the same public inputs at the same place.",
        "technique": "contract-based deductive verification: ring/trace contract checker (transcript as event sequence, exits)",
        "level_note": "Assumed: merlin API as log events; transcript_label_static returns the label bytes (inside cfg_if!, not under "
                      "contract); Verifier::new / Prover::new store base(label, vk, constraints). Not decided: 'every other combination "
                      "yields an error' (random-oracle argument).",
        "design_ref": "DESIGN.md §4 C04",
        "assumptions": A_RING,
        "trusted": T_RING,
        "not_covered": ["transcript_label_static (cfg_if!)", "public_input_indexes sorted / dense_public_inputs", "Verifier::new"],
    },
    "C06": {
        "r": [("prover", lambda n: n.startswith("prover.sample") or n.startswith("prover.blind") or n.startswith("prover.prove_inner"))],
        "claim": "masking structure: blind_poly_with_blinders(w, b) == ifft(w) + (sum b_i X^i)(X^n - 1) for 2 and 3 blinders; "
                 "sample_wire_blinders draws 8 scalars in the order [a0,a1],[b0,b1],[c0,c1],[d0,d1]; blind_poly(_,_,2,_) draws 3; in "
                 "prove_inner the RNG is drawn exactly 14 times, in this order, each draw used exactly once at its prescribed place "
                 "(4 wire masks of degree 1, permutation mask of degree 2, b12,b13,b14 in the quotient shares), and the re-randomised "
                 "shares recombine to t(X) (the three scalars cancel).",
        "technique": "contract-based deductive verification: ring/trace contract checker (trace-only mode, exact polynomial normal form over X, X^n)",
        "level_note": "Assumed: BlsScalar::random = one draw; domain.ifft returns n coefficients; no other callee receives rng (checked: "
                      "every statement mentioning rng is inside the fragment). Not decided: distributional statements.",
        "design_ref": "DESIGN.md §4 C06",
        "assumptions": A_RING,
        "trusted": T_RING,
        "not_covered": ["two proofs share no commitment / evaluation (distribution statement)"],
    },
    "C03": {
        "r": [("verifier", None), ("widgets", vk_unit), ("serial", lambda n: "Proof" in n or "Commitment" in n),
              ("kernels", lambda n: n.startswith("proof.compute_lagrange"))],
        "claim": "Proof::verify (V2/V3), verify_legacy (V1), Verifier::verify_with_version, the six widget "
                 "compute_linearization_commitment fns, append_linearization_commitment_terms, the transcript protocol "
                 "(append_commitment/append_scalar/challenge_scalar/circuit_domain_sep/base/base_v3) and verifier-key seeding: "
                 "for ALL symbolic inputs the real code's transcript schedule, its two pairing inputs and its exits are "
                 "equal (exact polynomial normal form / sequence equality) to an independent statement of the PLONK "
                 "verification equation and Fiat-Shamir order."
                 "Also: the proof codec (Proof / ProofEvaluations / Commitment from_bytes read every item with the type's canonical decoder, nothing before or after it); "
                 "the verifier's closed forms l1 = z_h / (n (z - 1)) and PI(z) = (z_h / n) sum pi_j / (root_j z - 1) with Err on a zero denominator (instances of 0..3 public inputs, every zero pattern).",
        "technique": "contract-based deductive verification: ring/trace contract checker (symbolic execution of the real fn, "
                     "callee contracts, exact polynomial normal form)",
        "level_note": "Trusted: the checker R itself, syn, the hand-written protocol statement. Assumed: RING model of the field, "
                      "merlin/msm/batch_normalize/pairing contracts; L1(z), PI(z), Z_H(z) are uninterpreted here.",
        "design_ref": "DESIGN.md §4 C03, §2.2.1",
        "assumptions": A_RING,
        "trusted": T_RING,
        "not_covered": ["meaning of L1(z)/PI(z)/Z_H(z) (lagrange helper, evaluate_vanishing_polynomial bodies)",
                        "Verifier::new establishing self.transcript == base(label, vk, constraints)"],
    },
    "C05": {
        "r": [("widgets", pk_unit), ("prover", lambda n: n.startswith("quotient.") or n.startswith("prover.prove_inner")), ("composer_leaves", lambda n: "internal" in n),
              ("permutation", None), ("linearization", None), ("preprocess", None), ("kernels", lambda n: n.startswith("proof.compute_barycentric"))],
        "claim": "the five ProverKey::compute_quotient_i / compute_linearization and the permutation quotient/linearizer "
                 "terms equal, as polynomials in all their inputs, the gate identities of specs/ring/protocol.py times "
                 "selector and separation challenge (all field values, all rows); quotient_poly::compute returns "
                 "Err(CircuitUnsatisfied) exactly when the interpolated quotient has more than 7n coefficients and Ok(it) otherwise; "
                 "append_custom_gate_internal records every appended row's four wires in the permutation map and pushes the "
                 "constraint's selectors verbatim (effect trace)."
                 "Also: compute_permutation_vec (its only exit is the zero-denominator assert; instances n = 1, 2, 4 of the grand product), compute_sigma_permutations instances, prove_inner's exits and the exact inputs of quotient_poly::compute. "
                 "The prover's linearisation polynomial r(X) (linearization_poly::compute, compute_circuit_satisfiability, the prover half of the permutation widget) equals the protocol's r(X) over the CIRCUIT'S domain; every slice / index of the quotient's coefficient vector in prove_inner is justified by an established length bound (len >= 3n+1), so degenerate blinders cannot panic the split.",
        "technique": "contract-based deductive verification: ring/trace contract checker (exact polynomial normal form)",
        "level_note": "Decides only the per-row identities computed by the prover. Not decided: the equivalence between "
                      "`quotient degree <= 7n` and row-wise satisfaction (polynomial division over the FFT), sigma construction.",
        "design_ref": "DESIGN.md §4 C05",
        "assumptions": A_RING,
        "trusted": T_RING,
        "not_covered": ["returns a proof exactly when every row identity holds (A2)", "compute_sigma_permutations (A3)",
                        "panic-freedom of prove_inner beyond the quotient split (havocked statements are not index-checked)"],
    },
    "C07": {
        "v_units": ["logic.py"],
        "r": [("composer_leaves", None), ("gadgets", None)],
        "claim": "shape independence as non-interference: every verified component contract states gates(final) == gates(old) + shape(...) "
                 "where shape is a function of wire INDICES and constant parameters only (no witness value occurs in it), for all field "
                 "values: append_gate, append_evaluated_output (row count 1 on all three q_O paths; output witness iff q_O != 0, a "
                 "selector, not a witness value), gate_add/mul, assert_equal(_constant), append_constant/public, component_boolean, "
                 "component_select/_one/_zero, range_check_even / range_check / component_range(_bits) for every width <= 256. "
                 "Totality: all index / overflow / unwrap / callee-precondition obligations of these bodies are discharged.",
        "technique": "contract-based deductive verification: Verus on the real functions annotated in place (overlay); leaf effects by ring/trace checker",
        "level_note": "Verus units: base gates, boolean/select, range, truncation, logic (all widths). Ring/trace units (sequence of composer "
                      "operations, every value-dependent branch path-split and shown to produce the same sequence; dependency "
                      "preconditions such as Z != 0 before JubJubAffine::from must be established on every path): all point gadgets incl. "
                      "the 252-round component_mul_point and the 256-round fixed-base gadget, component_decomposition for N in {1,2,8,252,256}. "
                      "Precondition of every component: witness arguments were allocated by this composer (valid_w).",
        "design_ref": "DESIGN.md §4 C07",
        "assumptions": A_VERUS + ["CANON model of BlsScalar", "cut_le_bits (BitIterator8) contract", "Runtime::event cuts have no effect on the views"],
        "trusted": T_VERUS + T_RING,
        "not_covered": ["component_decomposition for N outside {1,2,8,252,256}", "Compiler::compile (default instance) vs Composer::prove pairing"],
    },
    "C08": {
        "v_units": ["composer_base.py", "composer_bits_select.py", "gadget_lemmas.py"],
        "r": [("composer_leaves", None), ("gadgets", lambda n: n.startswith("base."))],
        "claim": "code contracts (CANON model, all field values, all selector tuples): the Constraint builder, append_gate, "
                 "append_evaluated_output (all three q_O paths: exactly one row, output witness c with q_O*c + x = 0 mod r, None iff q_O = 0), "
                 "gate_add/gate_mul (returned witness == x), assert_equal, assert_equal_constant, append_constant, append_public, "
                 "component_boolean, component_select/_one/_zero push exactly the documented coefficient tuples and honest witness values; "
                 "semantic lemmas over those rows (R prime as the only axiom): boolean row <=> w in {0,1}; assert_equal row <=> equal; "
                 "assert_equal_constant row <=> w == k + PI; gate_add/gate_mul row <=> output == x; output wire uniquely determined whenever "
                 "q_O != 0; component_select rows => out == bit*a + (1-bit)*b; select_one / select_zero rows <=> 1 - bit + bit*v / bit*v."
                 "Second opinion by R on the same functions (assert_equal, assert_equal_constant, append_public, append_constant, gate_add, gate_mul, append_gate, component_boolean, component_select*, and the three solving paths + q_O = 0 case of append_evaluated_output).",
        "technique": "contract-based deductive verification: Verus on the real functions annotated in place (overlay)",
        "level_note": "Assumed leaves: Composer::{append_witness_internal, append_custom_gate_internal, constraints, Index<Witness>} "
                      "(hashbrown map inside), BlsScalar field axioms (CANON), two Runtime::event cuts. "
                      "Lemmas are about the arithmetic-row identity arith_sat (= the polynomial R units tie the real widget to, C05/C03); axiom: R is prime.",
        "design_ref": "DESIGN.md §4 C08",
        "assumptions": A_VERUS + ["CANON model of BlsScalar (specs/verus/field.rs): cv in [0,r), + - * neg mod r, From<u64>, ==, invert"],
        "trusted": T_VERUS,
        "not_covered": [],
    },
    "C09": {
        "v_units": ["range.py", "range_lemmas.py"],
        "r": [("widgets", lambda n: n.startswith("range.")), ("composer_leaves", lambda n: "internal" in n),
              ("gadgets", lambda n: n.startswith("range."))],
        "claim": "layout of the range gadget for EVERY width 0..=256 (loop invariants, no bound): range_check_even emits exactly "
                 "rce_rows(nb) (ceil(nb/8) selected rows, accumulators on D,C,B,A most-significant first, unselected carrier row, closing "
                 "equality), range_check adds the lower/top split for odd widths, component_range_bits::<B> == range_check(B), "
                 "component_range::<P> == range_check_even(min(2P,256)); lemma: both entry points emit identical rows for equal widths; "
                 "range widget (prover quotient term, linearisation, verifier commitment term) == sum kappa^k * delta(quad differences); "
                 "SEMANTIC LEMMAS over exactly those rows: (soundness) rows satisfied by canonical values + closing equality ==> "
                 "witness < 2^nb for every even nb in 2..=254 (induction over the accumulator chain, 4^127 < r), and for every odd nb in "
                 "1..=253 via the lower/top split; (completeness) for every v < 2^nb the honest chain v div 4^(nq-i) satisfies every quad "
                 "condition, is 0 on the padding positions and ends in v."
                 "Second opinion by R: range_check_even and range_check executed per width (all widths 0..256 in the thorough tier) must emit exactly the documented layout; the two public entry points emit exactly one internal check, on every call.",
        "technique": "contract-based deductive verification: Verus loop invariants on the real range_check_even/range_check (overlay) + "
                     "ring/trace checker for the range widget",
        "level_note": "Assumed: cut_le_bits (BitIterator8 bit extraction, 3 statements), BlsScalar::{to_bits,pow_of_2}, composer leaves. "
                      "Row semantics used by the lemmas: each of the four quad differences of a selected row is in {0,1,2,3} (the separation "
                      "challenge separating the four delta terms is the protocol-level assumption). Axiom: r prime. Not proved: that the "
                      "CODE's accumulator values are the honest chain (values are not part of the layout contract).",
        "design_ref": "DESIGN.md §4 C09",
        "assumptions": A_VERUS + A_RING,
        "trusted": T_VERUS + T_RING,
        "not_covered": ["honest accumulator values computed by the code", "widths 255/256 (documented as constraining nothing)"],
    },
    "C10": {
        "v_units": ["logic.py", "logic_lemmas.py", "truncate_lemmas.py"],
        "r": [("widgets", lambda n: n.startswith("logic.")), ("composer_leaves", lambda n: "internal" in n),
              ("gadgets", lambda n: n.startswith("truncate."))],
        "claim": "(a) layout for EVERY pair count P <= 127 (loop invariant): append_logic_component::<P> emits P selected rows "
                 "(q_logic = q_c = +1 AND / -1 XOR; accumulators shifted by one row on A,B,D; product wire on C), the unselected carrier row, "
                 "and for P > 0 the two truncation bindings bind_truncation_split(a, left_acc, 2P), (b, right_acc, 2P); returns the out "
                 "accumulator; append_logic_and/xor are the two instances; (b) logic widget: ProverKey::compute_quotient_i / "
                 "compute_linearization, VerifierKey::compute_linearization_commitment, delta and delta_xor_and equal the protocol's logic "
                 "identity for all inputs."
                 "Second opinion by R: per-width instances of the truncation gadget that binds the logic accumulators. "
                 "(c) SEMANTIC LEMMAS (Verus, specs/verus/logic_lemmas.rs + truncate_lemmas.rs): quad semantics of the logic identity (128 cases; quad_op is the bitwise op on 2 bits, by bit_vector); "
                 "by induction over the rows, for every P <= 127, satisfied rows force the accumulators to be exact base-4 numbers with d_P == quad-wise AND / XOR of a_P and b_P; with the canonical "
                 "truncation of both inputs (C11 lemma: a_P == a mod 2^(2P)) the returned witness is the bitwise AND / XOR of the low 2P bits and no other value satisfies the rows.",
        "technique": "contract-based deductive verification: Verus (layout for all pair counts, semantic lemmas) + ring/trace contract checker (widget identities, exact polynomial normal form)",
        "level_note": "The lemmas read one selected row as the five separated terms of logic_id (range of the three quads, product wire, op identity): the separation by the challenge kappa is the "
                      "protocol-level argument (assumed). Completeness (honest accumulator values satisfy the rows) is not a lemma. Assumed: the two "
                      "bit-extraction cuts (BitIterator8 ... skip ... collect) return 2P booleans.",
        "design_ref": "DESIGN.md §4 C10",
        "assumptions": A_RING + A_VERUS, "trusted": T_RING + T_VERUS,
        "not_covered": ["completeness lemma (honest accumulators)", "separation of the five terms of the logic row identity by kappa (protocol argument)"],
    },
    "C11": {
        "v_units": ["truncate.py", "truncate_lemmas.py"],
        "r": [("gadgets", lambda n: n.startswith("bits.component_decomposition") or n.startswith("truncate.") or n.startswith("range.")),
              ("composer_leaves", lambda n: "internal" in n)],
        "claim": "layout of truncation for EVERY width N <= 254: component_truncate::<N> emits exactly trunc_rows(N) = range check of the "
                 "low part on N bits, then bind_truncation_split (range check of the high part on 255-N bits, recomposition row "
                 "2^N*high + low, closing equality with the input) and assert_canonical_truncation (diff = r_high - high range-checked, "
                 "is-zero gadget inverse/product/is_top, diff*is_top = 0, guard = is_top*(r_low - low) range-checked on N bits) with "
                 "r_high, r_low the split of r-1 at bit N (as bit sums of to_bits(-1)); returned witness = the low part; recompose_bits "
                 "== little-endian bit sum mod r (loop invariant); component_decomposition::<N> for the INSTANCES N in {1,2,8,252,256} "
                 "(composer-operation trace: N boolean bit witnesses, running sum with coefficient 2^i, closing equality, bits returned "
                 "little-endian; `assert!(0 < N && N <= 256)` holds)."
                 "Second opinion by R: component_truncate, bind_truncation_split, assert_canonical_truncation per width (all widths in the thorough tier) and the range gadget instances. "
                 "SEMANTIC LEMMAS (Verus, specs/verus/truncate_lemmas.rs), for every 1 <= N <= 254 over canonical wire values: soundness - rows satisfied ==> low == x mod 2^N and "
                 "high == x div 2^N whatever the prover puts on the internal wires (high <= r_high from the diff range check, is_top == [high == r_high] by the is-zero gadget and R prime, "
                 "low <= r_low from the guard range check, hence 2^N high + low <= r - 1 as integers); completeness - the honest assignment satisfies the rows for every canonical x. Bit decomposition, 1 <= N <= 254: satisfied rows (N boolean wires, running sum, closing equality) force x < 2^N and the bit wires to be THE binary digits of x (uniqueness), and the digits of every x < 2^N satisfy them.",
        "technique": "contract-based deductive verification: Verus on the real functions annotated in place (overlay) + Verus lemmas over the emitted rows",
        "level_note": "component_decomposition is decided per instance N (listed), not for all N: the fold over a const-generic array is unrolled "
                      "by the trace checker. The lemmas take the range-check rows through the C09 interval lemma and the arithmetic rows through the C08 row lemmas (stated as relations on canonical values). Widths 255 / 256 of the decomposition (documented: no < r guard) carry no lemma.",
        "design_ref": "DESIGN.md §4 C11",
        "assumptions": A_VERUS + ["CANON model", "BlsScalar::{to_bits, pow_of_2, invert} contracts", "cut_le_bits"],
        "trusted": T_VERUS,
        "not_covered": ["component_decomposition LAYOUT for N outside {1,2,8,252,256}"],
    },
    "C12": {
        "v_units": ["composer_bits_select.py"],      # component_select / select_one / select_zero / boolean: callees of component_select_point and select_identity
        "r": [("widgets", lambda n: n.startswith("curve_addition.")), ("gadgets", lambda n: n.startswith("point.") or n.startswith("bits.component_decomposition")),
              ("composer_leaves", lambda n: "internal" in n)],
        "claim": "(a) curve-addition widget: prover quotient term, linearisation and verifier commitment term equal the twisted-Edwards "
                 "(a = -1) addition law in polynomial form: x1*y2 - w, (w + y1 x2) - x3 (1 + d w y1 x2), (y1 y2 + x1 x2) - y3 (1 - d w y1 x2); "
                 "(b) gadget wiring as composer-operation sequences: add_point_gates (selected row (x1,y1,x2,y2), carrier row (x3,y3,0,x1*y2), "
                 "honest values x1*y2 and the affine sum, identity stand-in when Z = 0 with the SAME shape), component_add/sub/neg_point, "
                 "select_identity_gates, component_select_identity (boolean row present), component_select_point, component_mul_point "
                 "(252-bit decomposition, MSB first, double then conditional add, all 252 rounds). "
                 "(c) the callees the point gadgets are built from: component_select / select_one / select_zero / component_boolean (Verus, all values) and "
                 "component_decomposition (instances N = 1, 2, 8, 252: 2N+1 rows, every call emits its own rows).",
        "technique": "contract-based deductive verification: ring/trace contract checker (exact polynomial normal form, composer-operation traces) + Verus on the select / boolean callees",
        "level_note": "NOT covered: the group law of dusk-jubjub (A4), uniqueness of (x3,y3) (A5).",
        "design_ref": "DESIGN.md §4 C12",
        "assumptions": A_RING + A_VERUS + ["EDWARDS_D treated as an opaque constant symbol"], "trusted": T_RING + T_VERUS,
        "not_covered": ["group law (A4, A5)"],
    },
    "C13": {
        "r": [("gadgets", lambda n: n.startswith("point.append") or n.startswith("point.assert") or n.startswith("point.reject") or "mul_generator" in n or n == "point.add_point_gates"), ("composer_leaves", lambda n: "internal" in n)],
        "claim": "entry-point behaviour as exit structure + composer-operation sequence: append_point / append_public_point / "
                 "assert_equal_public_point return Err(JubJubPointDegenerate) exactly when Z == 0, before anything is emitted and before any "
                 "projecting call; append_constant_point additionally Err(JubJubPointNotTorsionFree) unless on-curve AND torsion-free; "
                 "component_mul_generator: Err(JubJubGeneratorNotPrimeOrder) iff Z == 0 or off-curve or not prime order, tested in that order "
                 "(is_on_curve never evaluated on Z = 0: dependency precondition established on every path), Err(JubJubScalarMalformed) for "
                 "a non-canonical scalar; assert_torsion_free_gates: Q appended, Q-on-curve row -u^2+v^2-d u^2 v^2-1 = 0 via three products, "
                 "three doublings via add_point_gates(q,q), two closing equalities; assert_torsion_free_point feeds Q = [8^-1]P or the "
                 "identity stand-in (same shape on both arms).",
        "technique": "contract-based deductive verification: ring/trace contract checker (exits, path splitting, dependency preconditions)",
        "level_note": "NOT decided: 'satisfiable exactly for prime-order subgroup points' (cofactor-8 image argument + completeness of the "
                      "addition law: axioms A4-A6). jubjub predicates (is_on_curve, is_torsion_free, is_prime_order) are uninterpreted.",
        "design_ref": "DESIGN.md §4 C13",
        "assumptions": A_RING + ["AXIOM A4: twisted-Edwards arithmetic on on-curve inputs never yields Z = 0"], "trusted": T_RING,
        "not_covered": ["the subgroup iff (A4-A6)"],
    },
    "C14": {
        "v_units": ["fixed_base_lemmas.py"],
        "r": [("widgets", lambda n: n.startswith("fixed_base.")), ("gadgets", lambda n: n.startswith("fixed_base.")), ("composer_leaves", lambda n: "internal" in n)],
        "claim": "(a) fixed-base widget: extract_bit, check_bit_consistency, prover quotient term, linearisation and verifier commitment "
                 "term equal the protocol's fixed-base row identity (bit in {-1,0,1}; xy_alpha = bit*xy_beta; Edwards addition of the "
                 "selected table point to the accumulator); (b) gadget: assert_canonical_jubjub_scalar = two 252-bit range checks around "
                 "(r_j - 1) - s; append_fixed_base_signed_digits emits, for all 256 rounds, 4 witnesses and one selected row with "
                 "q_L = x_beta, q_R = y_beta, q_C = x_beta*y_beta, first-row anchors to (0,1,0), carrier row, leading accumulator "
                 "(round 3) pinned to 0, closing equality with the scalar witness; component_mul_generator guard order and error mapping. "
                 "(c) LEMMA (Verus): the rows of assert_canonical_jubjub_scalar (s < 2^252, dist = (r_j - 1) - s mod r, dist < 2^252) are satisfiable exactly for s < r_j.",
        "technique": "contract-based deductive verification: ring/trace contract checker (exact polynomial normal form) + Verus lemma (canonical scalar)",
        "level_note": "Host-side table / digit computations inside append_fixed_base_signed_digits are havocked (trace-only mode). NOT covered: "
                      "the integer-equality lemma for the signed digits, [s]G (group law).",
        "design_ref": "DESIGN.md §4 C14",
        "assumptions": A_RING + A_VERUS + ["EDWARDS_D treated as an opaque constant symbol", "CANON model; range checks by the C09 interval lemma"], "trusted": T_RING + T_VERUS,
        "not_covered": ["integer-equality lemma for the signed-digit recomposition", "group law", "Err(UnsupportedWNAF2k) exit (havocked statement)"],
    },
    "C17": {
        "v_units": ["decoders.py", "compress.py"],
        "v_units2": ["capacity.py"],      # separate overlay (CommitKey is transparent there, external in decoders.py)
        "r": [("kzg", lambda n: "from_raw_var_bytes" in n), ("verifier", lambda n: n == "verifier.new"), ("compress", None),
              ("serial", lambda n: "try_from_bytes" in n or "from_slice" in n or "from_bytes" in n),
              ("serial_kzg", lambda n: "from_" in n or "try_new" in n)],
        "claim": "(0) CommitKey::from_raw_var_bytes: only the canonical raw encoding of a point (flag byte 0/1, limbs below the base-field modulus; Kani twin of the guard in the thorough tier) reaches the unchecked dependency decoder, every decoded point is validated individually. "
                 "totality of the length-field / section parsing for ALL byte strings of ANY length (no bound): Verifier::try_from_bytes and "
                 "Prover::try_from_bytes never index out of bounds and never overflow (48-byte header, checked sums, required_len guard before "
                 "every slice); PackedCircuitReader::{take, unpack_array_len} and packed_size_limit likewise; "
                 "CommitKey::from_raw_var_bytes accepts a key only if EVERY decoded point individually passed is_on_curve & is_torsion_free "
                 "(generic loop iteration as one trace event) and rejects the first failing point with Err(PointMalformed); "
                 "Verifier::new derives exactly one root per public-input index by pow (no index-sized allocation)."
                 "Also (R): Prover / Verifier / ProverKey / Evaluations / Commitment / Proof readers (every length checked before slicing, exact-length check before decoding, no allocation sized by input data before validation), from_bytes row replay and scalar table, unpack_bounded; Compiler::max_constraints free of overflow (second Verus pass).",
        "technique": "contract-based deductive verification: Verus on the real decoders annotated in place (overlay), callee wrappers for "
                     "dependency decoders; ring/trace checker for the per-point validity loop",
        "level_note": "Exit lists are compared in ONE direction for this property (every rejection of the contract present and in order, no added panic; additional error returns allowed - a stricter decoder still satisfies C17; exact comparison of the same units under C16). "
                      "Assumed (callee wrappers, listed in the evidence): VerifierKey/OpeningKey/ProverKey::from_slice, CommitKey::from_raw_var_bytes, "
                      "Verifier::new / Prover::new are total; u64::from_be_bytes; AsRef<[u8]>. NOT covered: validity of accepted points, allocation "
                      "bounds of the callee decoders, Proof::from_bytes, PublicParameters::from_slice, CompressedCircuit::from_bytes.",
        "design_ref": "DESIGN.md §4 C17",
        "assumptions": A_VERUS + A_RING,
        "trusted": T_VERUS + T_RING,
        "not_covered": ["the bodies of ProverKey::from_slice, CommitKey::from_slice, Proof::from_bytes, PublicParameters::from_slice, CompressedCircuit::from_bytes are decided by ring/trace units (exits, typed reads, allocation order), not by Verus; the unchecked raw formats (from_slice_unchecked) are not under contract"],
    },
    "C20": {
        "v_units": ["capacity.py", "kernels.py"],
        "r": [("kzg", None), ("serial_kzg", lambda n: "try_new" in n or "OpeningKey" in n)],
        "claim": "(0) CommitKey::commit: the degree rule is the only exit and is checked on every polynomial before anything is computed; the result is the msm of the key's powers with the coefficient vector. (a) aggregated opening: compute_aggregate_witness(p_0..p_k, z, v) == ruffini(sum_j v^j p_j, z) with POSITIONAL powers "
                 "(instances of 0,1,3,4 polynomials; pointwise loop abstracted to a polynomial operation); (b) batched check: "
                 "batch_challenge absorbs domain separator, length and every (point, commitment, evaluation, witness) in order before the "
                 "squeeze; batch_check rejects empty / mismatched batches before any arithmetic and otherwise tests "
                 "e(-sum u^i W_i, [x]_2) e(sum u^i (C_i + z_i W_i) - (sum u^i e_i) g, [1]_2) == 1 with every entry contributing "
                 "(batch sizes 1-3); (c) util::powers_of(x, d) == [x^0, .., x^d] in the field (loop invariant; the powers of the SRS secret); (d) degree rule: CommitKey::truncate(d) (Err(TruncatedDegreeIsZero) for 0, Err(TruncatedDegreeTooLarge) beyond the key, "
                 "else the prefix of d+1 powers, with the documented d == 1 quirk), max_degree == len - 1, PublicParameters::trim(n) keeps "
                 "n + 7 powers iff n + 6 <= max_degree, check_commit_degree_is_within_bounds: Err(PolynomialDegreeTooLarge) iff degree > max_degree."
                 "Also (R): AggregateProof::flatten with positional, pairwise distinct powers (1..7 parts).",
        "technique": "contract-based deductive verification: Verus (degree rule) + ring/trace contract checker (aggregate witness, batch check)",
        "level_note": "R units are per batch size / list length (stated), not for all lengths. NOT decided: linearity of commitments (msm), "
                      "consistency of generated parameters, ruffini = division by (X - z), pairing algebra.",
        "design_ref": "DESIGN.md §4 C20",
        "assumptions": A_VERUS + A_RING, "trusted": T_VERUS + T_RING,
        "not_covered": ["setup, commit linearity, ruffini, pairing algebra"],
    },
    "C16": {
        "r": [("serial", None), ("serial_kzg", None)],
        "claim": "framing and field order of every encoder/decoder pair, on the real functions: (0) KZG / FFT layer: OpeningKey and EvaluationDomain fixed formats, Polynomial::from_slice / CommitKey::from_slice (every chunk through the canonical decoder), CommitKey / PublicParameters encoders and PublicParameters::from_slice (framing lemma), OpeningKey::try_new validity rules; (a) fixed-size formats (Proof, ProofEvaluations, "
                 "arithmetic::VerifierKey, VerifierKey): to_bytes writes the fields in FORMAT order, from_bytes reads the same number of items of "
                 "the same types in the same order and stores read k in the field write k came from (LEMMA round_trip_positions); "
                 "(b) Verifier / Prover containers: to_bytes writes a 48-byte header of six u64 (the four section lengths, size, constraints) "
                 "followed by the sections; try_from_bytes reads header field k where it was written, checks every length with checked "
                 "arithmetic before slicing, slices each section at the prefix sums of the announced lengths and hands it to the decoder "
                 "of the type that was encoded (LEMMA framing); (c) ProverKey stream format: serialization_size == the number of bytes "
                 "to_var_bytes writes (each polynomial with its own length -- the obligation that exposed the repaired truncation defect), "
                 "to_var_bytes writes n, eval_size and 15 x (len, polynomial, evaluations) + 2 evaluations in FORMAT order, from_slice's two "
                 "local closures (each under its own contract) consume exactly one item and advance the cursor past it, from_slice "
                 "reads the items in FORMAT order, bounds every polynomial by n, pins every evaluation vector to the 8n domain, re-validates "
                 "the two derived vectors and fills every field from the item its encoder produced (LEMMA pk_framing: size / stream / fields).",
        "technique": "contract-based deductive verification: ring/trace contract checker over the real encoder/decoder function bodies (format contracts + framing lemmas)",
        "level_note": "Decides the container layer (where each byte range goes). NOT decided: the leaf codecs of the dependencies "
                      "(BlsScalar / G1Affine / G2 canonical decoding => proof canonicity rests on them), Polynomial / Evaluations / "
                      "CommitKey / OpeningKey / PublicParameters var-bytes bodies, equality of the caches rebuilt by Prover::new / "
                      "Verifier::new (they are functions of the decoded parts only: the units show the decoder passes the parts to the "
                      "same constructor), and 'same proof from the same randomness'.",
        "design_ref": "DESIGN.md §4 C16, §9",
        "assumptions": A_RING + ["dusk-bytes from_reader consumes T::SIZE bytes from the front and fails otherwise",
                                 "64-bit target: usize <-> u64 conversions are lossless",
                                 "section sizes in LEMMA pk_framing: |Polynomial::to_var_bytes(p)| = 32*len(p) for normalised p; all 17 Evaluations of a "
                                 "ProverKey have the same length (8n domain)"],
        "trusted": T_RING,
        "not_covered": ["leaf codecs (scalars, points), the raw (unchecked) commit-key / parameter formats, Polynomial::to_var_bytes",
                        "behavioural equality of decoded prover/verifier beyond the parts handed to the constructors"],
    },
    "C19": {
        "v_units": ["kernels.py"],
        "r": [("kernels", None)],
        "claim": "per-INSTANCE exactness of the serial kernels on the real functions (every element value symbolic, every zero / "
                 "non-zero pattern a separate path, results compared in exact polynomial normal form): util::batch_inversion inverts every "
                 "non-zero entry and leaves zeros (lengths 0-5, all 2^k patterns; inverse stated in product form); Polynomial::ruffini is "
                 "division by (X - z) (lengths 0-6, closed-form quotient + LEMMA q(X)(X-z) + p(z) == p(X)); Polynomial::evaluate == sum p_i v^i "
                 "(lengths 0-6); &a + &b, &a - &b, a += &b, a -= &b, a += (f, &b) equal a(X) +/- f b(X) as polynomials in X and return a "
                 "normalised result (all length pairs 0-3 x 0-3, arbitrary - also non-normalised - inputs); util::powers_of(x, d) == "
                 "[x^0..x^d] for ALL d (Verus loop invariant); FFT: serial_fft(a, w, log n) == DFT_w(a) for n = 1..32 with w a SYMBOL subject "
                 "only to w^(n/2) == -1 (so the result holds for every primitive n-th root), best_fft == serial_fft below the parallel "
                 "threshold, EvaluationDomain::{fft, ifft, coset_fft, coset_ifft} for n = 1,2,4,8 and input lengths 0, 1, n-1, n, n+1 "
                 "(zero padding; longer inputs are cut to the domain), LEMMA fft_round_trip (the four contract formulas are mutually inverse), "
                 "butterfly_chunk and parallel_butterfly_chunk == the radix-2 butterfly for thread counts 1,3,4,5,16,17 as an instance "
                 "parameter (m up to 512); best_fft ABOVE its parallel threshold executed at n = 4..32 (128 thorough) with the local threshold constant lowered "
                 "(bounded stand-in, the engine refuses any other use of the lowered constant); the four domain transforms END TO END (no callee contract below the entry, "
                 "n <= 8 quick, <= 32 thorough). Size coverage: a length comparison against a constant that no instance reaches makes the run UNDECIDED unless recorded "
                 "(two recorded sites, both in best_fft, reported under coverage.bounded).",
        "technique": "contract-based deductive verification: ring/trace contract checker on the real function bodies, instance by instance "
                     "(bounded in the vector length only) + Verus (powers_of, unbounded)",
        "level_note": "BOUNDED in length / domain size: each instance is exact for all element values but covers only the stated sizes. "
                      "rayon is modelled sequentially under a stated assumption (disjoint chunks, every item visited once), with the thread "
                      "count as a parameter; real schedules are not explored. NOT decided: best_fft's parallel stage selection for n >= 2^12, "
                      "FFT-based polynomial multiplication, Lagrange / barycentric / vanishing closed forms.",
        "design_ref": "DESIGN.md §4 C19, §9",
        "assumptions": A_RING + A_VERUS + ["field inverse as an uninterpreted symbol inv(p); results stated in product form (inv(T) * cofactor), "
                                          "which equals 1/v_i because inv(T) * T == 1 in a field"],
        "trusted": T_RING + T_VERUS,
        "not_covered": ["rayon schedules, n >= 2^12 stage selection, barycentric evaluation, sizes beyond the instances (polynomial product: domain size for all lengths, values per instance)"],
    },
    "C15": {
        "v_units": ["capacity.py", "compress.py"],
        "r": [("compress", None), ("preprocess", None)],   # incl. unpack_bounded, from_composer, scalar_map, row replay
        "claim": "(a) the two routes accept exactly the same capacities: Compiler::max_constraints(pp) == pow2_floor(max_degree - 6) - 6 "
                 "(saturating), compile_with_composer computes n = npot(c + 6) and fails whenever trim(n) fails, PublicParameters::trim(n) "
                 "succeeds iff n + 6 <= max_degree, and LEMMA max_constraints_exact: for all c >= 1 and all capacities, "
                 "c <= max_constraints <=> npot(c + 6) + 6 <= max_degree; (b) bounded decompression: packed_size_limit == 857*mc + 30 or Err on "
                 "overflow; PackedCircuitReader::{take, unpack_array_len, is_empty} never read out of bounds, never grow the remaining input and "
                 "reject every non-array tag."
                 "Also (R): the encoder's index assignment (from_composer: every selector value gets the table length at THAT moment unless present; the packed header carries the flag as given and witnesses = number of allocated witnesses; row i carries the wire labels a, b, c, d of gate i and its tuple's index), scalar_map (an index once given is never reassigned), unpack_bounded (each collection under its own bound, scalars 11 per row), the row-replay loop of from_bytes (each row from its own tuple; the only carried state is the public-input cursor; every scalar through the canonical decoder), unpack_array_len per tag.",
        "technique": "contract-based deductive verification: Verus on the real functions annotated in place (overlay)",
        "level_note": "Not decided: byte identity of the keys of the two routes (from_composer / from_bytes reconstruction over hashbrown); "
                      "CompressedCircuit::from_bytes / unpack_bounded / validate_indices bodies are not yet under contract.",
        "design_ref": "DESIGN.md §4 C15",
        "assumptions": A_VERUS + ["usize::leading_zeros, <[T]>::to_vec contracts (std)"],
        "trusted": T_VERUS,
        "not_covered": ["byte identity of keys from the two routes (from_composer/hashbrown not under contract)"],
    },
}


def run(pid, cfg, res, tier, seed):
    if cfg.get("v_units"):
        runner.run_v(res, cfg["v_units"])
    if cfg.get("v_units2"):
        runner.run_v(res, cfg["v_units2"])
    for (mod, sel) in cfg.get("r", []):
        runner.run_r(res, [mod], select=sel, seed=seed)


# properties not (yet) claimed; reason shown in MANIFEST.not_applicable.  Entries disappear as units are built.
NA = {
    "C18": "quantifies over thread-pool sizes, schedules, fresh processes and std/alloc-only builds: Kani has no threads, "
           "Verus has no model of rayon, and equality of two builds is a relation between two programs, not a contract of one "
           "function (DESIGN.md §5)",
}
NOT_YET = "no contract unit built yet for this property in this framework (work in progress, see DESIGN.md §4); not claimed"

"""Registry: property -> units of each engine, claim text, assumptions."""
import os
from vlib import runner

COMMON_TRUSTED = [
    "Verus 0.2026.09.13 + bundled Z3 (soundness of the verifier and of its encoding of Rust)",
    "rustc 1.98.1 front end / CTFE for const assertions",
    "overlay tool (/verif/vlib/overlay.py + tools/vfx): insert-only annotation of the real source, listed in coverage.overlay",
    "vstd specifications of core/alloc (Vec, slices, Option, Result, integer ops)",
]
COMMON_ASSUMPTIONS = [
    "64-bit target: `global size_of usize == 8`",
    "contracts marked external_body / assume_specification (listed in coverage.assumed_contracts) are assumed, not proved",
]

PROPS = {
    "C15": {
        "v_units": ["capacity.py"],
        "claim": "capacity arithmetic of the compressed route",
        "assumptions": COMMON_ASSUMPTIONS + ["usize::leading_zeros contract (std)"],
        "trusted": COMMON_TRUSTED,
        "not_covered": ["byte identity of keys from the two routes (from_composer/hashbrown not under contract)"],
    },
}


def run(pid, cfg, res, tier, seed):
    if cfg.get("v_units"):
        runner.run_v(res, cfg["v_units"])

#!/bin/sh
# Run once in /verif after a fresh restore, offline.  Builds (a) the syn-based span/AST helper `vfx`,
# (b) the dependency rlibs of /repo with Verus' pinned toolchain and records the rustc command line of the
# dusk_plonk lib crate (used to run Verus as the rustc of the real crate).
set -e
cd "$(dirname "$0")"
export CARGO_NET_OFFLINE=true
mkdir -p .cache
( cd tools/vfx && CARGO_TARGET_DIR=/verif/.cache/vfx-target cargo build --release --offline )
python3 - <<'PY'
import sys
sys.path.insert(0, "/verif")
from vlib import core
core.ensure_verus_deps()
print("verus deps ready")
PY
